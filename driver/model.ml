
(** val negb : bool -> bool **)

let negb = function
| true -> false
| false -> true

type nat =
| O
| S of nat

type ('a, 'b) sum =
| Inl of 'a
| Inr of 'b

(** val fst : ('a1 * 'a2) -> 'a1 **)

let fst = function
| (x, _) -> x

(** val snd : ('a1 * 'a2) -> 'a2 **)

let snd = function
| (_, y) -> y

(** val length : 'a1 list -> nat **)

let rec length = function
| [] -> O
| _ :: l' -> S (length l')

(** val app : 'a1 list -> 'a1 list -> 'a1 list **)

let rec app l m =
  match l with
  | [] -> m
  | a :: l1 -> a :: (app l1 m)

type comparison =
| Eq
| Lt
| Gt

(** val compOpp : comparison -> comparison **)

let compOpp = function
| Eq -> Eq
| Lt -> Gt
| Gt -> Lt

module Coq__1 = struct
 (** val add : nat -> nat -> nat **)
 let rec add n0 m =
   match n0 with
   | O -> m
   | S p -> S (add p m)
end
include Coq__1

(** val sub : nat -> nat -> nat **)

let rec sub n0 m =
  match n0 with
  | O -> n0
  | S k -> (match m with
            | O -> n0
            | S l -> sub k l)

module Nat =
 struct
  (** val leb : nat -> nat -> bool **)

  let rec leb n0 m =
    match n0 with
    | O -> true
    | S n' -> (match m with
               | O -> false
               | S m' -> leb n' m')
 end

(** val tl : 'a1 list -> 'a1 list **)

let tl = function
| [] -> []
| _ :: m -> m

(** val rev : 'a1 list -> 'a1 list **)

let rec rev = function
| [] -> []
| x :: l' -> app (rev l') (x :: [])

(** val rev_append : 'a1 list -> 'a1 list -> 'a1 list **)

let rec rev_append l l' =
  match l with
  | [] -> l'
  | a :: l0 -> rev_append l0 (a :: l')

(** val concat : 'a1 list list -> 'a1 list **)

let rec concat = function
| [] -> []
| x :: l0 -> app x (concat l0)

(** val map : ('a1 -> 'a2) -> 'a1 list -> 'a2 list **)

let rec map f = function
| [] -> []
| a :: t -> (f a) :: (map f t)

(** val existsb : ('a1 -> bool) -> 'a1 list -> bool **)

let rec existsb f = function
| [] -> false
| a :: l0 -> (||) (f a) (existsb f l0)

(** val firstn : nat -> 'a1 list -> 'a1 list **)

let rec firstn n0 l =
  match n0 with
  | O -> []
  | S n1 -> (match l with
             | [] -> []
             | a :: l0 -> a :: (firstn n1 l0))

(** val skipn : nat -> 'a1 list -> 'a1 list **)

let rec skipn n0 l =
  match n0 with
  | O -> l
  | S n1 -> (match l with
             | [] -> []
             | _ :: l0 -> skipn n1 l0)

(** val repeat : 'a1 -> nat -> 'a1 list **)

let rec repeat x = function
| O -> []
| S k -> x :: (repeat x k)

type positive =
| XI of positive
| XO of positive
| XH

type n =
| N0
| Npos of positive

type z =
| Z0
| Zpos of positive
| Zneg of positive

module Pos =
 struct
  type mask =
  | IsNul
  | IsPos of positive
  | IsNeg
 end

module Coq_Pos =
 struct
  (** val succ : positive -> positive **)

  let rec succ = function
  | XI p -> XO (succ p)
  | XO p -> XI p
  | XH -> XO XH

  (** val add : positive -> positive -> positive **)

  let rec add x y =
    match x with
    | XI p ->
      (match y with
       | XI q -> XO (add_carry p q)
       | XO q -> XI (add p q)
       | XH -> XO (succ p))
    | XO p ->
      (match y with
       | XI q -> XI (add p q)
       | XO q -> XO (add p q)
       | XH -> XI p)
    | XH -> (match y with
             | XI q -> XO (succ q)
             | XO q -> XI q
             | XH -> XO XH)

  (** val add_carry : positive -> positive -> positive **)

  and add_carry x y =
    match x with
    | XI p ->
      (match y with
       | XI q -> XI (add_carry p q)
       | XO q -> XO (add_carry p q)
       | XH -> XI (succ p))
    | XO p ->
      (match y with
       | XI q -> XO (add_carry p q)
       | XO q -> XI (add p q)
       | XH -> XO (succ p))
    | XH ->
      (match y with
       | XI q -> XI (succ q)
       | XO q -> XO (succ q)
       | XH -> XI XH)

  (** val pred_double : positive -> positive **)

  let rec pred_double = function
  | XI p -> XI (XO p)
  | XO p -> XI (pred_double p)
  | XH -> XH

  type mask = Pos.mask =
  | IsNul
  | IsPos of positive
  | IsNeg

  (** val succ_double_mask : mask -> mask **)

  let succ_double_mask = function
  | IsNul -> IsPos XH
  | IsPos p -> IsPos (XI p)
  | IsNeg -> IsNeg

  (** val double_mask : mask -> mask **)

  let double_mask = function
  | IsPos p -> IsPos (XO p)
  | x0 -> x0

  (** val double_pred_mask : positive -> mask **)

  let double_pred_mask = function
  | XI p -> IsPos (XO (XO p))
  | XO p -> IsPos (XO (pred_double p))
  | XH -> IsNul

  (** val sub_mask : positive -> positive -> mask **)

  let rec sub_mask x y =
    match x with
    | XI p ->
      (match y with
       | XI q -> double_mask (sub_mask p q)
       | XO q -> succ_double_mask (sub_mask p q)
       | XH -> IsPos (XO p))
    | XO p ->
      (match y with
       | XI q -> succ_double_mask (sub_mask_carry p q)
       | XO q -> double_mask (sub_mask p q)
       | XH -> IsPos (pred_double p))
    | XH -> (match y with
             | XH -> IsNul
             | _ -> IsNeg)

  (** val sub_mask_carry : positive -> positive -> mask **)

  and sub_mask_carry x y =
    match x with
    | XI p ->
      (match y with
       | XI q -> succ_double_mask (sub_mask_carry p q)
       | XO q -> double_mask (sub_mask p q)
       | XH -> IsPos (pred_double p))
    | XO p ->
      (match y with
       | XI q -> double_mask (sub_mask_carry p q)
       | XO q -> succ_double_mask (sub_mask_carry p q)
       | XH -> double_pred_mask p)
    | XH -> IsNeg

  (** val mul : positive -> positive -> positive **)

  let rec mul x y =
    match x with
    | XI p -> add y (XO (mul p y))
    | XO p -> XO (mul p y)
    | XH -> y

  (** val size : positive -> positive **)

  let rec size = function
  | XI p0 -> succ (size p0)
  | XO p0 -> succ (size p0)
  | XH -> XH

  (** val compare_cont : comparison -> positive -> positive -> comparison **)

  let rec compare_cont r x y =
    match x with
    | XI p ->
      (match y with
       | XI q -> compare_cont r p q
       | XO q -> compare_cont Gt p q
       | XH -> Gt)
    | XO p ->
      (match y with
       | XI q -> compare_cont Lt p q
       | XO q -> compare_cont r p q
       | XH -> Gt)
    | XH -> (match y with
             | XH -> r
             | _ -> Lt)

  (** val compare : positive -> positive -> comparison **)

  let compare =
    compare_cont Eq

  (** val eqb : positive -> positive -> bool **)

  let rec eqb p q =
    match p with
    | XI p0 -> (match q with
                | XI q0 -> eqb p0 q0
                | _ -> false)
    | XO p0 -> (match q with
                | XO q0 -> eqb p0 q0
                | _ -> false)
    | XH -> (match q with
             | XH -> true
             | _ -> false)

  (** val iter_op : ('a1 -> 'a1 -> 'a1) -> positive -> 'a1 -> 'a1 **)

  let rec iter_op op p a =
    match p with
    | XI p0 -> op a (iter_op op p0 (op a a))
    | XO p0 -> iter_op op p0 (op a a)
    | XH -> a

  (** val to_nat : positive -> nat **)

  let to_nat x =
    iter_op Coq__1.add x (S O)

  (** val of_succ_nat : nat -> positive **)

  let rec of_succ_nat = function
  | O -> XH
  | S x -> succ (of_succ_nat x)
 end

module N =
 struct
  (** val succ_double : n -> n **)

  let succ_double = function
  | N0 -> Npos XH
  | Npos p -> Npos (XI p)

  (** val double : n -> n **)

  let double = function
  | N0 -> N0
  | Npos p -> Npos (XO p)

  (** val add : n -> n -> n **)

  let add n0 m =
    match n0 with
    | N0 -> m
    | Npos p -> (match m with
                 | N0 -> n0
                 | Npos q -> Npos (Coq_Pos.add p q))

  (** val sub : n -> n -> n **)

  let sub n0 m =
    match n0 with
    | N0 -> N0
    | Npos n' ->
      (match m with
       | N0 -> n0
       | Npos m' ->
         (match Coq_Pos.sub_mask n' m' with
          | Coq_Pos.IsPos p -> Npos p
          | _ -> N0))

  (** val mul : n -> n -> n **)

  let mul n0 m =
    match n0 with
    | N0 -> N0
    | Npos p -> (match m with
                 | N0 -> N0
                 | Npos q -> Npos (Coq_Pos.mul p q))

  (** val compare : n -> n -> comparison **)

  let compare n0 m =
    match n0 with
    | N0 -> (match m with
             | N0 -> Eq
             | Npos _ -> Lt)
    | Npos n' -> (match m with
                  | N0 -> Gt
                  | Npos m' -> Coq_Pos.compare n' m')

  (** val eqb : n -> n -> bool **)

  let eqb n0 m =
    match n0 with
    | N0 -> (match m with
             | N0 -> true
             | Npos _ -> false)
    | Npos p -> (match m with
                 | N0 -> false
                 | Npos q -> Coq_Pos.eqb p q)

  (** val leb : n -> n -> bool **)

  let leb x y =
    match compare x y with
    | Gt -> false
    | _ -> true

  (** val ltb : n -> n -> bool **)

  let ltb x y =
    match compare x y with
    | Lt -> true
    | _ -> false

  (** val size : n -> n **)

  let size = function
  | N0 -> N0
  | Npos p -> Npos (Coq_Pos.size p)

  (** val pos_div_eucl : positive -> n -> n * n **)

  let rec pos_div_eucl a b0 =
    match a with
    | XI a' ->
      let (q, r) = pos_div_eucl a' b0 in
      let r' = succ_double r in
      if leb b0 r' then ((succ_double q), (sub r' b0)) else ((double q), r')
    | XO a' ->
      let (q, r) = pos_div_eucl a' b0 in
      let r' = double r in
      if leb b0 r' then ((succ_double q), (sub r' b0)) else ((double q), r')
    | XH ->
      (match b0 with
       | N0 -> (N0, (Npos XH))
       | Npos p -> (match p with
                    | XH -> ((Npos XH), N0)
                    | _ -> (N0, (Npos XH))))

  (** val div_eucl : n -> n -> n * n **)

  let div_eucl a b0 =
    match a with
    | N0 -> (N0, N0)
    | Npos na -> (match b0 with
                  | N0 -> (N0, a)
                  | Npos _ -> pos_div_eucl na b0)

  (** val div : n -> n -> n **)

  let div a b0 =
    fst (div_eucl a b0)

  (** val modulo : n -> n -> n **)

  let modulo a b0 =
    snd (div_eucl a b0)

  (** val to_nat : n -> nat **)

  let to_nat = function
  | N0 -> O
  | Npos p -> Coq_Pos.to_nat p
 end

type ascii =
| Ascii of bool * bool * bool * bool * bool * bool * bool * bool

(** val n_of_digits : bool list -> n **)

let rec n_of_digits = function
| [] -> N0
| b0 :: l' ->
  N.add (if b0 then Npos XH else N0) (N.mul (Npos (XO XH)) (n_of_digits l'))

(** val n_of_ascii : ascii -> n **)

let n_of_ascii = function
| Ascii (a0, a1, a2, a3, a4, a5, a6, a7) ->
  n_of_digits
    (a0 :: (a1 :: (a2 :: (a3 :: (a4 :: (a5 :: (a6 :: (a7 :: []))))))))

module Z =
 struct
  (** val double : z -> z **)

  let double = function
  | Z0 -> Z0
  | Zpos p -> Zpos (XO p)
  | Zneg p -> Zneg (XO p)

  (** val succ_double : z -> z **)

  let succ_double = function
  | Z0 -> Zpos XH
  | Zpos p -> Zpos (XI p)
  | Zneg p -> Zneg (Coq_Pos.pred_double p)

  (** val pred_double : z -> z **)

  let pred_double = function
  | Z0 -> Zneg XH
  | Zpos p -> Zpos (Coq_Pos.pred_double p)
  | Zneg p -> Zneg (XI p)

  (** val pos_sub : positive -> positive -> z **)

  let rec pos_sub x y =
    match x with
    | XI p ->
      (match y with
       | XI q -> double (pos_sub p q)
       | XO q -> succ_double (pos_sub p q)
       | XH -> Zpos (XO p))
    | XO p ->
      (match y with
       | XI q -> pred_double (pos_sub p q)
       | XO q -> double (pos_sub p q)
       | XH -> Zpos (Coq_Pos.pred_double p))
    | XH ->
      (match y with
       | XI q -> Zneg (XO q)
       | XO q -> Zneg (Coq_Pos.pred_double q)
       | XH -> Z0)

  (** val add : z -> z -> z **)

  let add x y =
    match x with
    | Z0 -> y
    | Zpos x' ->
      (match y with
       | Z0 -> x
       | Zpos y' -> Zpos (Coq_Pos.add x' y')
       | Zneg y' -> pos_sub x' y')
    | Zneg x' ->
      (match y with
       | Z0 -> x
       | Zpos y' -> pos_sub y' x'
       | Zneg y' -> Zneg (Coq_Pos.add x' y'))

  (** val opp : z -> z **)

  let opp = function
  | Z0 -> Z0
  | Zpos x0 -> Zneg x0
  | Zneg x0 -> Zpos x0

  (** val sub : z -> z -> z **)

  let sub m n0 =
    add m (opp n0)

  (** val compare : z -> z -> comparison **)

  let compare x y =
    match x with
    | Z0 -> (match y with
             | Z0 -> Eq
             | Zpos _ -> Lt
             | Zneg _ -> Gt)
    | Zpos x' -> (match y with
                  | Zpos y' -> Coq_Pos.compare x' y'
                  | _ -> Gt)
    | Zneg x' ->
      (match y with
       | Zneg y' -> compOpp (Coq_Pos.compare x' y')
       | _ -> Lt)

  (** val ltb : z -> z -> bool **)

  let ltb x y =
    match compare x y with
    | Lt -> true
    | _ -> false

  (** val eqb : z -> z -> bool **)

  let eqb x y =
    match x with
    | Z0 -> (match y with
             | Z0 -> true
             | _ -> false)
    | Zpos p -> (match y with
                 | Zpos q -> Coq_Pos.eqb p q
                 | _ -> false)
    | Zneg p -> (match y with
                 | Zneg q -> Coq_Pos.eqb p q
                 | _ -> false)

  (** val to_nat : z -> nat **)

  let to_nat = function
  | Zpos p -> Coq_Pos.to_nat p
  | _ -> O

  (** val of_nat : nat -> z **)

  let of_nat = function
  | O -> Z0
  | S n1 -> Zpos (Coq_Pos.of_succ_nat n1)
 end

type string =
| EmptyString
| String of ascii * string

(** val list_ascii_of_string : string -> ascii list **)

let rec list_ascii_of_string = function
| EmptyString -> []
| String (ch, s0) -> ch :: (list_ascii_of_string s0)

type str = n list

(** val b : string -> str **)

let b s =
  map n_of_ascii (list_ascii_of_string s)

(** val str_eqb : str -> str -> bool **)

let rec str_eqb x y =
  match x with
  | [] -> (match y with
           | [] -> true
           | _ :: _ -> false)
  | a :: x' ->
    (match y with
     | [] -> false
     | c :: y' -> (&&) (N.eqb a c) (str_eqb x' y'))

(** val in_range : n -> n -> n -> bool **)

let in_range lo hi c =
  (&&) (N.leb lo c) (N.leb c hi)

(** val is_digit : n -> bool **)

let is_digit c =
  in_range (Npos (XO (XO (XO (XO (XI XH)))))) (Npos (XI (XO (XO (XI (XI
    XH)))))) c

(** val is_lower : n -> bool **)

let is_lower c =
  in_range (Npos (XI (XO (XO (XO (XO (XI XH))))))) (Npos (XO (XI (XO (XI (XI
    (XI XH))))))) c

(** val is_upper : n -> bool **)

let is_upper c =
  in_range (Npos (XI (XO (XO (XO (XO (XO XH))))))) (Npos (XO (XI (XO (XI (XI
    (XO XH))))))) c

(** val is_letter : n -> bool **)

let is_letter c =
  (||) (is_lower c) (is_upper c)

(** val is_name_start : n -> bool **)

let is_name_start c =
  (||) (is_letter c) (N.eqb c (Npos (XI (XI (XI (XI (XI (XO XH))))))))

(** val is_name_cont : n -> bool **)

let is_name_cont c =
  (||) (is_name_start c) (is_digit c)

type flag =
| F_L1
| F_L2
| F_L3
| F_P1
| F_P2
| F_P3
| F_Q1
| F_Q2
| F_Q3
| F_Q4
| F_S1
| F_S2
| F_S3
| F_S4
| F_S5
| F_S6
| F_S7
| F_X1
| F_X2
| F_X3
| F_X4
| F_X5
| F_X6
| F_X7
| F_X8
| F_X9

(** val flag_id : flag -> n **)

let flag_id = function
| F_L1 -> Npos XH
| F_L2 -> Npos (XO XH)
| F_L3 -> Npos (XI XH)
| F_P1 -> Npos (XO (XO XH))
| F_P2 -> Npos (XI (XO XH))
| F_P3 -> Npos (XO (XI XH))
| F_Q1 -> Npos (XI (XI XH))
| F_Q2 -> Npos (XO (XO (XO XH)))
| F_Q3 -> Npos (XI (XO (XO XH)))
| F_Q4 -> Npos (XO (XI (XO XH)))
| F_S1 -> Npos (XI (XI (XO XH)))
| F_S2 -> Npos (XO (XO (XI XH)))
| F_S3 -> Npos (XI (XO (XI XH)))
| F_S4 -> Npos (XO (XI (XI XH)))
| F_S5 -> Npos (XI (XI (XI XH)))
| F_S6 -> Npos (XO (XO (XO (XO XH))))
| F_S7 -> Npos (XI (XO (XO (XO XH))))
| F_X1 -> Npos (XO (XI (XO (XO XH))))
| F_X2 -> Npos (XI (XI (XO (XO XH))))
| F_X3 -> Npos (XO (XO (XI (XO XH))))
| F_X4 -> Npos (XI (XO (XI (XO XH))))
| F_X5 -> Npos (XO (XI (XI (XO XH))))
| F_X6 -> Npos (XI (XI (XI (XO XH))))
| F_X7 -> Npos (XO (XO (XO (XI XH))))
| F_X8 -> Npos (XI (XO (XO (XI XH))))
| F_X9 -> Npos (XO (XI (XO (XI XH))))

type dev = flag -> bool

(** val dev_of_ids : n list -> dev **)

let dev_of_ids ids f =
  existsb (N.eqb (flag_id f)) ids

(** val pos_digits : nat -> n -> str -> str **)

let rec pos_digits fuel n0 acc =
  match fuel with
  | O -> acc
  | S f ->
    let d =
      N.add (Npos (XO (XO (XO (XO (XI XH))))))
        (N.modulo n0 (Npos (XO (XI (XO XH)))))
    in
    if N.ltb n0 (Npos (XO (XI (XO XH))))
    then d :: acc
    else pos_digits f (N.div n0 (Npos (XO (XI (XO XH))))) (d :: acc)

(** val n_dec : n -> str **)

let n_dec n0 =
  pos_digits (S (N.to_nat (N.size n0))) n0 []

(** val z_dec : z -> str **)

let z_dec = function
| Z0 -> (Npos (XO (XO (XO (XO (XI XH)))))) :: []
| Zpos p -> n_dec (Npos p)
| Zneg p -> (Npos (XI (XO (XI (XI (XO XH)))))) :: (n_dec (Npos p))

(** val hexd : n -> n **)

let hexd n0 =
  if N.ltb n0 (Npos (XO (XI (XO XH))))
  then N.add (Npos (XO (XO (XO (XO (XI XH)))))) n0
  else N.add (Npos (XI (XI (XI (XO (XI (XO XH))))))) n0

(** val hex : str -> str **)

let rec hex = function
| [] -> []
| c :: tl0 ->
  (hexd (N.div c (Npos (XO (XO (XO (XO XH))))))) :: ((hexd
                                                       (N.modulo c (Npos (XO
                                                         (XO (XO (XO XH))))))) :: 
    (hex tl0))

(** val runeError : n **)

let runeError =
  Npos (XI (XO (XI (XI (XI (XI (XI (XI (XI (XI (XI (XI (XI (XI (XI
    XH)))))))))))))))

(** val is_cont : n -> bool **)

let is_cont c =
  in_range (Npos (XO (XO (XO (XO (XO (XO (XO XH)))))))) (Npos (XI (XI (XI (XI
    (XI (XI (XO XH)))))))) c

(** val decode_rune : str -> n * nat **)

let decode_rune = function
| [] -> (runeError, O)
| b0 :: tl0 ->
  if N.ltb b0 (Npos (XO (XO (XO (XO (XO (XO (XO XH))))))))
  then (b0, (S O))
  else if N.ltb b0 (Npos (XO (XI (XO (XO (XO (XO (XI XH))))))))
       then (runeError, (S O))
       else if N.ltb b0 (Npos (XO (XO (XO (XO (XO (XI (XI XH))))))))
            then (match tl0 with
                  | [] -> (runeError, (S O))
                  | b1 :: _ ->
                    if is_cont b1
                    then ((N.add
                            (N.mul
                              (N.sub b0 (Npos (XO (XO (XO (XO (XO (XO (XI
                                XH))))))))) (Npos (XO (XO (XO (XO (XO (XO
                              XH))))))))
                            (N.sub b1 (Npos (XO (XO (XO (XO (XO (XO (XO
                              XH)))))))))), (S (S O)))
                    else (runeError, (S O)))
            else if N.ltb b0 (Npos (XO (XO (XO (XO (XI (XI (XI XH))))))))
                 then (match tl0 with
                       | [] -> (runeError, (S O))
                       | b1 :: l0 ->
                         (match l0 with
                          | [] -> (runeError, (S O))
                          | b2 :: _ ->
                            let lo =
                              if N.eqb b0 (Npos (XO (XO (XO (XO (XO (XI (XI
                                   XH))))))))
                              then Npos (XO (XO (XO (XO (XO (XI (XO XH)))))))
                              else Npos (XO (XO (XO (XO (XO (XO (XO XH)))))))
                            in
                            let hi =
                              if N.eqb b0 (Npos (XI (XO (XI (XI (XO (XI (XI
                                   XH))))))))
                              then Npos (XI (XI (XI (XI (XI (XO (XO XH)))))))
                              else Npos (XI (XI (XI (XI (XI (XI (XO XH)))))))
                            in
                            if (&&) (in_range lo hi b1) (is_cont b2)
                            then ((N.add
                                    (N.add
                                      (N.mul
                                        (N.sub b0 (Npos (XO (XO (XO (XO (XO
                                          (XI (XI XH))))))))) (Npos (XO (XO
                                        (XO (XO (XO (XO (XO (XO (XO (XO (XO
                                        (XO XH))))))))))))))
                                      (N.mul
                                        (N.sub b1 (Npos (XO (XO (XO (XO (XO
                                          (XO (XO XH))))))))) (Npos (XO (XO
                                        (XO (XO (XO (XO XH)))))))))
                                    (N.sub b2 (Npos (XO (XO (XO (XO (XO (XO
                                      (XO XH)))))))))), (S (S (S O))))
                            else (runeError, (S O))))
                 else if N.ltb b0 (Npos (XI (XO (XI (XO (XI (XI (XI XH))))))))
                      then (match tl0 with
                            | [] -> (runeError, (S O))
                            | b1 :: l0 ->
                              (match l0 with
                               | [] -> (runeError, (S O))
                               | b2 :: l1 ->
                                 (match l1 with
                                  | [] -> (runeError, (S O))
                                  | b3 :: _ ->
                                    let lo =
                                      if N.eqb b0 (Npos (XO (XO (XO (XO (XI
                                           (XI (XI XH))))))))
                                      then Npos (XO (XO (XO (XO (XI (XO (XO
                                             XH)))))))
                                      else Npos (XO (XO (XO (XO (XO (XO (XO
                                             XH)))))))
                                    in
                                    let hi =
                                      if N.eqb b0 (Npos (XO (XO (XI (XO (XI
                                           (XI (XI XH))))))))
                                      then Npos (XI (XI (XI (XI (XO (XO (XO
                                             XH)))))))
                                      else Npos (XI (XI (XI (XI (XI (XI (XO
                                             XH)))))))
                                    in
                                    if (&&)
                                         ((&&) (in_range lo hi b1)
                                           (is_cont b2)) (is_cont b3)
                                    then ((N.add
                                            (N.add
                                              (N.add
                                                (N.mul
                                                  (N.sub b0 (Npos (XO (XO (XO
                                                    (XO (XI (XI (XI
                                                    XH))))))))) (Npos (XO (XO
                                                  (XO (XO (XO (XO (XO (XO (XO
                                                  (XO (XO (XO (XO (XO (XO (XO
                                                  (XO (XO
                                                  XH))))))))))))))))))))
                                                (N.mul
                                                  (N.sub b1 (Npos (XO (XO (XO
                                                    (XO (XO (XO (XO
                                                    XH))))))))) (Npos (XO (XO
                                                  (XO (XO (XO (XO (XO (XO (XO
                                                  (XO (XO (XO XH)))))))))))))))
                                              (N.mul
                                                (N.sub b2 (Npos (XO (XO (XO
                                                  (XO (XO (XO (XO XH)))))))))
                                                (Npos (XO (XO (XO (XO (XO (XO
                                                XH)))))))))
                                            (N.sub b3 (Npos (XO (XO (XO (XO
                                              (XO (XO (XO XH)))))))))), (S (S
                                           (S (S O)))))
                                    else (runeError, (S O)))))
                      else (runeError, (S O))

(** val encode_rune : n -> str **)

let encode_rune r =
  if N.ltb r (Npos (XO (XO (XO (XO (XO (XO (XO XH))))))))
  then r :: []
  else if N.ltb r (Npos (XO (XO (XO (XO (XO (XO (XO (XO (XO (XO (XO
            XH))))))))))))
       then (N.add (Npos (XO (XO (XO (XO (XO (XO (XI XH))))))))
              (N.div r (Npos (XO (XO (XO (XO (XO (XO XH))))))))) :: (
              (N.add (Npos (XO (XO (XO (XO (XO (XO (XO XH))))))))
                (N.modulo r (Npos (XO (XO (XO (XO (XO (XO XH))))))))) :: [])
       else if (||)
                 (in_range (Npos (XO (XO (XO (XO (XO (XO (XO (XO (XO (XO (XO
                   (XI (XI (XO (XI XH)))))))))))))))) (Npos (XI (XI (XI (XI
                   (XI (XI (XI (XI (XI (XI (XI (XI (XI (XO (XI
                   XH)))))))))))))))) r)
                 (N.ltb (Npos (XI (XI (XI (XI (XI (XI (XI (XI (XI (XI (XI (XI
                   (XI (XI (XI (XI (XO (XO (XO (XO XH))))))))))))))))))))) r)
            then (Npos (XI (XI (XI (XI (XO (XI (XI XH)))))))) :: ((Npos (XI
                   (XI (XI (XI (XI (XI (XO XH)))))))) :: ((Npos (XI (XO (XI
                   (XI (XI (XI (XO XH)))))))) :: []))
            else if N.ltb r (Npos (XO (XO (XO (XO (XO (XO (XO (XO (XO (XO (XO
                      (XO (XO (XO (XO (XO XH)))))))))))))))))
                 then (N.add (Npos (XO (XO (XO (XO (XO (XI (XI XH))))))))
                        (N.div r (Npos (XO (XO (XO (XO (XO (XO (XO (XO (XO
                          (XO (XO (XO XH))))))))))))))) :: ((N.add (Npos (XO
                                                              (XO (XO (XO (XO
                                                              (XO (XO
                                                              XH))))))))
                                                              (N.modulo
                                                                (N.div r
                                                                  (Npos (XO
                                                                  (XO (XO (XO
                                                                  (XO (XO
                                                                  XH))))))))
                                                                (Npos (XO (XO
                                                                (XO (XO (XO
                                                                (XO XH))))))))) :: (
                        (N.add (Npos (XO (XO (XO (XO (XO (XO (XO XH))))))))
                          (N.modulo r (Npos (XO (XO (XO (XO (XO (XO XH))))))))) :: []))
                 else (N.add (Npos (XO (XO (XO (XO (XI (XI (XI XH))))))))
                        (N.div r (Npos (XO (XO (XO (XO (XO (XO (XO (XO (XO
                          (XO (XO (XO (XO (XO (XO (XO (XO (XO
                          XH))))))))))))))))))))) :: ((N.add (Npos (XO (XO
                                                        (XO (XO (XO (XO (XO
                                                        XH))))))))
                                                        (N.modulo
                                                          (N.div r (Npos (XO
                                                            (XO (XO (XO (XO
                                                            (XO (XO (XO (XO
                                                            (XO (XO (XO
                                                            XH))))))))))))))
                                                          (Npos (XO (XO (XO
                                                          (XO (XO (XO
                                                          XH))))))))) :: (
                        (N.add (Npos (XO (XO (XO (XO (XO (XO (XO XH))))))))
                          (N.modulo
                            (N.div r (Npos (XO (XO (XO (XO (XO (XO XH))))))))
                            (Npos (XO (XO (XO (XO (XO (XO XH))))))))) :: (
                        (N.add (Npos (XO (XO (XO (XO (XO (XO (XO XH))))))))
                          (N.modulo r (Npos (XO (XO (XO (XO (XO (XO XH))))))))) :: [])))

type kind =
| Invalid
| EOF
| Bang
| Dollar
| Amp
| ParenL
| ParenR
| Spread
| Colon
| Equals
| At
| BracketL
| BracketR
| BraceL
| BraceR
| Pipe
| Name
| Int
| Float
| String_
| BlockString
| Comment

(** val kind_id : kind -> n **)

let kind_id = function
| Invalid -> N0
| EOF -> Npos XH
| Bang -> Npos (XO XH)
| Dollar -> Npos (XI XH)
| Amp -> Npos (XO (XO XH))
| ParenL -> Npos (XI (XO XH))
| ParenR -> Npos (XO (XI XH))
| Spread -> Npos (XI (XI XH))
| Colon -> Npos (XO (XO (XO XH)))
| Equals -> Npos (XI (XO (XO XH)))
| At -> Npos (XO (XI (XO XH)))
| BracketL -> Npos (XI (XI (XO XH)))
| BracketR -> Npos (XO (XO (XI XH)))
| BraceL -> Npos (XI (XO (XI XH)))
| BraceR -> Npos (XO (XI (XI XH)))
| Pipe -> Npos (XI (XI (XI XH)))
| Name -> Npos (XO (XO (XO (XO XH))))
| Int -> Npos (XI (XO (XO (XO XH))))
| Float -> Npos (XO (XI (XO (XO XH))))
| String_ -> Npos (XI (XI (XO (XO XH))))
| BlockString -> Npos (XO (XO (XI (XO XH))))
| Comment -> Npos (XI (XO (XI (XO XH))))

(** val kind_eqb : kind -> kind -> bool **)

let kind_eqb a c =
  N.eqb (kind_id a) (kind_id c)

type token = { tkind : kind; tval : str; tstart : z; tend : z; tline : 
               z; tcol : z }

type lexerr = { eline : z; ecol : z; ecls : n }

type lx = { rest : str; endR : z; line : z; lsr0 : z }

(** val lx_init : str -> lx **)

let lx_init input =
  { rest = input; endR = Z0; line = (Zpos XH); lsr0 = Z0 }

(** val maxInt32 : z **)

let maxInt32 =
  Zpos (XI (XI (XI (XI (XI (XI (XI (XI (XI (XI (XI (XI (XI (XI (XI (XI (XI
    (XI (XI (XI (XI (XI (XI (XI (XI (XI (XI (XI (XI (XI
    XH))))))))))))))))))))))))))))))

(** val split_nl_aux : str -> str -> str list **)

let rec split_nl_aux l cur =
  match l with
  | [] -> (rev cur) :: []
  | c :: tl0 ->
    if N.eqb c (Npos (XO (XI (XO XH))))
    then (rev cur) :: (split_nl_aux tl0 [])
    else split_nl_aux tl0 (c :: cur)

(** val split_nl : str -> str list **)

let split_nl l =
  split_nl_aux l []

(** val join_nl : str list -> str **)

let rec join_nl = function
| [] -> []
| x :: tl0 ->
  (match tl0 with
   | [] -> x
   | _ :: _ -> app x ((Npos (XO (XI (XO XH)))) :: (join_nl tl0)))

(** val leadingWhitespace_aux : str -> z -> z **)

let rec leadingWhitespace_aux l i =
  match l with
  | [] -> maxInt32
  | c :: tl0 ->
    if (||) (N.eqb c (Npos (XO (XO (XO (XO (XO XH)))))))
         (N.eqb c (Npos (XI (XO (XO XH)))))
    then leadingWhitespace_aux tl0 (Z.add i (Zpos XH))
    else i

(** val leadingWhitespace : str -> z **)

let leadingWhitespace l =
  leadingWhitespace_aux l Z0

(** val zlen : str -> z **)

let zlen l =
  Z.of_nat (length l)

(** val commonIndent_loop : str list -> z -> z **)

let rec commonIndent_loop lines ci =
  match lines with
  | [] -> ci
  | ln :: tl0 ->
    let indent = leadingWhitespace ln in
    if (&&) (Z.ltb indent (zlen ln)) (Z.ltb indent ci)
    then if Z.eqb indent Z0 then Z0 else commonIndent_loop tl0 indent
    else commonIndent_loop tl0 ci

(** val strip_indent : z -> str -> str **)

let strip_indent ci ln =
  if Z.ltb (zlen ln) ci then [] else skipn (Z.to_nat ci) ln

(** val drop_blank_front : str list -> str list **)

let rec drop_blank_front ls = match ls with
| [] -> []
| x :: tl0 ->
  if Z.eqb (leadingWhitespace x) maxInt32 then drop_blank_front tl0 else ls

(** val blockStringValue : dev -> str -> str **)

let blockStringValue d raw =
  let lines = split_nl raw in
  let ci = commonIndent_loop (if d F_L2 then lines else tl lines) maxInt32 in
  let lines1 =
    if Z.eqb ci maxInt32
    then lines
    else (match lines with
          | [] -> []
          | x :: rest0 -> x :: (map (strip_indent ci) rest0))
  in
  let l2 = drop_blank_front lines1 in
  let l3 = rev (drop_blank_front (rev l2)) in join_nl l3

(** val ws : dev -> str -> z -> z -> z -> ((str * z) * z) * z **)

let rec ws d l e ln ls =
  match l with
  | [] -> ((([], e), ln), ls)
  | c :: tl0 ->
    if (||)
         ((||) (N.eqb c (Npos (XI (XO (XO XH)))))
           (N.eqb c (Npos (XO (XO (XO (XO (XO XH))))))))
         (N.eqb c (Npos (XO (XO (XI (XI (XO XH)))))))
    then ws d tl0 (Z.add e (Zpos XH)) ln ls
    else if N.eqb c (Npos (XO (XI (XO XH))))
         then ws d tl0 (Z.add e (Zpos XH)) (Z.add ln (Zpos XH))
                (Z.add e (Zpos XH))
         else if N.eqb c (Npos (XI (XO (XI XH))))
              then (match tl0 with
                    | [] ->
                      ws d tl0 (Z.add e (Zpos XH)) (Z.add ln (Zpos XH))
                        (Z.add e (Zpos XH))
                    | n0 :: tl' ->
                      (match n0 with
                       | N0 ->
                         ws d tl0 (Z.add e (Zpos XH)) (Z.add ln (Zpos XH))
                           (Z.add e (Zpos XH))
                       | Npos p ->
                         (match p with
                          | XO p0 ->
                            (match p0 with
                             | XI p1 ->
                               (match p1 with
                                | XO p2 ->
                                  (match p2 with
                                   | XH ->
                                     ws d tl' (Z.add e (Zpos (XO XH)))
                                       (Z.add ln (Zpos XH))
                                       (if d F_P3
                                        then Z.add e (Zpos XH)
                                        else Z.add e (Zpos (XO XH)))
                                   | _ ->
                                     ws d tl0 (Z.add e (Zpos XH))
                                       (Z.add ln (Zpos XH))
                                       (Z.add e (Zpos XH)))
                                | _ ->
                                  ws d tl0 (Z.add e (Zpos XH))
                                    (Z.add ln (Zpos XH)) (Z.add e (Zpos XH)))
                             | _ ->
                               ws d tl0 (Z.add e (Zpos XH))
                                 (Z.add ln (Zpos XH)) (Z.add e (Zpos XH)))
                          | _ ->
                            ws d tl0 (Z.add e (Zpos XH)) (Z.add ln (Zpos XH))
                              (Z.add e (Zpos XH)))))
              else if N.eqb c (Npos (XI (XI (XI (XI (XO (XI (XI XH))))))))
                   then (match tl0 with
                         | [] -> (((l, e), ln), ls)
                         | n0 :: l0 ->
                           (match n0 with
                            | N0 -> (((l, e), ln), ls)
                            | Npos p ->
                              (match p with
                               | XI p0 ->
                                 (match p0 with
                                  | XI p1 ->
                                    (match p1 with
                                     | XO p2 ->
                                       (match p2 with
                                        | XI p3 ->
                                          (match p3 with
                                           | XI p4 ->
                                             (match p4 with
                                              | XI p5 ->
                                                (match p5 with
                                                 | XO p6 ->
                                                   (match p6 with
                                                    | XH ->
                                                      (match l0 with
                                                       | [] ->
                                                         (((l, e), ln), ls)
                                                       | n1 :: tl' ->
                                                         (match n1 with
                                                          | N0 ->
                                                            (((l, e), ln), ls)
                                                          | Npos p7 ->
                                                            (match p7 with
                                                             | XI p8 ->
                                                               (match p8 with
                                                                | XI p9 ->
                                                                  (match p9 with
                                                                   | XI p10 ->
                                                                    (match p10 with
                                                                    | XI p11 ->
                                                                    (match p11 with
                                                                    | XI p12 ->
                                                                    (match p12 with
                                                                    | XI p13 ->
                                                                    (match p13 with
                                                                    | XO p14 ->
                                                                    (match p14 with
                                                                    | XH ->
                                                                    ws d tl'
                                                                    (Z.add e
                                                                    (Zpos XH))
                                                                    ln ls
                                                                    | _ ->
                                                                    (((l, e),
                                                                    ln), ls))
                                                                    | _ ->
                                                                    (((l, e),
                                                                    ln), ls))
                                                                    | _ ->
                                                                    (((l, e),
                                                                    ln), ls))
                                                                    | _ ->
                                                                    (((l, e),
                                                                    ln), ls))
                                                                    | _ ->
                                                                    (((l, e),
                                                                    ln), ls))
                                                                   | _ ->
                                                                    (((l, e),
                                                                    ln), ls))
                                                                | _ ->
                                                                  (((l, e),
                                                                    ln), ls))
                                                             | _ ->
                                                               (((l, e), ln),
                                                                 ls))))
                                                    | _ -> (((l, e), ln), ls))
                                                 | _ -> (((l, e), ln), ls))
                                              | _ -> (((l, e), ln), ls))
                                           | _ -> (((l, e), ln), ls))
                                        | _ -> (((l, e), ln), ls))
                                     | _ -> (((l, e), ln), ls))
                                  | _ -> (((l, e), ln), ls))
                               | _ -> (((l, e), ln), ls))))
                   else (((l, e), ln), ls)

type res = (token * lexerr option) * lx

(** val mk_err : str -> z -> z -> z -> z -> n -> res **)

let mk_err l start e ln ls cls =
  let col = Z.add (Z.sub e ls) (Zpos XH) in
  (({ tkind = Invalid; tval = []; tstart = start; tend = e; tline = ln;
  tcol = col }, (Some { eline = ln; ecol = col; ecls = cls })), { rest = l;
  endR = e; line = ln; lsr0 = ls })

(** val mk_tok : kind -> str -> str -> z -> z -> z -> z -> res **)

let mk_tok k v l start e ln ls =
  (({ tkind = k; tval = v; tstart = start; tend = e; tline = ln; tcol =
    (Z.add (Z.sub start ls) (Zpos XH)) }, None), { rest = l; endR = e; line =
    ln; lsr0 = ls })

(** val take_name : str -> str * str **)

let rec take_name l = match l with
| [] -> ([], [])
| c :: tl0 ->
  if is_name_cont c
  then let (a, r) = take_name tl0 in ((c :: a), r)
  else ([], l)

(** val take_digits : str -> str * str **)

let rec take_digits l = match l with
| [] -> ([], [])
| c :: tl0 ->
  if is_digit c
  then let (a, r) = take_digits tl0 in ((c :: a), r)
  else ([], l)

(** val take_comment : nat -> str -> (str * z) * str **)

let rec take_comment fuel l =
  match fuel with
  | O -> (([], Z0), l)
  | S f ->
    (match l with
     | [] -> (([], Z0), [])
     | _ :: _ ->
       let (r, w) = decode_rune l in
       if (||) (N.ltb (Npos (XI (XI (XI (XI XH))))) r)
            (N.eqb r (Npos (XI (XO (XO XH)))))
       then let (p, rst) = take_comment f (skipn w l) in
            let (a, n0) = p in
            (((app (firstn w l) a), (Z.add n0 (Zpos XH))), rst)
       else (([], Z0), l))

(** val accept1 : n -> str -> bool * str **)

let accept1 c l = match l with
| [] -> (false, l)
| x :: tl0 -> if N.eqb x c then (true, tl0) else (false, l)

(** val accept2 : n -> n -> str -> n option * str **)

let accept2 c1 c2 l = match l with
| [] -> (None, l)
| x :: tl0 ->
  if (||) (N.eqb x c1) (N.eqb x c2) then ((Some x), tl0) else (None, l)

(** val opt_cons : 'a1 option -> 'a1 list -> 'a1 list **)

let opt_cons o l =
  match o with
  | Some x -> x :: l
  | None -> l

(** val readNumber : dev -> str -> z -> z -> z -> res **)

let readNumber d l start ln ls =
  let (neg, l1) = accept1 (Npos (XI (XO (XI (XI (XO XH)))))) l in
  let e1 = if neg then Z.add start (Zpos XH) else start in
  let sgn = if neg then (Npos (XI (XO (XI (XI (XO XH)))))) :: [] else [] in
  let (z0, l2) = accept1 (Npos (XO (XO (XO (XO (XI XH)))))) l1 in
  let intpart =
    if z0
    then let (ds, _) = take_digits l2 in
         (match ds with
          | [] ->
            Inl (((app sgn ((Npos (XO (XO (XO (XO (XI XH)))))) :: [])), l2),
              (Z.add e1 (Zpos XH)))
          | _ :: _ ->
            Inr
              (mk_err l2 start (Z.add e1 (Zpos XH)) ln ls (Npos (XO (XI (XO
                XH))))))
    else let (ds, l3) = take_digits l1 in
         (match ds with
          | [] -> Inr (mk_err l1 start e1 ln ls (Npos (XI (XI (XO XH)))))
          | _ :: _ -> Inl (((app sgn ds), l3), (Z.add e1 (zlen ds))))
  in
  (match intpart with
   | Inl p ->
     let (p0, e3) = p in
     let (v1, l3) = p0 in
     let (dot, l4) = accept1 (Npos (XO (XI (XI (XI (XO XH)))))) l3 in
     let fracpart =
       if dot
       then let (ds, l5) = take_digits l4 in
            (match ds with
             | [] ->
               Inr
                 (mk_err l4 start (Z.add e3 (Zpos XH)) ln ls (Npos (XI (XI
                   (XO XH)))))
             | _ :: _ ->
               Inl ((((app v1 ((Npos (XO (XI (XI (XI (XO XH)))))) :: ds)),
                 l5), (Z.add (Z.add e3 (Zpos XH)) (zlen ds))), true))
       else Inl (((v1, l3), e3), false)
     in
     (match fracpart with
      | Inl p1 ->
        let (p2, fl) = p1 in
        let (p3, e5) = p2 in
        let (v2, l5) = p3 in
        let (ex, l6) =
          accept2 (Npos (XI (XO (XI (XO (XO (XI XH))))))) (Npos (XI (XO (XI
            (XO (XO (XO XH))))))) l5
        in
        let exppart =
          match ex with
          | Some ec ->
            let (sg, l7) =
              accept2 (Npos (XI (XO (XI (XI (XO XH)))))) (Npos (XI (XI (XO
                (XI (XO XH)))))) l6
            in
            let e7 =
              match sg with
              | Some _ -> Z.add e5 (Zpos (XO XH))
              | None -> Z.add e5 (Zpos XH)
            in
            let (ds, l8) = take_digits l7 in
            (match ds with
             | [] -> Inr (mk_err l7 start e7 ln ls (Npos (XI (XI (XO XH)))))
             | _ :: _ ->
               Inl ((((app v2 (ec :: (opt_cons sg ds))), l8),
                 (Z.add e7 (zlen ds))), true))
          | None -> Inl (((v2, l5), e5), fl)
        in
        (match exppart with
         | Inl p4 ->
           let (p5, fl3) = p4 in
           let (p6, e8) = p5 in
           let (v3, l8) = p6 in
           let bad_follow =
             match l8 with
             | [] -> false
             | c :: _ ->
               (||) (N.eqb c (Npos (XO (XI (XI (XI (XO XH)))))))
                 (is_name_start c)
           in
           if (&&) (negb (d F_L1)) bad_follow
           then mk_err l8 start e8 ln ls (Npos (XO (XO (XI XH))))
           else mk_tok (if fl3 then Float else Int) v3 l8 start e8 ln ls
         | Inr r -> r)
      | Inr r -> r)
   | Inr r -> r)

(** val hexval : n -> n option **)

let hexval c =
  if is_digit c
  then Some (N.sub c (Npos (XO (XO (XO (XO (XI XH)))))))
  else if in_range (Npos (XI (XO (XO (XO (XO (XI XH))))))) (Npos (XO (XI (XI
            (XO (XO (XI XH))))))) c
       then Some (N.sub c (Npos (XI (XI (XI (XO (XI (XO XH))))))))
       else if in_range (Npos (XI (XO (XO (XO (XO (XO XH))))))) (Npos (XO (XI
                 (XI (XO (XO (XO XH))))))) c
            then Some (N.sub c (Npos (XI (XI (XI (XO (XI XH)))))))
            else None

(** val unhex4 : n -> n -> n -> n -> n option **)

let unhex4 a b0 c e =
  match hexval a with
  | Some x ->
    (match hexval b0 with
     | Some y ->
       (match hexval c with
        | Some z0 ->
          (match hexval e with
           | Some w ->
             Some
               (N.add
                 (N.mul
                   (N.add
                     (N.mul (N.add (N.mul x (Npos (XO (XO (XO (XO XH)))))) y)
                       (Npos (XO (XO (XO (XO XH)))))) z0) (Npos (XO (XO (XO
                   (XO XH)))))) w)
           | None -> None)
        | None -> None)
     | None -> None)
  | None -> None

(** val readString_loop :
    dev -> nat -> str -> str -> str option -> z -> z -> z -> z -> res option **)

let rec readString_loop d fuel l raw buf start e ln ls =
  match fuel with
  | O -> None
  | S f ->
    (match l with
     | [] ->
       Some
         (mk_err l (Z.add start (Zpos XH)) e ln ls (Npos (XO (XO (XI (XO
           XH))))))
     | r :: tl0 ->
       if (||) (N.eqb r (Npos (XO (XI (XO XH)))))
            (N.eqb r (Npos (XI (XO (XI XH)))))
       then Some
              (mk_err l (Z.add start (Zpos XH)) e ln ls (Npos (XO (XO (XI (XO
                XH))))))
       else if (&&) (N.ltb r (Npos (XO (XO (XO (XO (XO XH)))))))
                 (negb (N.eqb r (Npos (XI (XO (XO XH))))))
            then Some
                   (mk_err l (Z.add start (Zpos XH)) e ln ls (Npos (XI (XO
                     (XI (XO XH))))))
            else if N.eqb r (Npos (XO (XI (XO (XO (XO XH))))))
                 then let v =
                        match buf with
                        | Some bf -> rev bf
                        | None -> rev raw
                      in
                      let col =
                        Z.add
                          (Z.sub
                            (if d F_P1 then Z.add start (Zpos XH) else start)
                            ls) (Zpos XH)
                      in
                      Some (({ tkind = String_; tval = v; tstart = start;
                      tend = (Z.add e (Zpos XH)); tline = ln; tcol = col },
                      None), { rest = tl0; endR = (Z.add e (Zpos XH)); line =
                      ln; lsr0 = ls })
                 else if N.eqb r (Npos (XO (XO (XI (XI (XI (XO XH)))))))
                      then (match tl0 with
                            | [] ->
                              Some
                                (mk_err tl0 (Z.add start (Zpos XH))
                                  (Z.add e (Zpos XH)) ln ls (Npos (XO (XI (XI
                                  (XO XH))))))
                            | esc :: tl2 ->
                              let bf =
                                match buf with
                                | Some bf -> bf
                                | None -> raw
                              in
                              if N.eqb esc (Npos (XI (XO (XI (XO (XI (XI
                                   XH)))))))
                              then (match tl2 with
                                    | [] ->
                                      Some
                                        (mk_err tl0 (Z.add start (Zpos XH))
                                          (Z.add e (Zpos XH)) ln ls (Npos (XI
                                          (XI (XI (XO XH))))))
                                    | h1 :: l0 ->
                                      (match l0 with
                                       | [] ->
                                         Some
                                           (mk_err tl0
                                             (Z.add start (Zpos XH))
                                             (Z.add e (Zpos XH)) ln ls (Npos
                                             (XI (XI (XI (XO XH))))))
                                       | h2 :: l1 ->
                                         (match l1 with
                                          | [] ->
                                            Some
                                              (mk_err tl0
                                                (Z.add start (Zpos XH))
                                                (Z.add e (Zpos XH)) ln ls
                                                (Npos (XI (XI (XI (XO XH))))))
                                          | h3 :: l2 ->
                                            (match l2 with
                                             | [] ->
                                               Some
                                                 (mk_err tl0
                                                   (Z.add start (Zpos XH))
                                                   (Z.add e (Zpos XH)) ln ls
                                                   (Npos (XI (XI (XI (XO
                                                   XH))))))
                                             | h4 :: tl6 ->
                                               (match tl6 with
                                                | [] ->
                                                  Some
                                                    (mk_err tl0
                                                      (Z.add start (Zpos XH))
                                                      (Z.add e (Zpos XH)) ln
                                                      ls (Npos (XI (XI (XI
                                                      (XO XH))))))
                                                | _ :: _ ->
                                                  (match unhex4 h1 h2 h3 h4 with
                                                   | Some rn ->
                                                     readString_loop d f tl6
                                                       (h4 :: (h3 :: (h2 :: (h1 :: (esc :: (r :: raw))))))
                                                       (Some
                                                       (rev_append
                                                         (encode_rune rn) bf))
                                                       start
                                                       (Z.add e (Zpos (XO (XI
                                                         XH)))) ln ls
                                                   | None ->
                                                     Some
                                                       (mk_err tl0
                                                         (Z.add start (Zpos
                                                           XH))
                                                         (Z.add e (Zpos XH))
                                                         ln ls (Npos (XI (XI
                                                         (XI (XO XH))))))))))))
                              else let out =
                                     if (||)
                                          ((||)
                                            (N.eqb esc (Npos (XO (XI (XO (XO
                                              (XO XH)))))))
                                            (N.eqb esc (Npos (XI (XI (XI (XI
                                              (XO XH))))))))
                                          (N.eqb esc (Npos (XO (XO (XI (XI
                                            (XI (XO XH))))))))
                                     then Some esc
                                     else if N.eqb esc (Npos (XO (XI (XO (XO
                                               (XO (XI XH)))))))
                                          then Some (Npos (XO (XO (XO XH))))
                                          else if N.eqb esc (Npos (XO (XI (XI
                                                    (XO (XO (XI XH)))))))
                                               then Some (Npos (XO (XO (XI
                                                      XH))))
                                               else if N.eqb esc (Npos (XO
                                                         (XI (XI (XI (XO (XI
                                                         XH)))))))
                                                    then Some (Npos (XO (XI
                                                           (XO XH))))
                                                    else if N.eqb esc (Npos
                                                              (XO (XI (XO (XO
                                                              (XI (XI
                                                              XH)))))))
                                                         then Some (Npos (XI
                                                                (XO (XI XH))))
                                                         else if N.eqb esc
                                                                   (Npos (XO
                                                                   (XO (XI
                                                                   (XO (XI
                                                                   (XI
                                                                   XH)))))))
                                                              then Some (Npos
                                                                    (XI (XO
                                                                    (XO XH))))
                                                              else None
                                   in
                                   (match out with
                                    | Some c ->
                                      readString_loop d f tl2
                                        (esc :: (r :: raw)) (Some (c :: bf))
                                        start (Z.add e (Zpos (XO XH))) ln ls
                                    | None ->
                                      Some
                                        (mk_err tl0 (Z.add start (Zpos XH))
                                          (Z.add e (Zpos XH)) ln ls (Npos (XI
                                          (XI (XI (XO XH))))))))
                      else let (ch, w) =
                             if N.ltb r (Npos (XI (XI (XI (XI (XI (XI
                                  XH)))))))
                             then (r, (S O))
                             else decode_rune l
                           in
                           let bytes = firstn w l in
                           readString_loop d f (skipn w l)
                             (rev_append bytes raw)
                             (match buf with
                              | Some bf ->
                                Some (rev_append (encode_rune ch) bf)
                              | None -> None) start (Z.add e (Zpos XH)) ln ls)

(** val count_quotes : str -> nat * str **)

let rec count_quotes l = match l with
| [] -> (O, l)
| n0 :: tl0 ->
  (match n0 with
   | N0 -> (O, l)
   | Npos p ->
     (match p with
      | XO p0 ->
        (match p0 with
         | XI p1 ->
           (match p1 with
            | XO p2 ->
              (match p2 with
               | XO p3 ->
                 (match p3 with
                  | XO p4 ->
                    (match p4 with
                     | XH -> let (n1, r) = count_quotes tl0 in ((S n1), r)
                     | _ -> (O, l))
                  | _ -> (O, l))
               | _ -> (O, l))
            | _ -> (O, l))
         | _ -> (O, l))
      | _ -> (O, l)))

(** val readBlock_loop :
    dev -> nat -> str -> str -> z -> z -> z -> z -> z -> z -> res option **)

let rec readBlock_loop d fuel l buf start e ln ls sl sls =
  match fuel with
  | O -> None
  | S f ->
    (match l with
     | [] ->
       Some
         (mk_err l (Z.add start (Zpos (XI XH))) e ln ls (Npos (XO (XO (XI (XO
           XH))))))
     | r :: _ ->
       let (qc, after) = count_quotes l in
       if Nat.leb (S (S (S O))) qc
       then let extra = if d F_L3 then sub qc (S (S (S O))) else O in
            let v =
              blockStringValue d
                (rev
                  (app (repeat (Npos (XO (XI (XO (XO (XO XH)))))) extra) buf))
            in
            let l' = if d F_L3 then after else skipn (S (S (S O))) l in
            let e' =
              if d F_L3 then Z.add e (Z.of_nat qc) else Z.add e (Zpos (XI XH))
            in
            let tline_ = if d F_P2 then ln else sl in
            let tcol_ =
              if d F_P2
              then Z.add (Z.sub (Z.add start (Zpos (XI XH))) ls) (Zpos XH)
              else Z.add (Z.sub start sls) (Zpos XH)
            in
            Some (({ tkind = BlockString; tval = v; tstart = start; tend =
            (Z.add e (Zpos (XI XH))); tline = tline_; tcol = tcol_ }, None),
            { rest = l'; endR = e'; line = ln; lsr0 = ls })
       else if (&&)
                 ((&&)
                   ((&&) (N.ltb r (Npos (XO (XO (XO (XO (XO XH)))))))
                     (negb (N.eqb r (Npos (XI (XO (XO XH)))))))
                   (negb (N.eqb r (Npos (XO (XI (XO XH)))))))
                 (negb (N.eqb r (Npos (XI (XO (XI XH))))))
            then Some
                   (mk_err l (Z.add start (Zpos (XI XH))) e ln ls (Npos (XI
                     (XO (XI (XO XH))))))
            else (match l with
                  | [] ->
                    let (ch, w) =
                      if N.ltb r (Npos (XI (XI (XI (XI (XI (XI XH)))))))
                      then (r, (S O))
                      else decode_rune l
                    in
                    let nl = N.eqb r (Npos (XO (XI (XO XH)))) in
                    readBlock_loop d f (skipn w l)
                      (rev_append (encode_rune ch) buf) start
                      (Z.add e (Zpos XH))
                      (if nl then Z.add ln (Zpos XH) else ln)
                      (if nl then Z.add e (Zpos XH) else ls) sl sls
                  | n0 :: tl1 ->
                    (match n0 with
                     | N0 ->
                       let (ch, w) =
                         if N.ltb r (Npos (XI (XI (XI (XI (XI (XI XH)))))))
                         then (r, (S O))
                         else decode_rune l
                       in
                       let nl = N.eqb r (Npos (XO (XI (XO XH)))) in
                       readBlock_loop d f (skipn w l)
                         (rev_append (encode_rune ch) buf) start
                         (Z.add e (Zpos XH))
                         (if nl then Z.add ln (Zpos XH) else ln)
                         (if nl then Z.add e (Zpos XH) else ls) sl sls
                     | Npos p ->
                       (match p with
                        | XI p0 ->
                          (match p0 with
                           | XO p1 ->
                             (match p1 with
                              | XI p2 ->
                                (match p2 with
                                 | XH ->
                                   (match tl1 with
                                    | [] ->
                                      readBlock_loop d f tl1 ((Npos (XO (XI
                                        (XO XH)))) :: buf) start
                                        (Z.add e (Zpos XH))
                                        (Z.add ln (Zpos XH))
                                        (Z.add e (Zpos XH)) sl sls
                                    | n1 :: tl2 ->
                                      (match n1 with
                                       | N0 ->
                                         readBlock_loop d f tl1 ((Npos (XO
                                           (XI (XO XH)))) :: buf) start
                                           (Z.add e (Zpos XH))
                                           (Z.add ln (Zpos XH))
                                           (Z.add e (Zpos XH)) sl sls
                                       | Npos p3 ->
                                         (match p3 with
                                          | XO p4 ->
                                            (match p4 with
                                             | XI p5 ->
                                               (match p5 with
                                                | XO p6 ->
                                                  (match p6 with
                                                   | XH ->
                                                     readBlock_loop d f tl2
                                                       ((Npos (XO (XI (XO
                                                       XH)))) :: buf) start
                                                       (Z.add e (Zpos (XO
                                                         XH)))
                                                       (Z.add ln (Zpos XH))
                                                       (Z.add e (Zpos (XO
                                                         XH))) sl sls
                                                   | _ ->
                                                     readBlock_loop d f tl1
                                                       ((Npos (XO (XI (XO
                                                       XH)))) :: buf) start
                                                       (Z.add e (Zpos XH))
                                                       (Z.add ln (Zpos XH))
                                                       (Z.add e (Zpos XH)) sl
                                                       sls)
                                                | _ ->
                                                  readBlock_loop d f tl1
                                                    ((Npos (XO (XI (XO
                                                    XH)))) :: buf) start
                                                    (Z.add e (Zpos XH))
                                                    (Z.add ln (Zpos XH))
                                                    (Z.add e (Zpos XH)) sl sls)
                                             | _ ->
                                               readBlock_loop d f tl1 ((Npos
                                                 (XO (XI (XO XH)))) :: buf)
                                                 start (Z.add e (Zpos XH))
                                                 (Z.add ln (Zpos XH))
                                                 (Z.add e (Zpos XH)) sl sls)
                                          | _ ->
                                            readBlock_loop d f tl1 ((Npos (XO
                                              (XI (XO XH)))) :: buf) start
                                              (Z.add e (Zpos XH))
                                              (Z.add ln (Zpos XH))
                                              (Z.add e (Zpos XH)) sl sls)))
                                 | _ ->
                                   let (ch, w) =
                                     if N.ltb r (Npos (XI (XI (XI (XI (XI (XI
                                          XH)))))))
                                     then (r, (S O))
                                     else decode_rune l
                                   in
                                   let nl = N.eqb r (Npos (XO (XI (XO XH))))
                                   in
                                   readBlock_loop d f (skipn w l)
                                     (rev_append (encode_rune ch) buf) start
                                     (Z.add e (Zpos XH))
                                     (if nl then Z.add ln (Zpos XH) else ln)
                                     (if nl then Z.add e (Zpos XH) else ls)
                                     sl sls)
                              | _ ->
                                let (ch, w) =
                                  if N.ltb r (Npos (XI (XI (XI (XI (XI (XI
                                       XH)))))))
                                  then (r, (S O))
                                  else decode_rune l
                                in
                                let nl = N.eqb r (Npos (XO (XI (XO XH)))) in
                                readBlock_loop d f (skipn w l)
                                  (rev_append (encode_rune ch) buf) start
                                  (Z.add e (Zpos XH))
                                  (if nl then Z.add ln (Zpos XH) else ln)
                                  (if nl then Z.add e (Zpos XH) else ls) sl
                                  sls)
                           | _ ->
                             let (ch, w) =
                               if N.ltb r (Npos (XI (XI (XI (XI (XI (XI
                                    XH)))))))
                               then (r, (S O))
                               else decode_rune l
                             in
                             let nl = N.eqb r (Npos (XO (XI (XO XH)))) in
                             readBlock_loop d f (skipn w l)
                               (rev_append (encode_rune ch) buf) start
                               (Z.add e (Zpos XH))
                               (if nl then Z.add ln (Zpos XH) else ln)
                               (if nl then Z.add e (Zpos XH) else ls) sl sls)
                        | XO p0 ->
                          (match p0 with
                           | XO p1 ->
                             (match p1 with
                              | XI p2 ->
                                (match p2 with
                                 | XI p3 ->
                                   (match p3 with
                                    | XI p4 ->
                                      (match p4 with
                                       | XO p5 ->
                                         (match p5 with
                                          | XH ->
                                            (match tl1 with
                                             | [] ->
                                               let (ch, w) =
                                                 if N.ltb r (Npos (XI (XI (XI
                                                      (XI (XI (XI XH)))))))
                                                 then (r, (S O))
                                                 else decode_rune l
                                               in
                                               let nl =
                                                 N.eqb r (Npos (XO (XI (XO
                                                   XH))))
                                               in
                                               readBlock_loop d f (skipn w l)
                                                 (rev_append (encode_rune ch)
                                                   buf) start
                                                 (Z.add e (Zpos XH))
                                                 (if nl
                                                  then Z.add ln (Zpos XH)
                                                  else ln)
                                                 (if nl
                                                  then Z.add e (Zpos XH)
                                                  else ls) sl sls
                                             | n1 :: l0 ->
                                               (match n1 with
                                                | N0 ->
                                                  let (ch, w) =
                                                    if N.ltb r (Npos (XI (XI
                                                         (XI (XI (XI (XI
                                                         XH)))))))
                                                    then (r, (S O))
                                                    else decode_rune l
                                                  in
                                                  let nl =
                                                    N.eqb r (Npos (XO (XI (XO
                                                      XH))))
                                                  in
                                                  readBlock_loop d f
                                                    (skipn w l)
                                                    (rev_append
                                                      (encode_rune ch) buf)
                                                    start (Z.add e (Zpos XH))
                                                    (if nl
                                                     then Z.add ln (Zpos XH)
                                                     else ln)
                                                    (if nl
                                                     then Z.add e (Zpos XH)
                                                     else ls) sl sls
                                                | Npos p6 ->
                                                  (match p6 with
                                                   | XO p7 ->
                                                     (match p7 with
                                                      | XI p8 ->
                                                        (match p8 with
                                                         | XO p9 ->
                                                           (match p9 with
                                                            | XO p10 ->
                                                              (match p10 with
                                                               | XO p11 ->
                                                                 (match p11 with
                                                                  | XH ->
                                                                    (match l0 with
                                                                    | [] ->
                                                                    let (
                                                                    ch, w) =
                                                                    if 
                                                                    N.ltb r
                                                                    (Npos (XI
                                                                    (XI (XI
                                                                    (XI (XI
                                                                    (XI
                                                                    XH)))))))
                                                                    then 
                                                                    (r, (S O))
                                                                    else 
                                                                    decode_rune
                                                                    l
                                                                    in
                                                                    let nl =
                                                                    N.eqb r
                                                                    (Npos (XO
                                                                    (XI (XO
                                                                    XH))))
                                                                    in
                                                                    readBlock_loop
                                                                    d f
                                                                    (skipn w
                                                                    l)
                                                                    (rev_append
                                                                    (encode_rune
                                                                    ch) buf)
                                                                    start
                                                                    (Z.add e
                                                                    (Zpos XH))
                                                                    (if nl
                                                                    then 
                                                                    Z.add ln
                                                                    (Zpos XH)
                                                                    else ln)
                                                                    (if nl
                                                                    then 
                                                                    Z.add e
                                                                    (Zpos XH)
                                                                    else ls)
                                                                    sl sls
                                                                    | n2 :: l1 ->
                                                                    (match n2 with
                                                                    | N0 ->
                                                                    let (
                                                                    ch, w) =
                                                                    if 
                                                                    N.ltb r
                                                                    (Npos (XI
                                                                    (XI (XI
                                                                    (XI (XI
                                                                    (XI
                                                                    XH)))))))
                                                                    then 
                                                                    (r, (S O))
                                                                    else 
                                                                    decode_rune
                                                                    l
                                                                    in
                                                                    let nl =
                                                                    N.eqb r
                                                                    (Npos (XO
                                                                    (XI (XO
                                                                    XH))))
                                                                    in
                                                                    readBlock_loop
                                                                    d f
                                                                    (skipn w
                                                                    l)
                                                                    (rev_append
                                                                    (encode_rune
                                                                    ch) buf)
                                                                    start
                                                                    (Z.add e
                                                                    (Zpos XH))
                                                                    (if nl
                                                                    then 
                                                                    Z.add ln
                                                                    (Zpos XH)
                                                                    else ln)
                                                                    (if nl
                                                                    then 
                                                                    Z.add e
                                                                    (Zpos XH)
                                                                    else ls)
                                                                    sl sls
                                                                    | Npos p12 ->
                                                                    (match p12 with
                                                                    | XO p13 ->
                                                                    (match p13 with
                                                                    | XI p14 ->
                                                                    (match p14 with
                                                                    | XO p15 ->
                                                                    (match p15 with
                                                                    | XO p16 ->
                                                                    (match p16 with
                                                                    | XO p17 ->
                                                                    (match p17 with
                                                                    | XH ->
                                                                    (match l1 with
                                                                    | [] ->
                                                                    let (
                                                                    ch, w) =
                                                                    if 
                                                                    N.ltb r
                                                                    (Npos (XI
                                                                    (XI (XI
                                                                    (XI (XI
                                                                    (XI
                                                                    XH)))))))
                                                                    then 
                                                                    (r, (S O))
                                                                    else 
                                                                    decode_rune
                                                                    l
                                                                    in
                                                                    let nl =
                                                                    N.eqb r
                                                                    (Npos (XO
                                                                    (XI (XO
                                                                    XH))))
                                                                    in
                                                                    readBlock_loop
                                                                    d f
                                                                    (skipn w
                                                                    l)
                                                                    (rev_append
                                                                    (encode_rune
                                                                    ch) buf)
                                                                    start
                                                                    (Z.add e
                                                                    (Zpos XH))
                                                                    (if nl
                                                                    then 
                                                                    Z.add ln
                                                                    (Zpos XH)
                                                                    else ln)
                                                                    (if nl
                                                                    then 
                                                                    Z.add e
                                                                    (Zpos XH)
                                                                    else ls)
                                                                    sl sls
                                                                    | n3 :: tl4 ->
                                                                    (match n3 with
                                                                    | N0 ->
                                                                    let (
                                                                    ch, w) =
                                                                    if 
                                                                    N.ltb r
                                                                    (Npos (XI
                                                                    (XI (XI
                                                                    (XI (XI
                                                                    (XI
                                                                    XH)))))))
                                                                    then 
                                                                    (r, (S O))
                                                                    else 
                                                                    decode_rune
                                                                    l
                                                                    in
                                                                    let nl =
                                                                    N.eqb r
                                                                    (Npos (XO
                                                                    (XI (XO
                                                                    XH))))
                                                                    in
                                                                    readBlock_loop
                                                                    d f
                                                                    (skipn w
                                                                    l)
                                                                    (rev_append
                                                                    (encode_rune
                                                                    ch) buf)
                                                                    start
                                                                    (Z.add e
                                                                    (Zpos XH))
                                                                    (if nl
                                                                    then 
                                                                    Z.add ln
                                                                    (Zpos XH)
                                                                    else ln)
                                                                    (if nl
                                                                    then 
                                                                    Z.add e
                                                                    (Zpos XH)
                                                                    else ls)
                                                                    sl sls
                                                                    | Npos p18 ->
                                                                    (match p18 with
                                                                    | XO p19 ->
                                                                    (match p19 with
                                                                    | XI p20 ->
                                                                    (match p20 with
                                                                    | XO p21 ->
                                                                    (match p21 with
                                                                    | XO p22 ->
                                                                    (match p22 with
                                                                    | XO p23 ->
                                                                    (match p23 with
                                                                    | XH ->
                                                                    readBlock_loop
                                                                    d f tl4
                                                                    ((Npos
                                                                    (XO (XI
                                                                    (XO (XO
                                                                    (XO
                                                                    XH)))))) :: ((Npos
                                                                    (XO (XI
                                                                    (XO (XO
                                                                    (XO
                                                                    XH)))))) :: ((Npos
                                                                    (XO (XI
                                                                    (XO (XO
                                                                    (XO
                                                                    XH)))))) :: buf)))
                                                                    start
                                                                    (Z.add e
                                                                    (Zpos (XO
                                                                    (XO XH))))
                                                                    ln ls sl
                                                                    sls
                                                                    | _ ->
                                                                    let (
                                                                    ch, w) =
                                                                    if 
                                                                    N.ltb r
                                                                    (Npos (XI
                                                                    (XI (XI
                                                                    (XI (XI
                                                                    (XI
                                                                    XH)))))))
                                                                    then 
                                                                    (r, (S O))
                                                                    else 
                                                                    decode_rune
                                                                    l
                                                                    in
                                                                    let nl =
                                                                    N.eqb r
                                                                    (Npos (XO
                                                                    (XI (XO
                                                                    XH))))
                                                                    in
                                                                    readBlock_loop
                                                                    d f
                                                                    (skipn w
                                                                    l)
                                                                    (rev_append
                                                                    (encode_rune
                                                                    ch) buf)
                                                                    start
                                                                    (Z.add e
                                                                    (Zpos XH))
                                                                    (if nl
                                                                    then 
                                                                    Z.add ln
                                                                    (Zpos XH)
                                                                    else ln)
                                                                    (if nl
                                                                    then 
                                                                    Z.add e
                                                                    (Zpos XH)
                                                                    else ls)
                                                                    sl sls)
                                                                    | _ ->
                                                                    let (
                                                                    ch, w) =
                                                                    if 
                                                                    N.ltb r
                                                                    (Npos (XI
                                                                    (XI (XI
                                                                    (XI (XI
                                                                    (XI
                                                                    XH)))))))
                                                                    then 
                                                                    (r, (S O))
                                                                    else 
                                                                    decode_rune
                                                                    l
                                                                    in
                                                                    let nl =
                                                                    N.eqb r
                                                                    (Npos (XO
                                                                    (XI (XO
                                                                    XH))))
                                                                    in
                                                                    readBlock_loop
                                                                    d f
                                                                    (skipn w
                                                                    l)
                                                                    (rev_append
                                                                    (encode_rune
                                                                    ch) buf)
                                                                    start
                                                                    (Z.add e
                                                                    (Zpos XH))
                                                                    (if nl
                                                                    then 
                                                                    Z.add ln
                                                                    (Zpos XH)
                                                                    else ln)
                                                                    (if nl
                                                                    then 
                                                                    Z.add e
                                                                    (Zpos XH)
                                                                    else ls)
                                                                    sl sls)
                                                                    | _ ->
                                                                    let (
                                                                    ch, w) =
                                                                    if 
                                                                    N.ltb r
                                                                    (Npos (XI
                                                                    (XI (XI
                                                                    (XI (XI
                                                                    (XI
                                                                    XH)))))))
                                                                    then 
                                                                    (r, (S O))
                                                                    else 
                                                                    decode_rune
                                                                    l
                                                                    in
                                                                    let nl =
                                                                    N.eqb r
                                                                    (Npos (XO
                                                                    (XI (XO
                                                                    XH))))
                                                                    in
                                                                    readBlock_loop
                                                                    d f
                                                                    (skipn w
                                                                    l)
                                                                    (rev_append
                                                                    (encode_rune
                                                                    ch) buf)
                                                                    start
                                                                    (Z.add e
                                                                    (Zpos XH))
                                                                    (if nl
                                                                    then 
                                                                    Z.add ln
                                                                    (Zpos XH)
                                                                    else ln)
                                                                    (if nl
                                                                    then 
                                                                    Z.add e
                                                                    (Zpos XH)
                                                                    else ls)
                                                                    sl sls)
                                                                    | _ ->
                                                                    let (
                                                                    ch, w) =
                                                                    if 
                                                                    N.ltb r
                                                                    (Npos (XI
                                                                    (XI (XI
                                                                    (XI (XI
                                                                    (XI
                                                                    XH)))))))
                                                                    then 
                                                                    (r, (S O))
                                                                    else 
                                                                    decode_rune
                                                                    l
                                                                    in
                                                                    let nl =
                                                                    N.eqb r
                                                                    (Npos (XO
                                                                    (XI (XO
                                                                    XH))))
                                                                    in
                                                                    readBlock_loop
                                                                    d f
                                                                    (skipn w
                                                                    l)
                                                                    (rev_append
                                                                    (encode_rune
                                                                    ch) buf)
                                                                    start
                                                                    (Z.add e
                                                                    (Zpos XH))
                                                                    (if nl
                                                                    then 
                                                                    Z.add ln
                                                                    (Zpos XH)
                                                                    else ln)
                                                                    (if nl
                                                                    then 
                                                                    Z.add e
                                                                    (Zpos XH)
                                                                    else ls)
                                                                    sl sls)
                                                                    | _ ->
                                                                    let (
                                                                    ch, w) =
                                                                    if 
                                                                    N.ltb r
                                                                    (Npos (XI
                                                                    (XI (XI
                                                                    (XI (XI
                                                                    (XI
                                                                    XH)))))))
                                                                    then 
                                                                    (r, (S O))
                                                                    else 
                                                                    decode_rune
                                                                    l
                                                                    in
                                                                    let nl =
                                                                    N.eqb r
                                                                    (Npos (XO
                                                                    (XI (XO
                                                                    XH))))
                                                                    in
                                                                    readBlock_loop
                                                                    d f
                                                                    (skipn w
                                                                    l)
                                                                    (rev_append
                                                                    (encode_rune
                                                                    ch) buf)
                                                                    start
                                                                    (Z.add e
                                                                    (Zpos XH))
                                                                    (if nl
                                                                    then 
                                                                    Z.add ln
                                                                    (Zpos XH)
                                                                    else ln)
                                                                    (if nl
                                                                    then 
                                                                    Z.add e
                                                                    (Zpos XH)
                                                                    else ls)
                                                                    sl sls)
                                                                    | _ ->
                                                                    let (
                                                                    ch, w) =
                                                                    if 
                                                                    N.ltb r
                                                                    (Npos (XI
                                                                    (XI (XI
                                                                    (XI (XI
                                                                    (XI
                                                                    XH)))))))
                                                                    then 
                                                                    (r, (S O))
                                                                    else 
                                                                    decode_rune
                                                                    l
                                                                    in
                                                                    let nl =
                                                                    N.eqb r
                                                                    (Npos (XO
                                                                    (XI (XO
                                                                    XH))))
                                                                    in
                                                                    readBlock_loop
                                                                    d f
                                                                    (skipn w
                                                                    l)
                                                                    (rev_append
                                                                    (encode_rune
                                                                    ch) buf)
                                                                    start
                                                                    (Z.add e
                                                                    (Zpos XH))
                                                                    (if nl
                                                                    then 
                                                                    Z.add ln
                                                                    (Zpos XH)
                                                                    else ln)
                                                                    (if nl
                                                                    then 
                                                                    Z.add e
                                                                    (Zpos XH)
                                                                    else ls)
                                                                    sl sls)))
                                                                    | _ ->
                                                                    let (
                                                                    ch, w) =
                                                                    if 
                                                                    N.ltb r
                                                                    (Npos (XI
                                                                    (XI (XI
                                                                    (XI (XI
                                                                    (XI
                                                                    XH)))))))
                                                                    then 
                                                                    (r, (S O))
                                                                    else 
                                                                    decode_rune
                                                                    l
                                                                    in
                                                                    let nl =
                                                                    N.eqb r
                                                                    (Npos (XO
                                                                    (XI (XO
                                                                    XH))))
                                                                    in
                                                                    readBlock_loop
                                                                    d f
                                                                    (skipn w
                                                                    l)
                                                                    (rev_append
                                                                    (encode_rune
                                                                    ch) buf)
                                                                    start
                                                                    (Z.add e
                                                                    (Zpos XH))
                                                                    (if nl
                                                                    then 
                                                                    Z.add ln
                                                                    (Zpos XH)
                                                                    else ln)
                                                                    (if nl
                                                                    then 
                                                                    Z.add e
                                                                    (Zpos XH)
                                                                    else ls)
                                                                    sl sls)
                                                                    | _ ->
                                                                    let (
                                                                    ch, w) =
                                                                    if 
                                                                    N.ltb r
                                                                    (Npos (XI
                                                                    (XI (XI
                                                                    (XI (XI
                                                                    (XI
                                                                    XH)))))))
                                                                    then 
                                                                    (r, (S O))
                                                                    else 
                                                                    decode_rune
                                                                    l
                                                                    in
                                                                    let nl =
                                                                    N.eqb r
                                                                    (Npos (XO
                                                                    (XI (XO
                                                                    XH))))
                                                                    in
                                                                    readBlock_loop
                                                                    d f
                                                                    (skipn w
                                                                    l)
                                                                    (rev_append
                                                                    (encode_rune
                                                                    ch) buf)
                                                                    start
                                                                    (Z.add e
                                                                    (Zpos XH))
                                                                    (if nl
                                                                    then 
                                                                    Z.add ln
                                                                    (Zpos XH)
                                                                    else ln)
                                                                    (if nl
                                                                    then 
                                                                    Z.add e
                                                                    (Zpos XH)
                                                                    else ls)
                                                                    sl sls)
                                                                    | _ ->
                                                                    let (
                                                                    ch, w) =
                                                                    if 
                                                                    N.ltb r
                                                                    (Npos (XI
                                                                    (XI (XI
                                                                    (XI (XI
                                                                    (XI
                                                                    XH)))))))
                                                                    then 
                                                                    (r, (S O))
                                                                    else 
                                                                    decode_rune
                                                                    l
                                                                    in
                                                                    let nl =
                                                                    N.eqb r
                                                                    (Npos (XO
                                                                    (XI (XO
                                                                    XH))))
                                                                    in
                                                                    readBlock_loop
                                                                    d f
                                                                    (skipn w
                                                                    l)
                                                                    (rev_append
                                                                    (encode_rune
                                                                    ch) buf)
                                                                    start
                                                                    (Z.add e
                                                                    (Zpos XH))
                                                                    (if nl
                                                                    then 
                                                                    Z.add ln
                                                                    (Zpos XH)
                                                                    else ln)
                                                                    (if nl
                                                                    then 
                                                                    Z.add e
                                                                    (Zpos XH)
                                                                    else ls)
                                                                    sl sls)
                                                                    | _ ->
                                                                    let (
                                                                    ch, w) =
                                                                    if 
                                                                    N.ltb r
                                                                    (Npos (XI
                                                                    (XI (XI
                                                                    (XI (XI
                                                                    (XI
                                                                    XH)))))))
                                                                    then 
                                                                    (r, (S O))
                                                                    else 
                                                                    decode_rune
                                                                    l
                                                                    in
                                                                    let nl =
                                                                    N.eqb r
                                                                    (Npos (XO
                                                                    (XI (XO
                                                                    XH))))
                                                                    in
                                                                    readBlock_loop
                                                                    d f
                                                                    (skipn w
                                                                    l)
                                                                    (rev_append
                                                                    (encode_rune
                                                                    ch) buf)
                                                                    start
                                                                    (Z.add e
                                                                    (Zpos XH))
                                                                    (if nl
                                                                    then 
                                                                    Z.add ln
                                                                    (Zpos XH)
                                                                    else ln)
                                                                    (if nl
                                                                    then 
                                                                    Z.add e
                                                                    (Zpos XH)
                                                                    else ls)
                                                                    sl sls)
                                                                    | _ ->
                                                                    let (
                                                                    ch, w) =
                                                                    if 
                                                                    N.ltb r
                                                                    (Npos (XI
                                                                    (XI (XI
                                                                    (XI (XI
                                                                    (XI
                                                                    XH)))))))
                                                                    then 
                                                                    (r, (S O))
                                                                    else 
                                                                    decode_rune
                                                                    l
                                                                    in
                                                                    let nl =
                                                                    N.eqb r
                                                                    (Npos (XO
                                                                    (XI (XO
                                                                    XH))))
                                                                    in
                                                                    readBlock_loop
                                                                    d f
                                                                    (skipn w
                                                                    l)
                                                                    (rev_append
                                                                    (encode_rune
                                                                    ch) buf)
                                                                    start
                                                                    (Z.add e
                                                                    (Zpos XH))
                                                                    (if nl
                                                                    then 
                                                                    Z.add ln
                                                                    (Zpos XH)
                                                                    else ln)
                                                                    (if nl
                                                                    then 
                                                                    Z.add e
                                                                    (Zpos XH)
                                                                    else ls)
                                                                    sl sls)
                                                                    | _ ->
                                                                    let (
                                                                    ch, w) =
                                                                    if 
                                                                    N.ltb r
                                                                    (Npos (XI
                                                                    (XI (XI
                                                                    (XI (XI
                                                                    (XI
                                                                    XH)))))))
                                                                    then 
                                                                    (r, (S O))
                                                                    else 
                                                                    decode_rune
                                                                    l
                                                                    in
                                                                    let nl =
                                                                    N.eqb r
                                                                    (Npos (XO
                                                                    (XI (XO
                                                                    XH))))
                                                                    in
                                                                    readBlock_loop
                                                                    d f
                                                                    (skipn w
                                                                    l)
                                                                    (rev_append
                                                                    (encode_rune
                                                                    ch) buf)
                                                                    start
                                                                    (Z.add e
                                                                    (Zpos XH))
                                                                    (if nl
                                                                    then 
                                                                    Z.add ln
                                                                    (Zpos XH)
                                                                    else ln)
                                                                    (if nl
                                                                    then 
                                                                    Z.add e
                                                                    (Zpos XH)
                                                                    else ls)
                                                                    sl sls)))
                                                                  | _ ->
                                                                    let (
                                                                    ch, w) =
                                                                    if 
                                                                    N.ltb r
                                                                    (Npos (XI
                                                                    (XI (XI
                                                                    (XI (XI
                                                                    (XI
                                                                    XH)))))))
                                                                    then 
                                                                    (r, (S O))
                                                                    else 
                                                                    decode_rune
                                                                    l
                                                                    in
                                                                    let nl =
                                                                    N.eqb r
                                                                    (Npos (XO
                                                                    (XI (XO
                                                                    XH))))
                                                                    in
                                                                    readBlock_loop
                                                                    d f
                                                                    (skipn w
                                                                    l)
                                                                    (rev_append
                                                                    (encode_rune
                                                                    ch) buf)
                                                                    start
                                                                    (Z.add e
                                                                    (Zpos XH))
                                                                    (if nl
                                                                    then 
                                                                    Z.add ln
                                                                    (Zpos XH)
                                                                    else ln)
                                                                    (if nl
                                                                    then 
                                                                    Z.add e
                                                                    (Zpos XH)
                                                                    else ls)
                                                                    sl sls)
                                                               | _ ->
                                                                 let (
                                                                   ch, w) =
                                                                   if 
                                                                    N.ltb r
                                                                    (Npos (XI
                                                                    (XI (XI
                                                                    (XI (XI
                                                                    (XI
                                                                    XH)))))))
                                                                   then 
                                                                    (r, (S O))
                                                                   else 
                                                                    decode_rune
                                                                    l
                                                                 in
                                                                 let nl =
                                                                   N.eqb r
                                                                    (Npos (XO
                                                                    (XI (XO
                                                                    XH))))
                                                                 in
                                                                 readBlock_loop
                                                                   d f
                                                                   (skipn w l)
                                                                   (rev_append
                                                                    (encode_rune
                                                                    ch) buf)
                                                                   start
                                                                   (Z.add e
                                                                    (Zpos XH))
                                                                   (if nl
                                                                    then 
                                                                    Z.add ln
                                                                    (Zpos XH)
                                                                    else ln)
                                                                   (if nl
                                                                    then 
                                                                    Z.add e
                                                                    (Zpos XH)
                                                                    else ls)
                                                                   sl sls)
                                                            | _ ->
                                                              let (ch, w) =
                                                                if N.ltb r
                                                                    (Npos (XI
                                                                    (XI (XI
                                                                    (XI (XI
                                                                    (XI
                                                                    XH)))))))
                                                                then 
                                                                  (r, (S O))
                                                                else 
                                                                  decode_rune
                                                                    l
                                                              in
                                                              let nl =
                                                                N.eqb r (Npos
                                                                  (XO (XI (XO
                                                                  XH))))
                                                              in
                                                              readBlock_loop
                                                                d f
                                                                (skipn w l)
                                                                (rev_append
                                                                  (encode_rune
                                                                    ch) buf)
                                                                start
                                                                (Z.add e
                                                                  (Zpos XH))
                                                                (if nl
                                                                 then 
                                                                   Z.add ln
                                                                    (Zpos XH)
                                                                 else ln)
                                                                (if nl
                                                                 then 
                                                                   Z.add e
                                                                    (Zpos XH)
                                                                 else ls) sl
                                                                sls)
                                                         | _ ->
                                                           let (ch, w) =
                                                             if N.ltb r (Npos
                                                                  (XI (XI (XI
                                                                  (XI (XI (XI
                                                                  XH)))))))
                                                             then (r, (S O))
                                                             else decode_rune
                                                                    l
                                                           in
                                                           let nl =
                                                             N.eqb r (Npos
                                                               (XO (XI (XO
                                                               XH))))
                                                           in
                                                           readBlock_loop d f
                                                             (skipn w l)
                                                             (rev_append
                                                               (encode_rune
                                                                 ch) buf)
                                                             start
                                                             (Z.add e (Zpos
                                                               XH))
                                                             (if nl
                                                              then Z.add ln
                                                                    (Zpos XH)
                                                              else ln)
                                                             (if nl
                                                              then Z.add e
                                                                    (Zpos XH)
                                                              else ls) sl sls)
                                                      | _ ->
                                                        let (ch, w) =
                                                          if N.ltb r (Npos
                                                               (XI (XI (XI
                                                               (XI (XI (XI
                                                               XH)))))))
                                                          then (r, (S O))
                                                          else decode_rune l
                                                        in
                                                        let nl =
                                                          N.eqb r (Npos (XO
                                                            (XI (XO XH))))
                                                        in
                                                        readBlock_loop d f
                                                          (skipn w l)
                                                          (rev_append
                                                            (encode_rune ch)
                                                            buf) start
                                                          (Z.add e (Zpos XH))
                                                          (if nl
                                                           then Z.add ln
                                                                  (Zpos XH)
                                                           else ln)
                                                          (if nl
                                                           then Z.add e (Zpos
                                                                  XH)
                                                           else ls) sl sls)
                                                   | _ ->
                                                     let (ch, w) =
                                                       if N.ltb r (Npos (XI
                                                            (XI (XI (XI (XI
                                                            (XI XH)))))))
                                                       then (r, (S O))
                                                       else decode_rune l
                                                     in
                                                     let nl =
                                                       N.eqb r (Npos (XO (XI
                                                         (XO XH))))
                                                     in
                                                     readBlock_loop d f
                                                       (skipn w l)
                                                       (rev_append
                                                         (encode_rune ch) buf)
                                                       start
                                                       (Z.add e (Zpos XH))
                                                       (if nl
                                                        then Z.add ln (Zpos
                                                               XH)
                                                        else ln)
                                                       (if nl
                                                        then Z.add e (Zpos XH)
                                                        else ls) sl sls)))
                                          | _ ->
                                            let (ch, w) =
                                              if N.ltb r (Npos (XI (XI (XI
                                                   (XI (XI (XI XH)))))))
                                              then (r, (S O))
                                              else decode_rune l
                                            in
                                            let nl =
                                              N.eqb r (Npos (XO (XI (XO XH))))
                                            in
                                            readBlock_loop d f (skipn w l)
                                              (rev_append (encode_rune ch)
                                                buf) start
                                              (Z.add e (Zpos XH))
                                              (if nl
                                               then Z.add ln (Zpos XH)
                                               else ln)
                                              (if nl
                                               then Z.add e (Zpos XH)
                                               else ls) sl sls)
                                       | _ ->
                                         let (ch, w) =
                                           if N.ltb r (Npos (XI (XI (XI (XI
                                                (XI (XI XH)))))))
                                           then (r, (S O))
                                           else decode_rune l
                                         in
                                         let nl =
                                           N.eqb r (Npos (XO (XI (XO XH))))
                                         in
                                         readBlock_loop d f (skipn w l)
                                           (rev_append (encode_rune ch) buf)
                                           start (Z.add e (Zpos XH))
                                           (if nl
                                            then Z.add ln (Zpos XH)
                                            else ln)
                                           (if nl
                                            then Z.add e (Zpos XH)
                                            else ls) sl sls)
                                    | _ ->
                                      let (ch, w) =
                                        if N.ltb r (Npos (XI (XI (XI (XI (XI
                                             (XI XH)))))))
                                        then (r, (S O))
                                        else decode_rune l
                                      in
                                      let nl =
                                        N.eqb r (Npos (XO (XI (XO XH))))
                                      in
                                      readBlock_loop d f (skipn w l)
                                        (rev_append (encode_rune ch) buf)
                                        start (Z.add e (Zpos XH))
                                        (if nl then Z.add ln (Zpos XH) else ln)
                                        (if nl then Z.add e (Zpos XH) else ls)
                                        sl sls)
                                 | _ ->
                                   let (ch, w) =
                                     if N.ltb r (Npos (XI (XI (XI (XI (XI (XI
                                          XH)))))))
                                     then (r, (S O))
                                     else decode_rune l
                                   in
                                   let nl = N.eqb r (Npos (XO (XI (XO XH))))
                                   in
                                   readBlock_loop d f (skipn w l)
                                     (rev_append (encode_rune ch) buf) start
                                     (Z.add e (Zpos XH))
                                     (if nl then Z.add ln (Zpos XH) else ln)
                                     (if nl then Z.add e (Zpos XH) else ls)
                                     sl sls)
                              | _ ->
                                let (ch, w) =
                                  if N.ltb r (Npos (XI (XI (XI (XI (XI (XI
                                       XH)))))))
                                  then (r, (S O))
                                  else decode_rune l
                                in
                                let nl = N.eqb r (Npos (XO (XI (XO XH)))) in
                                readBlock_loop d f (skipn w l)
                                  (rev_append (encode_rune ch) buf) start
                                  (Z.add e (Zpos XH))
                                  (if nl then Z.add ln (Zpos XH) else ln)
                                  (if nl then Z.add e (Zpos XH) else ls) sl
                                  sls)
                           | _ ->
                             let (ch, w) =
                               if N.ltb r (Npos (XI (XI (XI (XI (XI (XI
                                    XH)))))))
                               then (r, (S O))
                               else decode_rune l
                             in
                             let nl = N.eqb r (Npos (XO (XI (XO XH)))) in
                             readBlock_loop d f (skipn w l)
                               (rev_append (encode_rune ch) buf) start
                               (Z.add e (Zpos XH))
                               (if nl then Z.add ln (Zpos XH) else ln)
                               (if nl then Z.add e (Zpos XH) else ls) sl sls)
                        | XH ->
                          let (ch, w) =
                            if N.ltb r (Npos (XI (XI (XI (XI (XI (XI XH)))))))
                            then (r, (S O))
                            else decode_rune l
                          in
                          let nl = N.eqb r (Npos (XO (XI (XO XH)))) in
                          readBlock_loop d f (skipn w l)
                            (rev_append (encode_rune ch) buf) start
                            (Z.add e (Zpos XH))
                            (if nl then Z.add ln (Zpos XH) else ln)
                            (if nl then Z.add e (Zpos XH) else ls) sl sls))))

(** val punct : n -> kind option **)

let punct c =
  if N.eqb c (Npos (XI (XO (XO (XO (XO XH))))))
  then Some Bang
  else if N.eqb c (Npos (XO (XO (XI (XO (XO XH))))))
       then Some Dollar
       else if N.eqb c (Npos (XO (XI (XI (XO (XO XH))))))
            then Some Amp
            else if N.eqb c (Npos (XO (XO (XO (XI (XO XH))))))
                 then Some ParenL
                 else if N.eqb c (Npos (XI (XO (XO (XI (XO XH))))))
                      then Some ParenR
                      else if N.eqb c (Npos (XO (XI (XO (XI (XI XH))))))
                           then Some Colon
                           else if N.eqb c (Npos (XI (XO (XI (XI (XI XH))))))
                                then Some Equals
                                else if N.eqb c (Npos (XO (XO (XO (XO (XO (XO
                                          XH)))))))
                                     then Some At
                                     else if N.eqb c (Npos (XI (XI (XO (XI
                                               (XI (XO XH)))))))
                                          then Some BracketL
                                          else if N.eqb c (Npos (XI (XO (XI
                                                    (XI (XI (XO XH)))))))
                                               then Some BracketR
                                               else if N.eqb c (Npos (XI (XI
                                                         (XO (XI (XI (XI
                                                         XH)))))))
                                                    then Some BraceL
                                                    else if N.eqb c (Npos (XI
                                                              (XO (XI (XI (XI
                                                              (XI XH)))))))
                                                         then Some BraceR
                                                         else if N.eqb c
                                                                   (Npos (XO
                                                                   (XO (XI
                                                                   (XI (XI
                                                                   (XI
                                                                   XH)))))))
                                                              then Some Pipe
                                                              else None

(** val readToken : dev -> lx -> res option **)

let readToken d s =
  let (p, ls) = ws d s.rest s.endR s.line s.lsr0 in
  let (p0, ln) = p in
  let (l, e) = p0 in
  (match l with
   | [] -> Some (mk_tok EOF [] l e e ln ls)
   | c :: tl0 ->
     (match punct c with
      | Some k -> Some (mk_tok k [] tl0 e (Z.add e (Zpos XH)) ln ls)
      | None ->
        if N.eqb c (Npos (XO (XI (XI (XI (XO XH))))))
        then (match tl0 with
              | [] -> Some (mk_err l e e ln ls (Npos XH))
              | n0 :: l0 ->
                (match n0 with
                 | N0 -> Some (mk_err l e e ln ls (Npos XH))
                 | Npos p1 ->
                   (match p1 with
                    | XO p2 ->
                      (match p2 with
                       | XI p3 ->
                         (match p3 with
                          | XI p4 ->
                            (match p4 with
                             | XI p5 ->
                               (match p5 with
                                | XO p6 ->
                                  (match p6 with
                                   | XH ->
                                     (match l0 with
                                      | [] ->
                                        Some (mk_err l e e ln ls (Npos XH))
                                      | n1 :: tl3 ->
                                        (match n1 with
                                         | N0 ->
                                           Some (mk_err l e e ln ls (Npos XH))
                                         | Npos p7 ->
                                           (match p7 with
                                            | XO p8 ->
                                              (match p8 with
                                               | XI p9 ->
                                                 (match p9 with
                                                  | XI p10 ->
                                                    (match p10 with
                                                     | XI p11 ->
                                                       (match p11 with
                                                        | XO p12 ->
                                                          (match p12 with
                                                           | XH ->
                                                             Some
                                                               (mk_tok Spread
                                                                 [] tl3 e
                                                                 (Z.add e
                                                                   (Zpos (XI
                                                                   XH))) ln
                                                                 ls)
                                                           | _ ->
                                                             Some
                                                               (mk_err l e e
                                                                 ln ls (Npos
                                                                 XH)))
                                                        | _ ->
                                                          Some
                                                            (mk_err l e e ln
                                                              ls (Npos XH)))
                                                     | _ ->
                                                       Some
                                                         (mk_err l e e ln ls
                                                           (Npos XH)))
                                                  | _ ->
                                                    Some
                                                      (mk_err l e e ln ls
                                                        (Npos XH)))
                                               | _ ->
                                                 Some
                                                   (mk_err l e e ln ls (Npos
                                                     XH)))
                                            | _ ->
                                              Some
                                                (mk_err l e e ln ls (Npos XH)))))
                                   | _ -> Some (mk_err l e e ln ls (Npos XH)))
                                | _ -> Some (mk_err l e e ln ls (Npos XH)))
                             | _ -> Some (mk_err l e e ln ls (Npos XH)))
                          | _ -> Some (mk_err l e e ln ls (Npos XH)))
                       | _ -> Some (mk_err l e e ln ls (Npos XH)))
                    | _ -> Some (mk_err l e e ln ls (Npos XH)))))
        else if N.eqb c (Npos (XI (XI (XO (XO (XO XH))))))
             then let (p1, rst) = take_comment (length tl0) tl0 in
                  let (body, n0) = p1 in
                  Some
                  (mk_tok Comment (c :: body) rst e
                    (Z.add (Z.add e (Zpos XH)) n0) ln ls)
             else if is_name_start c
                  then let (body, rst) = take_name tl0 in
                       Some
                       (mk_tok Name (c :: body) rst e
                         (Z.add (Z.add e (Zpos XH)) (zlen body)) ln ls)
                  else if (||) (N.eqb c (Npos (XI (XO (XI (XI (XO XH)))))))
                            (is_digit c)
                       then Some (readNumber d l e ln ls)
                       else if N.eqb c (Npos (XO (XI (XO (XO (XO XH))))))
                            then (match tl0 with
                                  | [] ->
                                    readString_loop d (S (length tl0)) tl0 []
                                      None e (Z.add e (Zpos XH)) ln ls
                                  | n0 :: l0 ->
                                    (match n0 with
                                     | N0 ->
                                       readString_loop d (S (length tl0)) tl0
                                         [] None e (Z.add e (Zpos XH)) ln ls
                                     | Npos p1 ->
                                       (match p1 with
                                        | XO p2 ->
                                          (match p2 with
                                           | XI p3 ->
                                             (match p3 with
                                              | XO p4 ->
                                                (match p4 with
                                                 | XO p5 ->
                                                   (match p5 with
                                                    | XO p6 ->
                                                      (match p6 with
                                                       | XH ->
                                                         (match l0 with
                                                          | [] ->
                                                            readString_loop d
                                                              (S
                                                              (length tl0))
                                                              tl0 [] None e
                                                              (Z.add e (Zpos
                                                                XH)) ln ls
                                                          | n1 :: tl3 ->
                                                            (match n1 with
                                                             | N0 ->
                                                               readString_loop
                                                                 d (S
                                                                 (length tl0))
                                                                 tl0 [] None
                                                                 e
                                                                 (Z.add e
                                                                   (Zpos XH))
                                                                 ln ls
                                                             | Npos p7 ->
                                                               (match p7 with
                                                                | XO p8 ->
                                                                  (match p8 with
                                                                   | XI p9 ->
                                                                    (match p9 with
                                                                    | XO p10 ->
                                                                    (match p10 with
                                                                    | XO p11 ->
                                                                    (match p11 with
                                                                    | XO p12 ->
                                                                    (match p12 with
                                                                    | XH ->
                                                                    readBlock_loop
                                                                    d (S
                                                                    (length
                                                                    tl3)) tl3
                                                                    [] e
                                                                    (Z.add e
                                                                    (Zpos (XI
                                                                    XH))) ln
                                                                    ls ln ls
                                                                    | _ ->
                                                                    readString_loop
                                                                    d (S
                                                                    (length
                                                                    tl0)) tl0
                                                                    [] None e
                                                                    (Z.add e
                                                                    (Zpos XH))
                                                                    ln ls)
                                                                    | _ ->
                                                                    readString_loop
                                                                    d (S
                                                                    (length
                                                                    tl0)) tl0
                                                                    [] None e
                                                                    (Z.add e
                                                                    (Zpos XH))
                                                                    ln ls)
                                                                    | _ ->
                                                                    readString_loop
                                                                    d (S
                                                                    (length
                                                                    tl0)) tl0
                                                                    [] None e
                                                                    (Z.add e
                                                                    (Zpos XH))
                                                                    ln ls)
                                                                    | _ ->
                                                                    readString_loop
                                                                    d (S
                                                                    (length
                                                                    tl0)) tl0
                                                                    [] None e
                                                                    (Z.add e
                                                                    (Zpos XH))
                                                                    ln ls)
                                                                   | _ ->
                                                                    readString_loop
                                                                    d (S
                                                                    (length
                                                                    tl0)) tl0
                                                                    [] None e
                                                                    (Z.add e
                                                                    (Zpos XH))
                                                                    ln ls)
                                                                | _ ->
                                                                  readString_loop
                                                                    d (S
                                                                    (length
                                                                    tl0)) tl0
                                                                    [] None e
                                                                    (Z.add e
                                                                    (Zpos XH))
                                                                    ln ls)))
                                                       | _ ->
                                                         readString_loop d (S
                                                           (length tl0)) tl0
                                                           [] None e
                                                           (Z.add e (Zpos XH))
                                                           ln ls)
                                                    | _ ->
                                                      readString_loop d (S
                                                        (length tl0)) tl0 []
                                                        None e
                                                        (Z.add e (Zpos XH))
                                                        ln ls)
                                                 | _ ->
                                                   readString_loop d (S
                                                     (length tl0)) tl0 []
                                                     None e
                                                     (Z.add e (Zpos XH)) ln ls)
                                              | _ ->
                                                readString_loop d (S
                                                  (length tl0)) tl0 [] None e
                                                  (Z.add e (Zpos XH)) ln ls)
                                           | _ ->
                                             readString_loop d (S
                                               (length tl0)) tl0 [] None e
                                               (Z.add e (Zpos XH)) ln ls)
                                        | _ ->
                                          readString_loop d (S (length tl0))
                                            tl0 [] None e (Z.add e (Zpos XH))
                                            ln ls)))
                            else if (&&)
                                      ((&&)
                                        ((&&)
                                          (N.ltb c (Npos (XO (XO (XO (XO (XO
                                            XH)))))))
                                          (negb
                                            (N.eqb c (Npos (XI (XO (XO XH)))))))
                                        (negb
                                          (N.eqb c (Npos (XO (XI (XO XH)))))))
                                      (negb
                                        (N.eqb c (Npos (XI (XO (XI XH))))))
                                 then Some (mk_err l e e ln ls (Npos (XO XH)))
                                 else if N.eqb c (Npos (XI (XI (XI (XO (XO
                                           XH))))))
                                      then Some
                                             (mk_err l e e ln ls (Npos (XI
                                               XH)))
                                      else Some (mk_err l e e ln ls (Npos XH))))

(** val lex_all : dev -> nat -> lx -> (token list * lexerr option) option **)

let rec lex_all d fuel s =
  match fuel with
  | O -> None
  | S f ->
    (match readToken d s with
     | Some r ->
       let (p, s') = r in
       let (t, o) = p in
       (match o with
        | Some err -> Some ([], (Some err))
        | None ->
          (match t.tkind with
           | EOF -> Some ([], None)
           | _ ->
             (match lex_all d f s' with
              | Some p0 -> let (ts, er) = p0 in Some ((t :: ts), er)
              | None -> None)))
     | None -> None)

(** val lex : dev -> str -> (token list * lexerr option) option **)

let lex d input =
  lex_all d (S (length input)) (lx_init input)

(** val sp : n **)

let sp =
  Npos (XO (XO (XO (XO (XO XH)))))

(** val dump_token : token -> str **)

let dump_token t =
  app (n_dec (kind_id t.tkind))
    (sp :: (app (hex t.tval)
             (sp :: (app (z_dec t.tstart)
                      (sp :: (app (z_dec t.tend)
                               (sp :: (app (z_dec t.tline)
                                        (sp :: (app (z_dec t.tcol) ((Npos (XI
                                                 (XI (XO (XI (XI
                                                 XH)))))) :: [])))))))))))

(** val dump_lex : dev -> str -> str **)

let dump_lex d input =
  match lex d input with
  | Some p ->
    let (ts, er) = p in
    app (concat (map dump_token ts))
      (match er with
       | Some e ->
         app
           (b (String ((Ascii (true, false, true, false, false, true, true,
             false)), (String ((Ascii (false, true, false, false, true, true,
             true, false)), (String ((Ascii (false, true, false, false, true,
             true, true, false)), (String ((Ascii (false, false, false,
             false, false, true, false, false)), EmptyString)))))))))
           (app (z_dec e.eline) (sp :: (z_dec e.ecol)))
       | None ->
         b (String ((Ascii (true, true, true, true, false, true, true,
           false)), (String ((Ascii (true, true, false, true, false, true,
           true, false)), EmptyString)))))
  | None ->
    b (String ((Ascii (true, true, false, false, true, false, true, false)),
      (String ((Ascii (false, false, true, false, true, false, true, false)),
      (String ((Ascii (true, false, false, false, false, false, true,
      false)), (String ((Ascii (false, false, true, true, false, false, true,
      false)), (String ((Ascii (false, false, true, true, false, false, true,
      false)), EmptyString))))))))))

type pos = { p_src : n; p_start : z; p_end : z; p_line : z; p_col : z }

(** val pos0 : pos **)

let pos0 =
  { p_src = N0; p_start = Z0; p_end = Z0; p_line = Z0; p_col = Z0 }

(** val pos_of_tok : n -> token -> pos **)

let pos_of_tok src0 t =
  { p_src = src0; p_start = t.tstart; p_end = t.tend; p_line = t.tline;
    p_col = t.tcol }

type vkind =
| VVar
| VInt
| VFloat
| VString
| VBlock
| VBool
| VNull
| VEnum
| VList
| VObject

(** val vkind_id : vkind -> n **)

let vkind_id = function
| VVar -> N0
| VInt -> Npos XH
| VFloat -> Npos (XO XH)
| VString -> Npos (XI XH)
| VBlock -> Npos (XO (XO XH))
| VBool -> Npos (XI (XO XH))
| VNull -> Npos (XO (XI XH))
| VEnum -> Npos (XI (XI XH))
| VList -> Npos (XO (XO (XO XH)))
| VObject -> Npos (XI (XO (XO XH)))

type value =
| MkValue of vkind * str * ((str * pos option) * value) list * pos

(** val value0 : value **)

let value0 =
  MkValue (VNull, [], [], pos0)

type type_ =
| NamedT of str * bool * pos
| ListT of type_ * bool * pos

(** val type0 : type_ **)

let type0 =
  NamedT ([], false, pos0)

type argument = { a_name : str; a_value : value; a_pos : pos }

type directive = { d_name : str; d_args : argument list; d_pos : pos }

type vardef = { vd_var : str; vd_type : type_; vd_default : value option;
                vd_dirs : directive list; vd_pos : pos }

type selection =
| SField of str * str * argument list * directive list * selection list * pos
| SSpread of str * directive list * pos
| SInline of str * directive list * selection list * pos

type optype =
| OpQuery
| OpMutation
| OpSubscription
| OpNone

type opdef = { o_op : optype; o_name : str; o_vars : vardef list;
               o_dirs : directive list; o_sels : selection list; o_pos : 
               pos }

type fragdef = { f_name : str; f_vars : vardef list; f_typecond : str;
                 f_dirs : directive list; f_sels : selection list; f_pos : 
                 pos }

type qdoc = { q_ops : opdef list; q_frags : fragdef list; q_pos : pos option }

type dkind =
| KScalar
| KObject
| KInterface
| KUnion
| KEnum
| KInputObject

(** val dkind_id : dkind -> n **)

let dkind_id = function
| KScalar -> N0
| KObject -> Npos XH
| KInterface -> Npos (XO XH)
| KUnion -> Npos (XI XH)
| KEnum -> Npos (XO (XO XH))
| KInputObject -> Npos (XI (XO XH))

type argdef = { ad_desc : str; ad_name : str; ad_default : value option;
                ad_type : type_; ad_dirs : directive list; ad_pos : pos }

type fielddef = { fd_desc : str; fd_name : str; fd_args : argdef list;
                  fd_default : value option; fd_type : type_;
                  fd_dirs : directive list; fd_pos : pos }

type enumval = { ev_desc : str; ev_name : str; ev_dirs : directive list;
                 ev_pos : pos }

type definition = { df_kind : dkind; df_desc : str; df_name : str;
                    df_dirs : directive list; df_ifaces : str list;
                    df_fields : fielddef list; df_types : str list;
                    df_enums : enumval list; df_pos : pos; df_builtin : 
                    bool }

type dirdef = { dd_desc : str; dd_name : str; dd_args : argdef list;
                dd_locs : str list; dd_repeatable : bool; dd_pos : pos }

type optypedef = { ot_op : optype; ot_type : str; ot_pos : pos }

type schemadef = { sd_desc : str; sd_dirs : directive list;
                   sd_ops : optypedef list; sd_pos : pos }

type sdoc = { s_schema : schemadef list; s_schemaext : schemadef list;
              s_dirs : dirdef list; s_defs : definition list;
              s_exts : definition list; s_pos : pos option }

(** val cm : n **)

let cm =
  Npos (XO (XO (XI (XI (XO XH)))))

(** val dump_str : str -> str **)

let dump_str =
  hex

(** val dump_pos : bool -> pos -> str **)

let dump_pos wp p =
  if wp
  then (Npos (XO (XO (XO (XO (XO (XO
         XH))))))) :: (app (n_dec p.p_src) ((Npos (XO (XI (XO (XI (XI
                        XH)))))) :: (app (z_dec p.p_start) ((Npos (XO (XI (XO
                                      (XI (XI
                                      XH)))))) :: (app (z_dec p.p_end) ((Npos
                                                    (XO (XI (XO (XI (XI
                                                    XH)))))) :: (app
                                                                  (z_dec
                                                                    p.p_line)
                                                                  ((Npos (XO
                                                                  (XI (XO (XI
                                                                  (XI
                                                                  XH)))))) :: 
                                                                  (z_dec
                                                                    p.p_col)))))))))
  else []

(** val dump_opos : bool -> pos option -> str **)

let dump_opos wp = function
| Some q -> dump_pos wp q
| None ->
  if wp
  then (Npos (XO (XO (XO (XO (XO (XO XH))))))) :: ((Npos (XI (XO (XI (XI (XO
         XH)))))) :: [])
  else []

(** val paren : str -> str **)

let paren s =
  (Npos (XO (XO (XO (XI (XO
    XH)))))) :: (app s ((Npos (XI (XO (XO (XI (XO XH)))))) :: []))

(** val sepcat : str list -> str **)

let rec sepcat = function
| [] -> []
| x :: tl0 -> (match tl0 with
               | [] -> x
               | _ :: _ -> app x (cm :: (sepcat tl0)))

(** val dump_list : ('a1 -> str) -> 'a1 list -> str **)

let dump_list f l =
  (Npos (XI (XI (XO (XI (XI (XO
    XH))))))) :: (app (sepcat (map f l)) ((Npos (XI (XO (XI (XI (XI (XO
                   XH))))))) :: []))

(** val dump_bool : bool -> str **)

let dump_bool = function
| true -> (Npos (XI (XO (XO (XO (XI XH)))))) :: []
| false -> (Npos (XO (XO (XO (XO (XI XH)))))) :: []

(** val dump_value : bool -> value -> str **)

let rec dump_value wp = function
| MkValue (k, raw, ch, p) ->
  app
    (b (String ((Ascii (false, true, true, false, true, false, true, false)),
      EmptyString)))
    (app (n_dec (vkind_id k))
      (app
        (paren
          (app (dump_str raw) (cm :: ((Npos (XI (XI (XO (XI (XI (XO
            XH))))))) :: (app
                           (sepcat
                             (map (fun c ->
                               let (y, cv) = c in
                               let (n0, op) = y in
                               app
                                 (paren
                                   (app (dump_str n0)
                                     (cm :: (dump_value wp cv))))
                                 (dump_opos wp op)) ch)) ((Npos (XI (XO (XI
                           (XI (XI (XO XH))))))) :: [])))))) (dump_pos wp p)))

(** val dump_type : bool -> type_ -> str **)

let rec dump_type wp = function
| NamedT (n0, nn, p) ->
  app
    (b (String ((Ascii (false, true, true, true, false, false, true, false)),
      EmptyString)))
    (app (paren (app (dump_str n0) (cm :: (dump_bool nn)))) (dump_pos wp p))
| ListT (e, nn, p) ->
  app
    (b (String ((Ascii (false, false, true, true, false, false, true,
      false)), EmptyString)))
    (app (paren (app (dump_type wp e) (cm :: (dump_bool nn))))
      (dump_pos wp p))

(** val dump_arg : bool -> argument -> str **)

let dump_arg wp a =
  app
    (b (String ((Ascii (true, false, false, false, false, false, true,
      false)), EmptyString)))
    (app (paren (app (dump_str a.a_name) (cm :: (dump_value wp a.a_value))))
      (dump_pos wp a.a_pos))

(** val dump_dir : bool -> directive -> str **)

let dump_dir wp d =
  app
    (b (String ((Ascii (false, false, true, false, false, false, true,
      false)), EmptyString)))
    (app
      (paren
        (app (dump_str d.d_name) (cm :: (dump_list (dump_arg wp) d.d_args))))
      (dump_pos wp d.d_pos))

(** val dump_ovalue : bool -> value option -> str **)

let dump_ovalue wp = function
| Some v -> dump_value wp v
| None -> (Npos (XI (XO (XI (XI (XO XH)))))) :: []

(** val dump_vardef : bool -> vardef -> str **)

let dump_vardef wp v =
  app
    (b (String ((Ascii (false, false, false, true, true, false, true,
      false)), EmptyString)))
    (app
      (paren
        (app (dump_str v.vd_var)
          (cm :: (app (dump_type wp v.vd_type)
                   (cm :: (app (dump_ovalue wp v.vd_default)
                            (cm :: (dump_list (dump_dir wp) v.vd_dirs))))))))
      (dump_pos wp v.vd_pos))

(** val dump_sel : bool -> selection -> str **)

let rec dump_sel wp = function
| SField (al, n0, args, dirs, sels, p) ->
  app
    (b (String ((Ascii (false, true, true, false, false, false, true,
      false)), EmptyString)))
    (app
      (paren
        (app (dump_str al)
          (cm :: (app (dump_str n0)
                   (cm :: (app (dump_list (dump_arg wp) args)
                            (cm :: (app (dump_list (dump_dir wp) dirs)
                                     (cm :: ((Npos (XI (XI (XO (XI (XI (XO
                                     XH))))))) :: (app
                                                    (sepcat
                                                      (map (dump_sel wp) sels))
                                                    ((Npos (XI (XO (XI (XI
                                                    (XI (XO XH))))))) :: []))))))))))))
      (dump_pos wp p))
| SSpread (n0, dirs, p) ->
  app
    (b (String ((Ascii (true, true, false, false, true, false, true, false)),
      EmptyString)))
    (app (paren (app (dump_str n0) (cm :: (dump_list (dump_dir wp) dirs))))
      (dump_pos wp p))
| SInline (tc, dirs, sels, p) ->
  app
    (b (String ((Ascii (true, false, false, true, false, false, true,
      false)), EmptyString)))
    (app
      (paren
        (app (dump_str tc)
          (cm :: (app (dump_list (dump_dir wp) dirs) (cm :: ((Npos (XI (XI
                   (XO (XI (XI (XO
                   XH))))))) :: (app (sepcat (map (dump_sel wp) sels)) ((Npos
                                  (XI (XO (XI (XI (XI (XO XH))))))) :: []))))))))
      (dump_pos wp p))

(** val dump_optype : optype -> str **)

let dump_optype = function
| OpQuery ->
  b (String ((Ascii (true, false, false, false, true, true, true, false)),
    EmptyString))
| OpMutation ->
  b (String ((Ascii (true, false, true, true, false, true, true, false)),
    EmptyString))
| OpSubscription ->
  b (String ((Ascii (true, true, false, false, true, true, true, false)),
    EmptyString))
| OpNone ->
  b (String ((Ascii (true, false, true, true, false, true, false, false)),
    EmptyString))

(** val dump_op : bool -> opdef -> str **)

let dump_op wp o =
  app
    (b (String ((Ascii (true, true, true, true, false, false, true, false)),
      EmptyString)))
    (app
      (paren
        (app (dump_optype o.o_op)
          (cm :: (app (dump_str o.o_name)
                   (cm :: (app (dump_list (dump_vardef wp) o.o_vars)
                            (cm :: (app (dump_list (dump_dir wp) o.o_dirs)
                                     (cm :: (dump_list (dump_sel wp) o.o_sels))))))))))
      (dump_pos wp o.o_pos))

(** val dump_frag : bool -> fragdef -> str **)

let dump_frag wp f =
  app
    (b (String ((Ascii (true, true, true, false, false, false, true, false)),
      EmptyString)))
    (app
      (paren
        (app (dump_str f.f_name)
          (cm :: (app (dump_list (dump_vardef wp) f.f_vars)
                   (cm :: (app (dump_str f.f_typecond)
                            (cm :: (app (dump_list (dump_dir wp) f.f_dirs)
                                     (cm :: (dump_list (dump_sel wp) f.f_sels))))))))))
      (dump_pos wp f.f_pos))

(** val dump_qdoc : bool -> qdoc -> str **)

let dump_qdoc wp q =
  app
    (b (String ((Ascii (true, false, false, false, true, false, true,
      false)), EmptyString)))
    (app
      (paren
        (app (dump_list (dump_op wp) q.q_ops)
          (cm :: (dump_list (dump_frag wp) q.q_frags))))
      (dump_opos wp q.q_pos))

(** val dump_argdef : bool -> argdef -> str **)

let dump_argdef wp a =
  app
    (b (String ((Ascii (true, false, false, false, false, true, true,
      false)), EmptyString)))
    (app
      (paren
        (app (dump_str a.ad_desc)
          (cm :: (app (dump_str a.ad_name)
                   (cm :: (app (dump_ovalue wp a.ad_default)
                            (cm :: (app (dump_type wp a.ad_type)
                                     (cm :: (dump_list (dump_dir wp)
                                              a.ad_dirs))))))))))
      (dump_pos wp a.ad_pos))

(** val dump_fielddef : bool -> fielddef -> str **)

let dump_fielddef wp f =
  app
    (b (String ((Ascii (false, true, true, false, false, true, true, false)),
      EmptyString)))
    (app
      (paren
        (app (dump_str f.fd_desc)
          (cm :: (app (dump_str f.fd_name)
                   (cm :: (app (dump_list (dump_argdef wp) f.fd_args)
                            (cm :: (app (dump_ovalue wp f.fd_default)
                                     (cm :: (app (dump_type wp f.fd_type)
                                              (cm :: (dump_list (dump_dir wp)
                                                       f.fd_dirs))))))))))))
      (dump_pos wp f.fd_pos))

(** val dump_enumval : bool -> enumval -> str **)

let dump_enumval wp e =
  app
    (b (String ((Ascii (true, false, true, false, false, true, true, false)),
      EmptyString)))
    (app
      (paren
        (app (dump_str e.ev_desc)
          (cm :: (app (dump_str e.ev_name)
                   (cm :: (dump_list (dump_dir wp) e.ev_dirs))))))
      (dump_pos wp e.ev_pos))

(** val dump_def : bool -> definition -> str **)

let dump_def wp d =
  app
    (b (String ((Ascii (false, false, true, false, true, false, true,
      false)), EmptyString)))
    (app (n_dec (dkind_id d.df_kind))
      (app
        (paren
          (app (dump_str d.df_desc)
            (cm :: (app (dump_str d.df_name)
                     (cm :: (app (dump_list (dump_dir wp) d.df_dirs)
                              (cm :: (app (dump_list dump_str d.df_ifaces)
                                       (cm :: (app
                                                (dump_list (dump_fielddef wp)
                                                  d.df_fields)
                                                (cm :: (app
                                                         (dump_list dump_str
                                                           d.df_types)
                                                         (cm :: (app
                                                                  (dump_list
                                                                    (dump_enumval
                                                                    wp)
                                                                    d.df_enums)
                                                                  (cm :: 
                                                                  (dump_bool
                                                                    d.df_builtin))))))))))))))))
        (dump_pos wp d.df_pos)))

(** val dump_dirdef : bool -> dirdef -> str **)

let dump_dirdef wp d =
  app
    (b (String ((Ascii (false, true, false, false, true, false, true,
      false)), EmptyString)))
    (app
      (paren
        (app (dump_str d.dd_desc)
          (cm :: (app (dump_str d.dd_name)
                   (cm :: (app (dump_list (dump_argdef wp) d.dd_args)
                            (cm :: (app (dump_list dump_str d.dd_locs)
                                     (cm :: (dump_bool d.dd_repeatable))))))))))
      (dump_pos wp d.dd_pos))

(** val dump_optypedef : bool -> optypedef -> str **)

let dump_optypedef wp o =
  app
    (b (String ((Ascii (true, true, true, true, false, true, true, false)),
      EmptyString)))
    (app (paren (app (dump_optype o.ot_op) (cm :: (dump_str o.ot_type))))
      (dump_pos wp o.ot_pos))

(** val dump_schemadef : bool -> schemadef -> str **)

let dump_schemadef wp s =
  app
    (b (String ((Ascii (true, true, false, false, false, false, true,
      false)), EmptyString)))
    (app
      (paren
        (app (dump_str s.sd_desc)
          (cm :: (app (dump_list (dump_dir wp) s.sd_dirs)
                   (cm :: (dump_list (dump_optypedef wp) s.sd_ops))))))
      (dump_pos wp s.sd_pos))

(** val dump_sdoc : bool -> sdoc -> str **)

let dump_sdoc wp s =
  app
    (b (String ((Ascii (false, true, false, true, true, false, true, false)),
      EmptyString)))
    (app
      (paren
        (app (dump_list (dump_schemadef wp) s.s_schema)
          (cm :: (app (dump_list (dump_schemadef wp) s.s_schemaext)
                   (cm :: (app (dump_list (dump_dirdef wp) s.s_dirs)
                            (cm :: (app (dump_list (dump_def wp) s.s_defs)
                                     (cm :: (dump_list (dump_def wp) s.s_exts))))))))))
      (dump_opos wp s.s_pos))

type perr =
| PSyntax of z * z
| PLex of z * z
| PLimit
| PStall

type pst = { plx : lx; perr_ : perr option;
             peeked : (token * lexerr option) option; prev : token; cnt : 
             n; lim : n; src : n; reads : n }

(** val tok0 : token **)

let tok0 =
  { tkind = Invalid; tval = []; tstart = Z0; tend = Z0; tline = Z0; tcol =
    Z0 }

(** val pst_init : str -> n -> n -> pst **)

let pst_init input limit srcix =
  { plx = (lx_init input); perr_ = None; peeked = None; prev = tok0; cnt =
    N0; lim = limit; src = srcix; reads = N0 }

(** val set_err : pst -> perr -> pst **)

let set_err s e =
  match s.perr_ with
  | Some _ -> s
  | None ->
    { plx = s.plx; perr_ = (Some e); peeked = s.peeked; prev = s.prev; cnt =
      s.cnt; lim = s.lim; src = s.src; reads = s.reads }

(** val has_err : pst -> bool **)

let has_err s =
  match s.perr_ with
  | Some _ -> true
  | None -> false

(** val lexerr_to_perr : lexerr option -> perr option **)

let lexerr_to_perr = function
| Some le -> Some (PLex (le.eline, le.ecol))
| None -> None

(** val read_peek : dev -> pst -> pst **)

let read_peek d s =
  match readToken d s.plx with
  | Some r ->
    let (p, lx') = r in
    { plx = lx'; perr_ = s.perr_; peeked = (Some p); prev = s.prev; cnt =
    s.cnt; lim = s.lim; src = s.src; reads = (N.add s.reads (Npos XH)) }
  | None -> set_err s PStall

(** val next_peeked : pst -> token -> lexerr option -> pst **)

let next_peeked s t e =
  let c = N.add s.cnt (Npos XH) in
  if (&&) (negb (N.eqb s.lim N0)) (N.ltb s.lim c)
  then { plx = s.plx; perr_ = (Some PLimit); peeked = s.peeked; prev =
         s.prev; cnt = c; lim = s.lim; src = s.src; reads = s.reads }
  else { plx = s.plx; perr_ = (lexerr_to_perr e); peeked = None; prev = t;
         cnt = c; lim = s.lim; src = s.src; reads = s.reads }

(** val consume_group : dev -> nat -> pst -> pst **)

let rec consume_group d fuel s =
  match fuel with
  | O -> set_err s PStall
  | S f ->
    if has_err s
    then s
    else let s1 = match s.peeked with
                  | Some _ -> s
                  | None -> read_peek d s in
         if has_err s1
         then s1
         else (match s1.peeked with
               | Some p ->
                 let (t, e) = p in
                 if kind_eqb t.tkind Comment
                 then consume_group d f (next_peeked s1 t e)
                 else s1
               | None -> s1)

(** val group_fuel : pst -> nat **)

let group_fuel s =
  S (S (length s.plx.rest))

(** val peek : dev -> pst -> token * pst **)

let peek d s =
  if has_err s
  then (s.prev, s)
  else (match s.peeked with
        | Some p -> let (t, _) = p in (t, s)
        | None ->
          let s1 = read_peek d s in
          let s2 =
            match s1.peeked with
            | Some p ->
              let (t, _) = p in
              if kind_eqb t.tkind Comment
              then consume_group d (group_fuel s1) s1
              else s1
            | None -> s1
          in
          (match s2.peeked with
           | Some p -> let (t, _) = p in (t, s2)
           | None -> (s2.prev, s2)))

(** val next : dev -> pst -> token * pst **)

let next d s =
  if has_err s
  then (s.prev, s)
  else (match s.peeked with
        | Some p ->
          let (t, e) = p in let s1 = next_peeked s t e in (s1.prev, s1)
        | None ->
          let c = N.add s.cnt (Npos XH) in
          if (&&) (negb (N.eqb s.lim N0)) (N.ltb s.lim c)
          then let s1 = { plx = s.plx; perr_ = (Some PLimit); peeked = None;
                 prev = s.prev; cnt = c; lim = s.lim; src = s.src; reads =
                 s.reads }
               in
               (s1.prev, s1)
          else (match readToken d s.plx with
                | Some r ->
                  let (p, lx') = r in
                  let (t, e) = p in
                  let s1 = { plx = lx'; perr_ = (lexerr_to_perr e); peeked =
                    None; prev = t; cnt = c; lim = s.lim; src = s.src;
                    reads = (N.add s.reads (Npos XH)) }
                  in
                  let s2 =
                    if kind_eqb t.tkind Comment
                    then consume_group d (group_fuel s1) s1
                    else s1
                  in
                  (s2.prev, s2)
                | None -> let s1 = set_err s PStall in (s1.prev, s1)))

(** val error_at : pst -> token -> pst **)

let error_at s t =
  set_err s (PSyntax (t.tline, t.tcol))

(** val expect : dev -> kind -> pst -> token * pst **)

let expect d k s =
  let (tok, s1) = peek d s in
  if kind_eqb tok.tkind k then next d s1 else (tok, (error_at s1 tok))

(** val is_kw : token -> str -> bool **)

let is_kw tok v =
  (&&) (kind_eqb tok.tkind Name) (str_eqb tok.tval v)

(** val expectKeyword : dev -> str -> pst -> token * pst **)

let expectKeyword d v s =
  let (tok, s1) = peek d s in
  if is_kw tok v then next d s1 else (tok, (error_at s1 tok))

(** val skip : dev -> kind -> pst -> bool * pst **)

let skip d k s =
  if has_err s
  then (false, s)
  else let (tok, s1) = peek d s in
       if kind_eqb tok.tkind k then (true, (snd (next d s1))) else (false, s1)

(** val unexpectedError : dev -> pst -> pst **)

let unexpectedError d s =
  let (tok, s1) = peek d s in error_at s1 tok

(** val peekPos : dev -> pst -> pos * pst **)

let peekPos d s =
  if has_err s
  then (pos0, s)
  else let (tok, s1) = peek d s in ((pos_of_tok s.src tok), s1)

(** val many_loop :
    dev -> (pst -> 'a1 * pst) -> nat -> kind -> pst -> 'a1 list -> bool ->
    ('a1 list * pst) * bool **)

let rec many_loop d cb fuel endk s acc called =
  match fuel with
  | O -> (((rev acc), (set_err s PStall)), called)
  | S f ->
    let (tok, s1) = peek d s in
    if (&&) (negb (kind_eqb tok.tkind endk)) (negb (has_err s1))
    then let (x, s2) = cb s1 in many_loop d cb f endk s2 (x :: acc) true
    else (((rev acc), s1), called)

(** val many :
    dev -> (pst -> 'a1 * pst) -> nat -> kind -> kind -> pst -> 'a1 list * pst **)

let many d cb fuel startk endk s =
  let (has, s1) = skip d startk s in
  if negb has
  then ([], s1)
  else let (p, _) = many_loop d cb fuel endk s1 [] false in
       let (xs, s2) = p in (xs, (snd (next d s2)))

(** val some :
    dev -> (pst -> 'a1 * pst) -> nat -> kind -> kind -> pst -> 'a1 list * pst **)

let some d cb fuel startk endk s =
  let (has, s1) = skip d startk s in
  if negb has
  then ([], s1)
  else let (p, called) = many_loop d cb fuel endk s1 [] false in
       let (xs, s2) = p in
       if negb called
       then let (tok, s3) = peek d s2 in ([], (error_at s3 tok))
       else (xs, (snd (next d s2)))

(** val parseName : dev -> pst -> str * pst **)

let parseName d s =
  let (tok, s1) = expect d Name s in (tok.tval, s1)

type 'a pres =
| POk of 'a
| PErr of perr

(** val dump_perr : perr -> str **)

let dump_perr = function
| PSyntax (l, c) ->
  app
    (b (String ((Ascii (true, false, true, false, false, true, true, false)),
      (String ((Ascii (false, true, false, false, true, true, true, false)),
      (String ((Ascii (false, true, false, false, true, true, true, false)),
      (String ((Ascii (false, false, false, false, false, true, false,
      false)), (String ((Ascii (true, true, false, false, true, false, true,
      false)), (String ((Ascii (false, false, false, false, false, true,
      false, false)), EmptyString)))))))))))))
    (app (z_dec l) (sp :: (z_dec c)))
| PLex (l, c) ->
  app
    (b (String ((Ascii (true, false, true, false, false, true, true, false)),
      (String ((Ascii (false, true, false, false, true, true, true, false)),
      (String ((Ascii (false, true, false, false, true, true, true, false)),
      (String ((Ascii (false, false, false, false, false, true, false,
      false)), (String ((Ascii (true, true, false, false, true, false, true,
      false)), (String ((Ascii (false, false, false, false, false, true,
      false, false)), EmptyString)))))))))))))
    (app (z_dec l) (sp :: (z_dec c)))
| PLimit ->
  b (String ((Ascii (true, false, true, false, false, true, true, false)),
    (String ((Ascii (false, true, false, false, true, true, true, false)),
    (String ((Ascii (false, true, false, false, true, true, true, false)),
    (String ((Ascii (false, false, false, false, false, true, false, false)),
    (String ((Ascii (false, false, true, true, false, false, true, false)),
    EmptyString))))))))))
| PStall ->
  b (String ((Ascii (true, false, true, false, false, true, true, false)),
    (String ((Ascii (false, true, false, false, true, true, true, false)),
    (String ((Ascii (false, true, false, false, true, true, true, false)),
    (String ((Ascii (false, false, false, false, false, true, false, false)),
    (String ((Ascii (true, true, false, false, true, false, true, false)),
    (String ((Ascii (false, false, true, false, true, false, true, false)),
    (String ((Ascii (true, false, false, false, false, false, true, false)),
    (String ((Ascii (false, false, true, true, false, false, true, false)),
    (String ((Ascii (false, false, true, true, false, false, true, false)),
    EmptyString))))))))))))))))))

(** val stall : 'a1 -> pst -> 'a1 * pst **)

let stall x s =
  (x, (set_err s PStall))

(** val parseVariable : dev -> pst -> str * pst **)

let parseVariable d s =
  let (_, s1) = expect d Dollar s in parseName d s1

(** val parseValueLiteral : dev -> nat -> bool -> pst -> value * pst **)

let rec parseValueLiteral d fuel isConst s =
  match fuel with
  | O -> stall value0 s
  | S f ->
    let (token0, s1) = peek d s in
    let tp = pos_of_tok s.src token0 in
    (match token0.tkind with
     | Dollar ->
       if isConst
       then (value0, (unexpectedError d s1))
       else let (n0, s2) = parseVariable d s1 in
            ((MkValue (VVar, n0, [], tp)), s2)
     | BracketL ->
       let (p, s2) = peekPos d s1 in
       let (vals, s3) =
         many d (fun st ->
           let (v, st') = parseValueLiteral d f isConst st in
           ((([], None), v), st')) f BracketL BracketR s2
       in
       ((MkValue (VList, [], vals, p)), s3)
     | BraceL ->
       let (p, s2) = peekPos d s1 in
       let (flds, s3) =
         many d (fun st ->
           let (fp, st1) = peekPos d st in
           let (n0, st2) = parseName d st1 in
           let (_, st3) = expect d Colon st2 in
           let (v, st4) = parseValueLiteral d f isConst st3 in
           (((n0, (Some fp)), v), st4)) f BraceL BraceR s2
       in
       ((MkValue (VObject, [], flds, p)), s3)
     | Name ->
       let k =
         if (||)
              (str_eqb token0.tval
                (b (String ((Ascii (false, false, true, false, true, true,
                  true, false)), (String ((Ascii (false, true, false, false,
                  true, true, true, false)), (String ((Ascii (true, false,
                  true, false, true, true, true, false)), (String ((Ascii
                  (true, false, true, false, false, true, true, false)),
                  EmptyString))))))))))
              (str_eqb token0.tval
                (b (String ((Ascii (false, true, true, false, false, true,
                  true, false)), (String ((Ascii (true, false, false, false,
                  false, true, true, false)), (String ((Ascii (false, false,
                  true, true, false, true, true, false)), (String ((Ascii
                  (true, true, false, false, true, true, true, false)),
                  (String ((Ascii (true, false, true, false, false, true,
                  true, false)), EmptyString))))))))))))
         then VBool
         else if str_eqb token0.tval
                   (b (String ((Ascii (false, true, true, true, false, true,
                     true, false)), (String ((Ascii (true, false, true,
                     false, true, true, true, false)), (String ((Ascii
                     (false, false, true, true, false, true, true, false)),
                     (String ((Ascii (false, false, true, true, false, true,
                     true, false)), EmptyString)))))))))
              then VNull
              else VEnum
       in
       let (_, s2) = next d s1 in ((MkValue (k, token0.tval, [], tp)), s2)
     | Int ->
       let (_, s2) = next d s1 in ((MkValue (VInt, token0.tval, [], tp)), s2)
     | Float ->
       let (_, s2) = next d s1 in
       ((MkValue (VFloat, token0.tval, [], tp)), s2)
     | String_ ->
       let (_, s2) = next d s1 in
       ((MkValue (VString, token0.tval, [], tp)), s2)
     | BlockString ->
       let (_, s2) = next d s1 in
       ((MkValue (VBlock, token0.tval, [], tp)), s2)
     | _ -> (value0, (unexpectedError d s1)))

(** val parseTypeReference : dev -> nat -> pst -> type_ * pst **)

let rec parseTypeReference d fuel s =
  match fuel with
  | O -> stall type0 s
  | S f ->
    let (isList, s1) = skip d BracketL s in
    if isList
    then let (p, s2) = peekPos d s1 in
         let (e, s3) = parseTypeReference d f s2 in
         let (_, s4) = expect d BracketR s3 in
         let (nn, s5) = skip d Bang s4 in ((ListT (e, nn, p)), s5)
    else let (p, s2) = peekPos d s1 in
         let (n0, s3) = parseName d s2 in
         let (nn, s4) = skip d Bang s3 in ((NamedT (n0, nn, p)), s4)

(** val parseArgument : dev -> nat -> bool -> pst -> argument * pst **)

let parseArgument d fuel isConst s =
  let (p, s1) = peekPos d s in
  let (n0, s2) = parseName d s1 in
  let (_, s3) = expect d Colon s2 in
  let (v, s4) = parseValueLiteral d fuel isConst s3 in
  ({ a_name = n0; a_value = v; a_pos = p }, s4)

(** val parseArguments : dev -> nat -> bool -> pst -> argument list * pst **)

let parseArguments d fuel isConst s =
  some d (parseArgument d fuel isConst) fuel ParenL ParenR s

(** val parseDirective : dev -> nat -> bool -> pst -> directive * pst **)

let parseDirective d fuel isConst s =
  let (_, s1) = expect d At s in
  let (p, s2) = peekPos d s1 in
  let (n0, s3) = parseName d s2 in
  let (args, s4) = parseArguments d fuel isConst s3 in
  ({ d_name = n0; d_args = args; d_pos = p }, s4)

(** val parseDirectives_loop :
    dev -> nat -> nat -> bool -> pst -> directive list -> directive list * pst **)

let rec parseDirectives_loop d loopfuel fuel isConst s acc =
  match loopfuel with
  | O -> stall (rev acc) s
  | S lf ->
    let (tok, s1) = peek d s in
    if (&&) (kind_eqb tok.tkind At) (negb (has_err s1))
    then let (x, s2) = parseDirective d fuel isConst s1 in
         parseDirectives_loop d lf fuel isConst s2 (x :: acc)
    else ((rev acc), s1)

(** val parseDirectives :
    dev -> nat -> bool -> pst -> directive list * pst **)

let parseDirectives d fuel isConst s =
  parseDirectives_loop d fuel fuel isConst s []

(** val parseVariableDefinition : dev -> nat -> pst -> vardef * pst **)

let parseVariableDefinition d fuel s =
  let (p, s1) = peekPos d s in
  let (v, s2) = parseVariable d s1 in
  let (_, s3) = expect d Colon s2 in
  let (t, s4) = parseTypeReference d fuel s3 in
  let (hasdef, s5) = skip d Equals s4 in
  if hasdef
  then let (x, st) = parseValueLiteral d fuel true s5 in
       let dv = Some x in
       let (dirs, s7) = parseDirectives d fuel (negb (d F_Q1)) st in
       ({ vd_var = v; vd_type = t; vd_default = dv; vd_dirs = dirs; vd_pos =
       p }, s7)
  else let dv = None in
       let (dirs, s7) = parseDirectives d fuel (negb (d F_Q1)) s5 in
       ({ vd_var = v; vd_type = t; vd_default = dv; vd_dirs = dirs; vd_pos =
       p }, s7)

(** val parseVariableDefinitions : dev -> nat -> pst -> vardef list * pst **)

let parseVariableDefinitions d fuel s =
  some d (parseVariableDefinition d fuel) fuel ParenL ParenR s

(** val tok_is_on : dev -> token -> bool **)

let tok_is_on d tok =
  (&&)
    (str_eqb tok.tval
      (b (String ((Ascii (true, true, true, true, false, true, true, false)),
        (String ((Ascii (false, true, true, true, false, true, true, false)),
        EmptyString)))))) ((||) (d F_Q2) (kind_eqb tok.tkind Name))

(** val parseFragmentName : dev -> pst -> str * pst **)

let parseFragmentName d s =
  let (tok, s1) = peek d s in
  if str_eqb tok.tval
       (b (String ((Ascii (true, true, true, true, false, true, true,
         false)), (String ((Ascii (false, true, true, true, false, true,
         true, false)), EmptyString)))))
  then ([], (unexpectedError d s1))
  else parseName d s1

(** val sel0 : selection **)

let sel0 =
  SSpread ([], [], pos0)

(** val parseSelection : dev -> nat -> pst -> selection * pst **)

let rec parseSelection d fuel s =
  match fuel with
  | O -> stall sel0 s
  | S f ->
    let required = fun st ->
      let (tok, st1) = peek d st in
      if negb (kind_eqb tok.tkind BraceL)
      then ([], (error_at st1 tok))
      else some d (parseSelection d f) f BraceL BraceR st1
    in
    let (tok, s1) = peek d s in
    if kind_eqb tok.tkind Spread
    then let (_, s2) = expect d Spread s1 in
         let (pk, s3) = peek d s2 in
         if (&&) (kind_eqb pk.tkind Name)
              (negb
                (str_eqb pk.tval
                  (b (String ((Ascii (true, true, true, true, false, true,
                    true, false)), (String ((Ascii (false, true, true, true,
                    false, true, true, false)), EmptyString)))))))
         then let (p, s4) = peekPos d s3 in
              let (n0, s5) = parseFragmentName d s4 in
              let (dirs, s6) = parseDirectives d f false s5 in
              ((SSpread (n0, dirs, p)), s6)
         else let (p, s4) = peekPos d s3 in
              let (pk2, s5) = peek d s4 in
              let (tc, s6) =
                if tok_is_on d pk2
                then let (_, st) = next d s5 in parseName d st
                else ([], s5)
              in
              let (dirs, s7) = parseDirectives d f false s6 in
              let (sels, s8) = required s7 in
              ((SInline (tc, dirs, sels, p)), s8)
    else let (p, s2) = peekPos d s1 in
         let (al, s3) = parseName d s2 in
         let (hasColon, s4) = skip d Colon s3 in
         let (n0, s5) = if hasColon then parseName d s4 else (al, s4) in
         let (args, s6) = parseArguments d f false s5 in
         let (dirs, s7) = parseDirectives d f false s6 in
         let (pk, s8) = peek d s7 in
         let (sels, s9) =
           if kind_eqb pk.tkind BraceL
           then some d (parseSelection d f) f BraceL BraceR s8
           else ([], s8)
         in
         ((SField (al, n0, args, dirs, sels, p)), s9)

(** val parseRequiredSelectionSet :
    dev -> nat -> pst -> selection list * pst **)

let parseRequiredSelectionSet d fuel s =
  let (tok, s1) = peek d s in
  if negb (kind_eqb tok.tkind BraceL)
  then ([], (error_at s1 tok))
  else some d (parseSelection d fuel) fuel BraceL BraceR s1

(** val parseOperationType : dev -> pst -> optype * pst **)

let parseOperationType d s =
  let (tok, s1) = next d s in
  let named = (||) (d F_S2) (kind_eqb tok.tkind Name) in
  if (&&) named
       (str_eqb tok.tval
         (b (String ((Ascii (true, false, false, false, true, true, true,
           false)), (String ((Ascii (true, false, true, false, true, true,
           true, false)), (String ((Ascii (true, false, true, false, false,
           true, true, false)), (String ((Ascii (false, true, false, false,
           true, true, true, false)), (String ((Ascii (true, false, false,
           true, true, true, true, false)), EmptyString))))))))))))
  then (OpQuery, s1)
  else if (&&) named
            (str_eqb tok.tval
              (b (String ((Ascii (true, false, true, true, false, true, true,
                false)), (String ((Ascii (true, false, true, false, true,
                true, true, false)), (String ((Ascii (false, false, true,
                false, true, true, true, false)), (String ((Ascii (true,
                false, false, false, false, true, true, false)), (String
                ((Ascii (false, false, true, false, true, true, true,
                false)), (String ((Ascii (true, false, false, true, false,
                true, true, false)), (String ((Ascii (true, true, true, true,
                false, true, true, false)), (String ((Ascii (false, true,
                true, true, false, true, true, false)),
                EmptyString))))))))))))))))))
       then (OpMutation, s1)
       else if (&&) named
                 (str_eqb tok.tval
                   (b (String ((Ascii (true, true, false, false, true, true,
                     true, false)), (String ((Ascii (true, false, true,
                     false, true, true, true, false)), (String ((Ascii
                     (false, true, false, false, false, true, true, false)),
                     (String ((Ascii (true, true, false, false, true, true,
                     true, false)), (String ((Ascii (true, true, false,
                     false, false, true, true, false)), (String ((Ascii
                     (false, true, false, false, true, true, true, false)),
                     (String ((Ascii (true, false, false, true, false, true,
                     true, false)), (String ((Ascii (false, false, false,
                     false, true, true, true, false)), (String ((Ascii
                     (false, false, true, false, true, true, true, false)),
                     (String ((Ascii (true, false, false, true, false, true,
                     true, false)), (String ((Ascii (true, true, true, true,
                     false, true, true, false)), (String ((Ascii (false,
                     true, true, true, false, true, true, false)),
                     EmptyString))))))))))))))))))))))))))
            then (OpSubscription, s1)
            else (OpNone, (error_at s1 tok))

(** val parseOperationDefinition : dev -> nat -> pst -> opdef * pst **)

let parseOperationDefinition d fuel s =
  let (tok, s1) = peek d s in
  if kind_eqb tok.tkind BraceL
  then let (p, s2) = peekPos d s1 in
       let (sels, s3) = parseRequiredSelectionSet d fuel s2 in
       ({ o_op = OpQuery; o_name = []; o_vars = []; o_dirs = []; o_sels =
       sels; o_pos = p }, s3)
  else let (p, s2) = peekPos d s1 in
       let (op, s3) = parseOperationType d s2 in
       let (pk, s4) = peek d s3 in
       if kind_eqb pk.tkind Name
       then let (t, st) = next d s4 in
            let n0 = t.tval in
            let (vars, s6) = parseVariableDefinitions d fuel st in
            let (dirs, s7) = parseDirectives d fuel false s6 in
            let (sels, s8) = parseRequiredSelectionSet d fuel s7 in
            ({ o_op = op; o_name = n0; o_vars = vars; o_dirs = dirs; o_sels =
            sels; o_pos = p }, s8)
       else let n0 = [] in
            let (vars, s6) = parseVariableDefinitions d fuel s4 in
            let (dirs, s7) = parseDirectives d fuel false s6 in
            let (sels, s8) = parseRequiredSelectionSet d fuel s7 in
            ({ o_op = op; o_name = n0; o_vars = vars; o_dirs = dirs; o_sels =
            sels; o_pos = p }, s8)

(** val parseFragmentDefinition : dev -> nat -> pst -> fragdef * pst **)

let parseFragmentDefinition d fuel s =
  let (p, s1) = peekPos d s in
  let (_, s2) =
    expectKeyword d
      (b (String ((Ascii (false, true, true, false, false, true, true,
        false)), (String ((Ascii (false, true, false, false, true, true,
        true, false)), (String ((Ascii (true, false, false, false, false,
        true, true, false)), (String ((Ascii (true, true, true, false, false,
        true, true, false)), (String ((Ascii (true, false, true, true, false,
        true, true, false)), (String ((Ascii (true, false, true, false,
        false, true, true, false)), (String ((Ascii (false, true, true, true,
        false, true, true, false)), (String ((Ascii (false, false, true,
        false, true, true, true, false)), EmptyString))))))))))))))))) s1
  in
  let (n0, s3) = parseFragmentName d s2 in
  let (vars, s4) =
    if d F_Q4 then parseVariableDefinitions d fuel s3 else ([], s3)
  in
  let (_, s5) =
    expectKeyword d
      (b (String ((Ascii (true, true, true, true, false, true, true, false)),
        (String ((Ascii (false, true, true, true, false, true, true, false)),
        EmptyString))))) s4
  in
  let (tc, s6) = parseName d s5 in
  let (dirs, s7) = parseDirectives d fuel false s6 in
  let (sels, s8) = parseRequiredSelectionSet d fuel s7 in
  ({ f_name = n0; f_vars = vars; f_typecond = tc; f_dirs = dirs; f_sels =
  sels; f_pos = p }, s8)

(** val parseQueryDocument_loop :
    dev -> nat -> nat -> pst -> opdef list -> fragdef list -> pos option ->
    qdoc * pst **)

let rec parseQueryDocument_loop d loopfuel fuel s ops frags dp =
  match loopfuel with
  | O -> stall { q_ops = (rev ops); q_frags = (rev frags); q_pos = dp } s
  | S lf ->
    let (tok, s1) = peek d s in
    if kind_eqb tok.tkind EOF
    then ({ q_ops = (rev ops); q_frags = (rev frags); q_pos = dp }, s1)
    else if has_err s1
         then ({ q_ops = (rev ops); q_frags = (rev frags); q_pos = dp }, s1)
         else let (p, s2) = peekPos d s1 in
              let dp' = Some p in
              let (tk, s3) = peek d s2 in
              (match tk.tkind with
               | BraceL ->
                 let (o, s4) = parseOperationDefinition d fuel s3 in
                 parseQueryDocument_loop d lf fuel s4 (o :: ops) frags dp'
               | Name ->
                 if (||)
                      ((||)
                        (str_eqb tk.tval
                          (b (String ((Ascii (true, false, false, false,
                            true, true, true, false)), (String ((Ascii (true,
                            false, true, false, true, true, true, false)),
                            (String ((Ascii (true, false, true, false, false,
                            true, true, false)), (String ((Ascii (false,
                            true, false, false, true, true, true, false)),
                            (String ((Ascii (true, false, false, true, true,
                            true, true, false)), EmptyString))))))))))))
                        (str_eqb tk.tval
                          (b (String ((Ascii (true, false, true, true, false,
                            true, true, false)), (String ((Ascii (true,
                            false, true, false, true, true, true, false)),
                            (String ((Ascii (false, false, true, false, true,
                            true, true, false)), (String ((Ascii (true,
                            false, false, false, false, true, true, false)),
                            (String ((Ascii (false, false, true, false, true,
                            true, true, false)), (String ((Ascii (true,
                            false, false, true, false, true, true, false)),
                            (String ((Ascii (true, true, true, true, false,
                            true, true, false)), (String ((Ascii (false,
                            true, true, true, false, true, true, false)),
                            EmptyString)))))))))))))))))))
                      (str_eqb tk.tval
                        (b (String ((Ascii (true, true, false, false, true,
                          true, true, false)), (String ((Ascii (true, false,
                          true, false, true, true, true, false)), (String
                          ((Ascii (false, true, false, false, false, true,
                          true, false)), (String ((Ascii (true, true, false,
                          false, true, true, true, false)), (String ((Ascii
                          (true, true, false, false, false, true, true,
                          false)), (String ((Ascii (false, true, false,
                          false, true, true, true, false)), (String ((Ascii
                          (true, false, false, true, false, true, true,
                          false)), (String ((Ascii (false, false, false,
                          false, true, true, true, false)), (String ((Ascii
                          (false, false, true, false, true, true, true,
                          false)), (String ((Ascii (true, false, false, true,
                          false, true, true, false)), (String ((Ascii (true,
                          true, true, true, false, true, true, false)),
                          (String ((Ascii (false, true, true, true, false,
                          true, true, false)),
                          EmptyString))))))))))))))))))))))))))
                 then let (o, s4) = parseOperationDefinition d fuel s3 in
                      parseQueryDocument_loop d lf fuel s4 (o :: ops) frags
                        dp'
                 else if str_eqb tk.tval
                           (b (String ((Ascii (false, true, true, false,
                             false, true, true, false)), (String ((Ascii
                             (false, true, false, false, true, true, true,
                             false)), (String ((Ascii (true, false, false,
                             false, false, true, true, false)), (String
                             ((Ascii (true, true, true, false, false, true,
                             true, false)), (String ((Ascii (true, false,
                             true, true, false, true, true, false)), (String
                             ((Ascii (true, false, true, false, false, true,
                             true, false)), (String ((Ascii (false, true,
                             true, true, false, true, true, false)), (String
                             ((Ascii (false, false, true, false, true, true,
                             true, false)), EmptyString)))))))))))))))))
                      then let (f, s4) = parseFragmentDefinition d fuel s3 in
                           parseQueryDocument_loop d lf fuel s4 ops
                             (f :: frags) dp'
                      else parseQueryDocument_loop d lf fuel
                             (unexpectedError d s3) ops frags dp'
               | _ ->
                 parseQueryDocument_loop d lf fuel (unexpectedError d s3) ops
                   frags dp')

(** val parseQueryDocument : dev -> nat -> pst -> qdoc * pst **)

let parseQueryDocument d fuel s =
  let (doc, s1) = parseQueryDocument_loop d fuel fuel s [] [] None in
  (match doc.q_ops with
   | [] ->
     (match doc.q_frags with
      | [] ->
        if (||) (d F_Q3) (has_err s1)
        then (doc, s1)
        else (doc, (unexpectedError d s1))
      | _ :: _ -> (doc, s1))
   | _ :: _ -> (doc, s1))

(** val query_fuel : str -> nat **)

let query_fuel input =
  add (length input) (S (S (S (S O))))

(** val parseQueryWith : dev -> nat -> n -> str -> qdoc pres * pst **)

let parseQueryWith d fuel limit input =
  let (doc, s) = parseQueryDocument d fuel (pst_init input limit N0) in
  (match s.perr_ with
   | Some e -> ((PErr e), s)
   | None -> ((POk doc), s))

(** val parseQuery : dev -> n -> str -> qdoc pres **)

let parseQuery d limit input =
  fst (parseQueryWith d (query_fuel input) limit input)

(** val dump_parse_query : dev -> bool -> n -> str -> str **)

let dump_parse_query d wp limit input =
  match parseQuery d limit input with
  | POk doc ->
    app
      (b (String ((Ascii (true, true, true, true, false, true, true, false)),
        (String ((Ascii (true, true, false, true, false, true, true, false)),
        (String ((Ascii (false, false, false, false, false, true, false,
        false)), EmptyString))))))) (dump_qdoc wp doc)
  | PErr e -> dump_perr e

(** val parseDescription : dev -> pst -> (str * bool) * pst **)

let parseDescription d s =
  let (tok, s1) = peek d s in
  if (||) (kind_eqb tok.tkind BlockString) (kind_eqb tok.tkind String_)
  then let (t, s2) = next d s1 in ((t.tval, true), s2)
  else (([], false), s1)

(** val parseOperationTypeDefinition : dev -> pst -> optypedef * pst **)

let parseOperationTypeDefinition d s =
  let (p, s1) = peekPos d s in
  let (op, s2) = parseOperationType d s1 in
  let (_, s3) = expect d Colon s2 in
  let (n0, s4) = parseName d s3 in
  ({ ot_op = op; ot_type = n0; ot_pos = p }, s4)

(** val parseSchemaDefinition :
    dev -> nat -> str -> pst -> schemadef * pst **)

let parseSchemaDefinition d fuel desc s =
  let (_, s1) =
    expectKeyword d
      (b (String ((Ascii (true, true, false, false, true, true, true,
        false)), (String ((Ascii (true, true, false, false, false, true,
        true, false)), (String ((Ascii (false, false, false, true, false,
        true, true, false)), (String ((Ascii (true, false, true, false,
        false, true, true, false)), (String ((Ascii (true, false, true, true,
        false, true, true, false)), (String ((Ascii (true, false, false,
        false, false, true, true, false)), EmptyString))))))))))))) s
  in
  let (p, s2) = peekPos d s1 in
  let (dirs, s3) = parseDirectives d fuel true s2 in
  let (tok, s4) = peek d s3 in
  if (&&) (negb (d F_S1)) (negb (kind_eqb tok.tkind BraceL))
  then ({ sd_desc = desc; sd_dirs = dirs; sd_ops = []; sd_pos = p },
         (error_at s4 tok))
  else let (ops, s5) =
         some d (parseOperationTypeDefinition d) fuel BraceL BraceR s4
       in
       ({ sd_desc = desc; sd_dirs = dirs; sd_ops = ops; sd_pos = p }, s5)

(** val tok_is_implements : dev -> token -> bool **)

let tok_is_implements d tok =
  (&&)
    (str_eqb tok.tval
      (b (String ((Ascii (true, false, false, true, false, true, true,
        false)), (String ((Ascii (true, false, true, true, false, true, true,
        false)), (String ((Ascii (false, false, false, false, true, true,
        true, false)), (String ((Ascii (false, false, true, true, false,
        true, true, false)), (String ((Ascii (true, false, true, false,
        false, true, true, false)), (String ((Ascii (true, false, true, true,
        false, true, true, false)), (String ((Ascii (true, false, true,
        false, false, true, true, false)), (String ((Ascii (false, true,
        true, true, false, true, true, false)), (String ((Ascii (false,
        false, true, false, true, true, true, false)), (String ((Ascii (true,
        true, false, false, true, true, true, false)),
        EmptyString))))))))))))))))))))))
    ((||) (d F_S3) (kind_eqb tok.tkind Name))

(** val sep_names_loop :
    dev -> nat -> kind -> pst -> str list -> str list * pst **)

let rec sep_names_loop d fuel sep s acc =
  match fuel with
  | O -> stall (rev acc) s
  | S f ->
    let (has, s1) = skip d sep s in
    if (&&) has (negb (has_err s1))
    then let (n0, s2) = parseName d s1 in
         sep_names_loop d f sep s2 (n0 :: acc)
    else ((rev acc), s1)

(** val parseImplementsInterfaces : dev -> nat -> pst -> str list * pst **)

let parseImplementsInterfaces d fuel s =
  let (tok, s1) = peek d s in
  if tok_is_implements d tok
  then let (_, s2) = next d s1 in
       let (_, s3) = skip d Amp s2 in
       let (n0, s4) = parseName d s3 in
       sep_names_loop d fuel Amp s4 (n0 :: [])
  else ([], s1)

(** val parseUnionMemberTypes : dev -> nat -> pst -> str list * pst **)

let parseUnionMemberTypes d fuel s =
  let (has, s1) = skip d Equals s in
  if has
  then let (_, s2) = skip d Pipe s1 in
       let (n0, s3) = parseName d s2 in
       sep_names_loop d fuel Pipe s3 (n0 :: [])
  else ([], s1)

(** val parseArgumentDef : dev -> nat -> pst -> argdef * pst **)

let parseArgumentDef d fuel s =
  let (p, s1) = peekPos d s in
  let (p0, s2) = parseDescription d s1 in
  let (desc, _) = p0 in
  let (_, s3) = peek d s2 in
  let (n0, s4) = parseName d s3 in
  let (_, s5) = expect d Colon s4 in
  let (t, s6) = parseTypeReference d fuel s5 in
  let (hasdef, s7) = skip d Equals s6 in
  if hasdef
  then let (x, st) = parseValueLiteral d fuel true s7 in
       let dv = Some x in
       let (dirs, s9) = parseDirectives d fuel true st in
       ({ ad_desc = desc; ad_name = n0; ad_default = dv; ad_type = t;
       ad_dirs = dirs; ad_pos = p }, s9)
  else let dv = None in
       let (dirs, s9) = parseDirectives d fuel true s7 in
       ({ ad_desc = desc; ad_name = n0; ad_default = dv; ad_type = t;
       ad_dirs = dirs; ad_pos = p }, s9)

(** val parseArgumentDefs : dev -> nat -> pst -> argdef list * pst **)

let parseArgumentDefs d fuel s =
  some d (parseArgumentDef d fuel) fuel ParenL ParenR s

(** val parseFieldDefinition : dev -> nat -> pst -> fielddef * pst **)

let parseFieldDefinition d fuel s =
  let (p, s1) = peekPos d s in
  let (p0, s2) = parseDescription d s1 in
  let (desc, _) = p0 in
  let (_, s3) = peek d s2 in
  let (n0, s4) = parseName d s3 in
  let (args, s5) = parseArgumentDefs d fuel s4 in
  let (_, s6) = expect d Colon s5 in
  let (t, s7) = parseTypeReference d fuel s6 in
  let (dirs, s8) = parseDirectives d fuel true s7 in
  ({ fd_desc = desc; fd_name = n0; fd_args = args; fd_default = None;
  fd_type = t; fd_dirs = dirs; fd_pos = p }, s8)

(** val parseInputValueDef : dev -> nat -> pst -> fielddef * pst **)

let parseInputValueDef d fuel s =
  let (p, s1) = peekPos d s in
  let (p0, s2) = parseDescription d s1 in
  let (desc, _) = p0 in
  let (_, s3) = peek d s2 in
  let (n0, s4) = parseName d s3 in
  let (_, s5) = expect d Colon s4 in
  let (t, s6) = parseTypeReference d fuel s5 in
  let (hasdef, s7) = skip d Equals s6 in
  if hasdef
  then let (x, st) = parseValueLiteral d fuel true s7 in
       let dv = Some x in
       let (dirs, s9) = parseDirectives d fuel true st in
       ({ fd_desc = desc; fd_name = n0; fd_args = []; fd_default = dv;
       fd_type = t; fd_dirs = dirs; fd_pos = p }, s9)
  else let dv = None in
       let (dirs, s9) = parseDirectives d fuel true s7 in
       ({ fd_desc = desc; fd_name = n0; fd_args = []; fd_default = dv;
       fd_type = t; fd_dirs = dirs; fd_pos = p }, s9)

(** val parseEnumValueDefinition : dev -> nat -> pst -> enumval * pst **)

let parseEnumValueDefinition d fuel s =
  let (p, s1) = peekPos d s in
  let (p0, s2) = parseDescription d s1 in
  let (desc, _) = p0 in
  let (_, s3) = peek d s2 in
  let (n0, s4) = parseName d s3 in
  let (dirs, s5) = parseDirectives d fuel true s4 in
  ({ ev_desc = desc; ev_name = n0; ev_dirs = dirs; ev_pos = p }, s5)

(** val parseFieldsDefinition : dev -> nat -> pst -> fielddef list * pst **)

let parseFieldsDefinition d fuel s =
  some d (parseFieldDefinition d fuel) fuel BraceL BraceR s

(** val parseInputFieldsDefinition :
    dev -> nat -> pst -> fielddef list * pst **)

let parseInputFieldsDefinition d fuel s =
  some d (parseInputValueDef d fuel) fuel BraceL BraceR s

(** val parseEnumValuesDefinition :
    dev -> nat -> pst -> enumval list * pst **)

let parseEnumValuesDefinition d fuel s =
  some d (parseEnumValueDefinition d fuel) fuel BraceL BraceR s

(** val parseTypeDef :
    dev -> nat -> dkind -> str -> bool -> str -> pst -> definition * pst **)

let parseTypeDef d fuel k kw ext desc s =
  let (_, s1) = expectKeyword d kw s in
  let (p, s2) = peekPos d s1 in
  let (n0, s3) = parseName d s2 in
  (match k with
   | KScalar ->
     let (dirs, s4) = parseDirectives d fuel true s3 in
     let s5 =
       if (&&) ext (match dirs with
                    | [] -> true
                    | _ :: _ -> false)
       then unexpectedError d s4
       else s4
     in
     ({ df_kind = k; df_desc = desc; df_name = n0; df_dirs = dirs;
     df_ifaces = []; df_fields = []; df_types = []; df_enums = []; df_pos =
     p; df_builtin = false }, s5)
   | KObject ->
     let (ifs, s4) = parseImplementsInterfaces d fuel s3 in
     let (dirs, s5) = parseDirectives d fuel true s4 in
     let (flds, s6) = parseFieldsDefinition d fuel s5 in
     let empty =
       match ifs with
       | [] ->
         (match dirs with
          | [] -> (match flds with
                   | [] -> true
                   | _ :: _ -> false)
          | _ :: _ -> false)
       | _ :: _ -> false
     in
     let s7 = if (&&) ext empty then unexpectedError d s6 else s6 in
     ({ df_kind = k; df_desc = desc; df_name = n0; df_dirs = dirs;
     df_ifaces = ifs; df_fields = flds; df_types = []; df_enums = [];
     df_pos = p; df_builtin = false }, s7)
   | KInterface ->
     let (ifs, s4) =
       if (&&) ext (d F_S4)
       then ([], s3)
       else parseImplementsInterfaces d fuel s3
     in
     let (dirs, s5) = parseDirectives d fuel true s4 in
     let (flds, s6) = parseFieldsDefinition d fuel s5 in
     let empty =
       match ifs with
       | [] ->
         (match dirs with
          | [] -> (match flds with
                   | [] -> true
                   | _ :: _ -> false)
          | _ :: _ -> false)
       | _ :: _ -> false
     in
     let s7 = if (&&) ext empty then unexpectedError d s6 else s6 in
     ({ df_kind = k; df_desc = desc; df_name = n0; df_dirs = dirs;
     df_ifaces = ifs; df_fields = flds; df_types = []; df_enums = [];
     df_pos = p; df_builtin = false }, s7)
   | KUnion ->
     let (dirs, s4) = parseDirectives d fuel true s3 in
     let (tys, s5) = parseUnionMemberTypes d fuel s4 in
     let empty =
       match dirs with
       | [] -> (match tys with
                | [] -> true
                | _ :: _ -> false)
       | _ :: _ -> false
     in
     let s6 = if (&&) ext empty then unexpectedError d s5 else s5 in
     ({ df_kind = k; df_desc = desc; df_name = n0; df_dirs = dirs;
     df_ifaces = []; df_fields = []; df_types = tys; df_enums = []; df_pos =
     p; df_builtin = false }, s6)
   | KEnum ->
     let (dirs, s4) = parseDirectives d fuel true s3 in
     let (vals, s5) = parseEnumValuesDefinition d fuel s4 in
     let empty =
       match dirs with
       | [] -> (match vals with
                | [] -> true
                | _ :: _ -> false)
       | _ :: _ -> false
     in
     let s6 = if (&&) ext empty then unexpectedError d s5 else s5 in
     ({ df_kind = k; df_desc = desc; df_name = n0; df_dirs = dirs;
     df_ifaces = []; df_fields = []; df_types = []; df_enums = vals; df_pos =
     p; df_builtin = false }, s6)
   | KInputObject ->
     let (dirs, s4) = parseDirectives d fuel (negb ((&&) ext (d F_S5))) s3 in
     let (flds, s5) = parseInputFieldsDefinition d fuel s4 in
     let empty =
       match dirs with
       | [] -> (match flds with
                | [] -> true
                | _ :: _ -> false)
       | _ :: _ -> false
     in
     let s6 = if (&&) ext empty then unexpectedError d s5 else s5 in
     ({ df_kind = k; df_desc = desc; df_name = n0; df_dirs = dirs;
     df_ifaces = []; df_fields = flds; df_types = []; df_enums = []; df_pos =
     p; df_builtin = false }, s6))

(** val type_keyword : str -> dkind option **)

let type_keyword v =
  if str_eqb v
       (b (String ((Ascii (true, true, false, false, true, true, true,
         false)), (String ((Ascii (true, true, false, false, false, true,
         true, false)), (String ((Ascii (true, false, false, false, false,
         true, true, false)), (String ((Ascii (false, false, true, true,
         false, true, true, false)), (String ((Ascii (true, false, false,
         false, false, true, true, false)), (String ((Ascii (false, true,
         false, false, true, true, true, false)), EmptyString)))))))))))))
  then Some KScalar
  else if str_eqb v
            (b (String ((Ascii (false, false, true, false, true, true, true,
              false)), (String ((Ascii (true, false, false, true, true, true,
              true, false)), (String ((Ascii (false, false, false, false,
              true, true, true, false)), (String ((Ascii (true, false, true,
              false, false, true, true, false)), EmptyString)))))))))
       then Some KObject
       else if str_eqb v
                 (b (String ((Ascii (true, false, false, true, false, true,
                   true, false)), (String ((Ascii (false, true, true, true,
                   false, true, true, false)), (String ((Ascii (false, false,
                   true, false, true, true, true, false)), (String ((Ascii
                   (true, false, true, false, false, true, true, false)),
                   (String ((Ascii (false, true, false, false, true, true,
                   true, false)), (String ((Ascii (false, true, true, false,
                   false, true, true, false)), (String ((Ascii (true, false,
                   false, false, false, true, true, false)), (String ((Ascii
                   (true, true, false, false, false, true, true, false)),
                   (String ((Ascii (true, false, true, false, false, true,
                   true, false)), EmptyString)))))))))))))))))))
            then Some KInterface
            else if str_eqb v
                      (b (String ((Ascii (true, false, true, false, true,
                        true, true, false)), (String ((Ascii (false, true,
                        true, true, false, true, true, false)), (String
                        ((Ascii (true, false, false, true, false, true, true,
                        false)), (String ((Ascii (true, true, true, true,
                        false, true, true, false)), (String ((Ascii (false,
                        true, true, true, false, true, true, false)),
                        EmptyString)))))))))))
                 then Some KUnion
                 else if str_eqb v
                           (b (String ((Ascii (true, false, true, false,
                             false, true, true, false)), (String ((Ascii
                             (false, true, true, true, false, true, true,
                             false)), (String ((Ascii (true, false, true,
                             false, true, true, true, false)), (String
                             ((Ascii (true, false, true, true, false, true,
                             true, false)), EmptyString)))))))))
                      then Some KEnum
                      else if str_eqb v
                                (b (String ((Ascii (true, false, false, true,
                                  false, true, true, false)), (String ((Ascii
                                  (false, true, true, true, false, true,
                                  true, false)), (String ((Ascii (false,
                                  false, false, false, true, true, true,
                                  false)), (String ((Ascii (true, false,
                                  true, false, true, true, true, false)),
                                  (String ((Ascii (false, false, true, false,
                                  true, true, true, false)),
                                  EmptyString)))))))))))
                           then Some KInputObject
                           else None

(** val parseSchemaExtension : dev -> nat -> pst -> schemadef * pst **)

let parseSchemaExtension d fuel s =
  let (_, s1) =
    expectKeyword d
      (b (String ((Ascii (true, true, false, false, true, true, true,
        false)), (String ((Ascii (true, true, false, false, false, true,
        true, false)), (String ((Ascii (false, false, false, true, false,
        true, true, false)), (String ((Ascii (true, false, true, false,
        false, true, true, false)), (String ((Ascii (true, false, true, true,
        false, true, true, false)), (String ((Ascii (true, false, false,
        false, false, true, true, false)), EmptyString))))))))))))) s
  in
  let (p, s2) = peekPos d s1 in
  let (dirs, s3) = parseDirectives d fuel true s2 in
  let (ops, s4) =
    some d (parseOperationTypeDefinition d) fuel BraceL BraceR s3
  in
  let empty =
    match dirs with
    | [] -> (match ops with
             | [] -> true
             | _ :: _ -> false)
    | _ :: _ -> false
  in
  let s5 = if empty then unexpectedError d s4 else s4 in
  ({ sd_desc = []; sd_dirs = dirs; sd_ops = ops; sd_pos = p }, s5)

(** val directive_locations : str list **)

let directive_locations =
  (b (String ((Ascii (true, false, false, false, true, false, true, false)),
    (String ((Ascii (true, false, true, false, true, false, true, false)),
    (String ((Ascii (true, false, true, false, false, false, true, false)),
    (String ((Ascii (false, true, false, false, true, false, true, false)),
    (String ((Ascii (true, false, false, true, true, false, true, false)),
    EmptyString))))))))))) :: ((b (String ((Ascii (true, false, true, true,
                                 false, false, true, false)), (String ((Ascii
                                 (true, false, true, false, true, false,
                                 true, false)), (String ((Ascii (false,
                                 false, true, false, true, false, true,
                                 false)), (String ((Ascii (true, false,
                                 false, false, false, false, true, false)),
                                 (String ((Ascii (false, false, true, false,
                                 true, false, true, false)), (String ((Ascii
                                 (true, false, false, true, false, false,
                                 true, false)), (String ((Ascii (true, true,
                                 true, true, false, false, true, false)),
                                 (String ((Ascii (false, true, true, true,
                                 false, false, true, false)),
                                 EmptyString))))))))))))))))) :: ((b (String
                                                                    ((Ascii
                                                                    (true,
                                                                    true,
                                                                    false,
                                                                    false,
                                                                    true,
                                                                    false,
                                                                    true,
                                                                    false)),
                                                                    (String
                                                                    ((Ascii
                                                                    (true,
                                                                    false,
                                                                    true,
                                                                    false,
                                                                    true,
                                                                    false,
                                                                    true,
                                                                    false)),
                                                                    (String
                                                                    ((Ascii
                                                                    (false,
                                                                    true,
                                                                    false,
                                                                    false,
                                                                    false,
                                                                    false,
                                                                    true,
                                                                    false)),
                                                                    (String
                                                                    ((Ascii
                                                                    (true,
                                                                    true,
                                                                    false,
                                                                    false,
                                                                    true,
                                                                    false,
                                                                    true,
                                                                    false)),
                                                                    (String
                                                                    ((Ascii
                                                                    (true,
                                                                    true,
                                                                    false,
                                                                    false,
                                                                    false,
                                                                    false,
                                                                    true,
                                                                    false)),
                                                                    (String
                                                                    ((Ascii
                                                                    (false,
                                                                    true,
                                                                    false,
                                                                    false,
                                                                    true,
                                                                    false,
                                                                    true,
                                                                    false)),
                                                                    (String
                                                                    ((Ascii
                                                                    (true,
                                                                    false,
                                                                    false,
                                                                    true,
                                                                    false,
                                                                    false,
                                                                    true,
                                                                    false)),
                                                                    (String
                                                                    ((Ascii
                                                                    (false,
                                                                    false,
                                                                    false,
                                                                    false,
                                                                    true,
                                                                    false,
                                                                    true,
                                                                    false)),
                                                                    (String
                                                                    ((Ascii
                                                                    (false,
                                                                    false,
                                                                    true,
                                                                    false,
                                                                    true,
                                                                    false,
                                                                    true,
                                                                    false)),
                                                                    (String
                                                                    ((Ascii
                                                                    (true,
                                                                    false,
                                                                    false,
                                                                    true,
                                                                    false,
                                                                    false,
                                                                    true,
                                                                    false)),
                                                                    (String
                                                                    ((Ascii
                                                                    (true,
                                                                    true,
                                                                    true,
                                                                    true,
                                                                    false,
                                                                    false,
                                                                    true,
                                                                    false)),
                                                                    (String
                                                                    ((Ascii
                                                                    (false,
                                                                    true,
                                                                    true,
                                                                    true,
                                                                    false,
                                                                    false,
                                                                    true,
                                                                    false)),
                                                                    EmptyString))))))))))))))))))))))))) :: (
    (b (String ((Ascii (false, true, true, false, false, false, true,
      false)), (String ((Ascii (true, false, false, true, false, false, true,
      false)), (String ((Ascii (true, false, true, false, false, false, true,
      false)), (String ((Ascii (false, false, true, true, false, false, true,
      false)), (String ((Ascii (false, false, true, false, false, false,
      true, false)), EmptyString))))))))))) :: ((b (String ((Ascii (false,
                                                  true, true, false, false,
                                                  false, true, false)),
                                                  (String ((Ascii (false,
                                                  true, false, false, true,
                                                  false, true, false)),
                                                  (String ((Ascii (true,
                                                  false, false, false, false,
                                                  false, true, false)),
                                                  (String ((Ascii (true,
                                                  true, true, false, false,
                                                  false, true, false)),
                                                  (String ((Ascii (true,
                                                  false, true, true, false,
                                                  false, true, false)),
                                                  (String ((Ascii (true,
                                                  false, true, false, false,
                                                  false, true, false)),
                                                  (String ((Ascii (false,
                                                  true, true, true, false,
                                                  false, true, false)),
                                                  (String ((Ascii (false,
                                                  false, true, false, true,
                                                  false, true, false)),
                                                  (String ((Ascii (true,
                                                  true, true, true, true,
                                                  false, true, false)),
                                                  (String ((Ascii (false,
                                                  false, true, false, false,
                                                  false, true, false)),
                                                  (String ((Ascii (true,
                                                  false, true, false, false,
                                                  false, true, false)),
                                                  (String ((Ascii (false,
                                                  true, true, false, false,
                                                  false, true, false)),
                                                  (String ((Ascii (true,
                                                  false, false, true, false,
                                                  false, true, false)),
                                                  (String ((Ascii (false,
                                                  true, true, true, false,
                                                  false, true, false)),
                                                  (String ((Ascii (true,
                                                  false, false, true, false,
                                                  false, true, false)),
                                                  (String ((Ascii (false,
                                                  false, true, false, true,
                                                  false, true, false)),
                                                  (String ((Ascii (true,
                                                  false, false, true, false,
                                                  false, true, false)),
                                                  (String ((Ascii (true,
                                                  true, true, true, false,
                                                  false, true, false)),
                                                  (String ((Ascii (false,
                                                  true, true, true, false,
                                                  false, true, false)),
                                                  EmptyString))))))))))))))))))))))))))))))))))))))) :: (
    (b (String ((Ascii (false, true, true, false, false, false, true,
      false)), (String ((Ascii (false, true, false, false, true, false, true,
      false)), (String ((Ascii (true, false, false, false, false, false,
      true, false)), (String ((Ascii (true, true, true, false, false, false,
      true, false)), (String ((Ascii (true, false, true, true, false, false,
      true, false)), (String ((Ascii (true, false, true, false, false, false,
      true, false)), (String ((Ascii (false, true, true, true, false, false,
      true, false)), (String ((Ascii (false, false, true, false, true, false,
      true, false)), (String ((Ascii (true, true, true, true, true, false,
      true, false)), (String ((Ascii (true, true, false, false, true, false,
      true, false)), (String ((Ascii (false, false, false, false, true,
      false, true, false)), (String ((Ascii (false, true, false, false, true,
      false, true, false)), (String ((Ascii (true, false, true, false, false,
      false, true, false)), (String ((Ascii (true, false, false, false,
      false, false, true, false)), (String ((Ascii (false, false, true,
      false, false, false, true, false)),
      EmptyString))))))))))))))))))))))))))))))) :: ((b (String ((Ascii
                                                       (true, false, false,
                                                       true, false, false,
                                                       true, false)), (String
                                                       ((Ascii (false, true,
                                                       true, true, false,
                                                       false, true, false)),
                                                       (String ((Ascii
                                                       (false, false, true,
                                                       true, false, false,
                                                       true, false)), (String
                                                       ((Ascii (true, false,
                                                       false, true, false,
                                                       false, true, false)),
                                                       (String ((Ascii
                                                       (false, true, true,
                                                       true, false, false,
                                                       true, false)), (String
                                                       ((Ascii (true, false,
                                                       true, false, false,
                                                       false, true, false)),
                                                       (String ((Ascii (true,
                                                       true, true, true,
                                                       true, false, true,
                                                       false)), (String
                                                       ((Ascii (false, true,
                                                       true, false, false,
                                                       false, true, false)),
                                                       (String ((Ascii
                                                       (false, true, false,
                                                       false, true, false,
                                                       true, false)), (String
                                                       ((Ascii (true, false,
                                                       false, false, false,
                                                       false, true, false)),
                                                       (String ((Ascii (true,
                                                       true, true, false,
                                                       false, false, true,
                                                       false)), (String
                                                       ((Ascii (true, false,
                                                       true, true, false,
                                                       false, true, false)),
                                                       (String ((Ascii (true,
                                                       false, true, false,
                                                       false, false, true,
                                                       false)), (String
                                                       ((Ascii (false, true,
                                                       true, true, false,
                                                       false, true, false)),
                                                       (String ((Ascii
                                                       (false, false, true,
                                                       false, true, false,
                                                       true, false)),
                                                       EmptyString))))))))))))))))))))))))))))))) :: (
    (b (String ((Ascii (false, true, true, false, true, false, true, false)),
      (String ((Ascii (true, false, false, false, false, false, true,
      false)), (String ((Ascii (false, true, false, false, true, false, true,
      false)), (String ((Ascii (true, false, false, true, false, false, true,
      false)), (String ((Ascii (true, false, false, false, false, false,
      true, false)), (String ((Ascii (false, true, false, false, false,
      false, true, false)), (String ((Ascii (false, false, true, true, false,
      false, true, false)), (String ((Ascii (true, false, true, false, false,
      false, true, false)), (String ((Ascii (true, true, true, true, true,
      false, true, false)), (String ((Ascii (false, false, true, false,
      false, false, true, false)), (String ((Ascii (true, false, true, false,
      false, false, true, false)), (String ((Ascii (false, true, true, false,
      false, false, true, false)), (String ((Ascii (true, false, false, true,
      false, false, true, false)), (String ((Ascii (false, true, true, true,
      false, false, true, false)), (String ((Ascii (true, false, false, true,
      false, false, true, false)), (String ((Ascii (false, false, true,
      false, true, false, true, false)), (String ((Ascii (true, false, false,
      true, false, false, true, false)), (String ((Ascii (true, true, true,
      true, false, false, true, false)), (String ((Ascii (false, true, true,
      true, false, false, true, false)),
      EmptyString))))))))))))))))))))))))))))))))))))))) :: ((b (String
                                                               ((Ascii (true,
                                                               true, false,
                                                               false, true,
                                                               false, true,
                                                               false)),
                                                               (String
                                                               ((Ascii (true,
                                                               true, false,
                                                               false, false,
                                                               false, true,
                                                               false)),
                                                               (String
                                                               ((Ascii
                                                               (false, false,
                                                               false, true,
                                                               false, false,
                                                               true, false)),
                                                               (String
                                                               ((Ascii (true,
                                                               false, true,
                                                               false, false,
                                                               false, true,
                                                               false)),
                                                               (String
                                                               ((Ascii (true,
                                                               false, true,
                                                               true, false,
                                                               false, true,
                                                               false)),
                                                               (String
                                                               ((Ascii (true,
                                                               false, false,
                                                               false, false,
                                                               false, true,
                                                               false)),
                                                               EmptyString))))))))))))) :: (
    (b (String ((Ascii (true, true, false, false, true, false, true, false)),
      (String ((Ascii (true, true, false, false, false, false, true, false)),
      (String ((Ascii (true, false, false, false, false, false, true,
      false)), (String ((Ascii (false, false, true, true, false, false, true,
      false)), (String ((Ascii (true, false, false, false, false, false,
      true, false)), (String ((Ascii (false, true, false, false, true, false,
      true, false)), EmptyString))))))))))))) :: ((b (String ((Ascii (true,
                                                    true, true, true, false,
                                                    false, true, false)),
                                                    (String ((Ascii (false,
                                                    true, false, false,
                                                    false, false, true,
                                                    false)), (String ((Ascii
                                                    (false, true, false,
                                                    true, false, false, true,
                                                    false)), (String ((Ascii
                                                    (true, false, true,
                                                    false, false, false,
                                                    true, false)), (String
                                                    ((Ascii (true, true,
                                                    false, false, false,
                                                    false, true, false)),
                                                    (String ((Ascii (false,
                                                    false, true, false, true,
                                                    false, true, false)),
                                                    EmptyString))))))))))))) :: (
    (b (String ((Ascii (false, true, true, false, false, false, true,
      false)), (String ((Ascii (true, false, false, true, false, false, true,
      false)), (String ((Ascii (true, false, true, false, false, false, true,
      false)), (String ((Ascii (false, false, true, true, false, false, true,
      false)), (String ((Ascii (false, false, true, false, false, false,
      true, false)), (String ((Ascii (true, true, true, true, true, false,
      true, false)), (String ((Ascii (false, false, true, false, false,
      false, true, false)), (String ((Ascii (true, false, true, false, false,
      false, true, false)), (String ((Ascii (false, true, true, false, false,
      false, true, false)), (String ((Ascii (true, false, false, true, false,
      false, true, false)), (String ((Ascii (false, true, true, true, false,
      false, true, false)), (String ((Ascii (true, false, false, true, false,
      false, true, false)), (String ((Ascii (false, false, true, false, true,
      false, true, false)), (String ((Ascii (true, false, false, true, false,
      false, true, false)), (String ((Ascii (true, true, true, true, false,
      false, true, false)), (String ((Ascii (false, true, true, true, false,
      false, true, false)), EmptyString))))))))))))))))))))))))))))))))) :: (
    (b (String ((Ascii (true, false, false, false, false, false, true,
      false)), (String ((Ascii (false, true, false, false, true, false, true,
      false)), (String ((Ascii (true, true, true, false, false, false, true,
      false)), (String ((Ascii (true, false, true, false, true, false, true,
      false)), (String ((Ascii (true, false, true, true, false, false, true,
      false)), (String ((Ascii (true, false, true, false, false, false, true,
      false)), (String ((Ascii (false, true, true, true, false, false, true,
      false)), (String ((Ascii (false, false, true, false, true, false, true,
      false)), (String ((Ascii (true, true, true, true, true, false, true,
      false)), (String ((Ascii (false, false, true, false, false, false,
      true, false)), (String ((Ascii (true, false, true, false, false, false,
      true, false)), (String ((Ascii (false, true, true, false, false, false,
      true, false)), (String ((Ascii (true, false, false, true, false, false,
      true, false)), (String ((Ascii (false, true, true, true, false, false,
      true, false)), (String ((Ascii (true, false, false, true, false, false,
      true, false)), (String ((Ascii (false, false, true, false, true, false,
      true, false)), (String ((Ascii (true, false, false, true, false, false,
      true, false)), (String ((Ascii (true, true, true, true, false, false,
      true, false)), (String ((Ascii (false, true, true, true, false, false,
      true, false)), EmptyString))))))))))))))))))))))))))))))))))))))) :: (
    (b (String ((Ascii (true, false, false, true, false, false, true,
      false)), (String ((Ascii (false, true, true, true, false, false, true,
      false)), (String ((Ascii (false, false, true, false, true, false, true,
      false)), (String ((Ascii (true, false, true, false, false, false, true,
      false)), (String ((Ascii (false, true, false, false, true, false, true,
      false)), (String ((Ascii (false, true, true, false, false, false, true,
      false)), (String ((Ascii (true, false, false, false, false, false,
      true, false)), (String ((Ascii (true, true, false, false, false, false,
      true, false)), (String ((Ascii (true, false, true, false, false, false,
      true, false)), EmptyString))))))))))))))))))) :: ((b (String ((Ascii
                                                          (true, false, true,
                                                          false, true, false,
                                                          true, false)),
                                                          (String ((Ascii
                                                          (false, true, true,
                                                          true, false, false,
                                                          true, false)),
                                                          (String ((Ascii
                                                          (true, false,
                                                          false, true, false,
                                                          false, true,
                                                          false)), (String
                                                          ((Ascii (true,
                                                          true, true, true,
                                                          false, false, true,
                                                          false)), (String
                                                          ((Ascii (false,
                                                          true, true, true,
                                                          false, false, true,
                                                          false)),
                                                          EmptyString))))))))))) :: (
    (b (String ((Ascii (true, false, true, false, false, false, true,
      false)), (String ((Ascii (false, true, true, true, false, false, true,
      false)), (String ((Ascii (true, false, true, false, true, false, true,
      false)), (String ((Ascii (true, false, true, true, false, false, true,
      false)), EmptyString))))))))) :: ((b (String ((Ascii (true, false,
                                          true, false, false, false, true,
                                          false)), (String ((Ascii (false,
                                          true, true, true, false, false,
                                          true, false)), (String ((Ascii
                                          (true, false, true, false, true,
                                          false, true, false)), (String
                                          ((Ascii (true, false, true, true,
                                          false, false, true, false)),
                                          (String ((Ascii (true, true, true,
                                          true, true, false, true, false)),
                                          (String ((Ascii (false, true, true,
                                          false, true, false, true, false)),
                                          (String ((Ascii (true, false,
                                          false, false, false, false, true,
                                          false)), (String ((Ascii (false,
                                          false, true, true, false, false,
                                          true, false)), (String ((Ascii
                                          (true, false, true, false, true,
                                          false, true, false)), (String
                                          ((Ascii (true, false, true, false,
                                          false, false, true, false)),
                                          EmptyString))))))))))))))))))))) :: (
    (b (String ((Ascii (true, false, false, true, false, false, true,
      false)), (String ((Ascii (false, true, true, true, false, false, true,
      false)), (String ((Ascii (false, false, false, false, true, false,
      true, false)), (String ((Ascii (true, false, true, false, true, false,
      true, false)), (String ((Ascii (false, false, true, false, true, false,
      true, false)), (String ((Ascii (true, true, true, true, true, false,
      true, false)), (String ((Ascii (true, true, true, true, false, false,
      true, false)), (String ((Ascii (false, true, false, false, false,
      false, true, false)), (String ((Ascii (false, true, false, true, false,
      false, true, false)), (String ((Ascii (true, false, true, false, false,
      false, true, false)), (String ((Ascii (true, true, false, false, false,
      false, true, false)), (String ((Ascii (false, false, true, false, true,
      false, true, false)), EmptyString))))))))))))))))))))))))) :: (
    (b (String ((Ascii (true, false, false, true, false, false, true,
      false)), (String ((Ascii (false, true, true, true, false, false, true,
      false)), (String ((Ascii (false, false, false, false, true, false,
      true, false)), (String ((Ascii (true, false, true, false, true, false,
      true, false)), (String ((Ascii (false, false, true, false, true, false,
      true, false)), (String ((Ascii (true, true, true, true, true, false,
      true, false)), (String ((Ascii (false, true, true, false, false, false,
      true, false)), (String ((Ascii (true, false, false, true, false, false,
      true, false)), (String ((Ascii (true, false, true, false, false, false,
      true, false)), (String ((Ascii (false, false, true, true, false, false,
      true, false)), (String ((Ascii (false, false, true, false, false,
      false, true, false)), (String ((Ascii (true, true, true, true, true,
      false, true, false)), (String ((Ascii (false, false, true, false,
      false, false, true, false)), (String ((Ascii (true, false, true, false,
      false, false, true, false)), (String ((Ascii (false, true, true, false,
      false, false, true, false)), (String ((Ascii (true, false, false, true,
      false, false, true, false)), (String ((Ascii (false, true, true, true,
      false, false, true, false)), (String ((Ascii (true, false, false, true,
      false, false, true, false)), (String ((Ascii (false, false, true,
      false, true, false, true, false)), (String ((Ascii (true, false, false,
      true, false, false, true, false)), (String ((Ascii (true, true, true,
      true, false, false, true, false)), (String ((Ascii (false, true, true,
      true, false, false, true, false)),
      EmptyString))))))))))))))))))))))))))))))))))))))))))))) :: []))))))))))))))))))

(** val parseDirectiveLocation : dev -> pst -> str * pst **)

let parseDirectiveLocation d s =
  let (tok, s1) = expect d Name s in
  if existsb (str_eqb tok.tval) directive_locations
  then (tok.tval, s1)
  else ([], (error_at s1 tok))

(** val dirlocs_loop : dev -> nat -> pst -> str list -> str list * pst **)

let rec dirlocs_loop d fuel s acc =
  match fuel with
  | O -> stall (rev acc) s
  | S f ->
    let (has, s1) = skip d Pipe s in
    if (&&) has (negb (has_err s1))
    then let (n0, s2) = parseDirectiveLocation d s1 in
         dirlocs_loop d f s2 (n0 :: acc)
    else ((rev acc), s1)

(** val parseDirectiveDefinition :
    dev -> nat -> str -> pst -> dirdef * pst **)

let parseDirectiveDefinition d fuel desc s =
  let (_, s1) =
    expectKeyword d
      (b (String ((Ascii (false, false, true, false, false, true, true,
        false)), (String ((Ascii (true, false, false, true, false, true,
        true, false)), (String ((Ascii (false, true, false, false, true,
        true, true, false)), (String ((Ascii (true, false, true, false,
        false, true, true, false)), (String ((Ascii (true, true, false,
        false, false, true, true, false)), (String ((Ascii (false, false,
        true, false, true, true, true, false)), (String ((Ascii (true, false,
        false, true, false, true, true, false)), (String ((Ascii (false,
        true, true, false, true, true, true, false)), (String ((Ascii (true,
        false, true, false, false, true, true, false)),
        EmptyString))))))))))))))))))) s
  in
  let (_, s2) = expect d At s1 in
  let (p, s3) = peekPos d s2 in
  let (n0, s4) = parseName d s3 in
  let (args, s5) = parseArgumentDefs d fuel s4 in
  let (pk, s6) = peek d s5 in
  if is_kw pk
       (b (String ((Ascii (false, true, false, false, true, true, true,
         false)), (String ((Ascii (true, false, true, false, false, true,
         true, false)), (String ((Ascii (false, false, false, false, true,
         true, true, false)), (String ((Ascii (true, false, true, false,
         false, true, true, false)), (String ((Ascii (true, false, false,
         false, false, true, true, false)), (String ((Ascii (false, false,
         true, false, true, true, true, false)), (String ((Ascii (true,
         false, false, false, false, true, true, false)), (String ((Ascii
         (false, true, false, false, false, true, true, false)), (String
         ((Ascii (false, false, true, true, false, true, true, false)),
         (String ((Ascii (true, false, true, false, false, true, true,
         false)), EmptyString)))))))))))))))))))))
  then let rep = true in
       let s7 = snd (skip d Name s6) in
       let (_, s8) =
         expectKeyword d
           (b (String ((Ascii (true, true, true, true, false, true, true,
             false)), (String ((Ascii (false, true, true, true, false, true,
             true, false)), EmptyString))))) s7
       in
       let (_, s9) = skip d Pipe s8 in
       let (l0, s10) = parseDirectiveLocation d s9 in
       let (locs, s11) = dirlocs_loop d fuel s10 (l0 :: []) in
       ({ dd_desc = desc; dd_name = n0; dd_args = args; dd_locs = locs;
       dd_repeatable = rep; dd_pos = p }, s11)
  else let rep = false in
       let (_, s8) =
         expectKeyword d
           (b (String ((Ascii (true, true, true, true, false, true, true,
             false)), (String ((Ascii (false, true, true, true, false, true,
             true, false)), EmptyString))))) s6
       in
       let (_, s9) = skip d Pipe s8 in
       let (l0, s10) = parseDirectiveLocation d s9 in
       let (locs, s11) = dirlocs_loop d fuel s10 (l0 :: []) in
       ({ dd_desc = desc; dd_name = n0; dd_args = args; dd_locs = locs;
       dd_repeatable = rep; dd_pos = p }, s11)

(** val add_ext : sdoc -> definition -> sdoc **)

let add_ext doc x =
  { s_schema = doc.s_schema; s_schemaext = doc.s_schemaext; s_dirs =
    doc.s_dirs; s_defs = doc.s_defs; s_exts = (x :: doc.s_exts); s_pos =
    doc.s_pos }

(** val parseSchemaDocument_loop :
    dev -> nat -> nat -> pst -> sdoc -> sdoc option * pst **)

let rec parseSchemaDocument_loop d loopfuel fuel s doc =
  match loopfuel with
  | O -> stall None s
  | S lf ->
    let (tok, s1) = peek d s in
    if kind_eqb tok.tkind EOF
    then ((Some doc), s1)
    else if has_err s1
         then (None, s1)
         else let (pk, s2) = peek d s1 in
              let (p, s3) =
                if (||) (kind_eqb pk.tkind BlockString)
                     (kind_eqb pk.tkind String_)
                then parseDescription d s2
                else (([], false), s2)
              in
              let (desc, hasdesc) = p in
              let (tk, s4) = peek d s3 in
              if negb (kind_eqb tk.tkind Name)
              then ((Some doc), (unexpectedError d s4))
              else (match type_keyword tk.tval with
                    | Some k ->
                      let (x, s5) =
                        parseTypeDef d fuel k tk.tval false desc s4
                      in
                      parseSchemaDocument_loop d lf fuel s5 { s_schema =
                        doc.s_schema; s_schemaext = doc.s_schemaext; s_dirs =
                        doc.s_dirs; s_defs = (x :: doc.s_defs); s_exts =
                        doc.s_exts; s_pos = doc.s_pos }
                    | None ->
                      if str_eqb tk.tval
                           (b (String ((Ascii (true, true, false, false,
                             true, true, true, false)), (String ((Ascii
                             (true, true, false, false, false, true, true,
                             false)), (String ((Ascii (false, false, false,
                             true, false, true, true, false)), (String
                             ((Ascii (true, false, true, false, false, true,
                             true, false)), (String ((Ascii (true, false,
                             true, true, false, true, true, false)), (String
                             ((Ascii (true, false, false, false, false, true,
                             true, false)), EmptyString)))))))))))))
                      then let (x, s5) = parseSchemaDefinition d fuel desc s4
                           in
                           parseSchemaDocument_loop d lf fuel s5 { s_schema =
                             (x :: doc.s_schema); s_schemaext =
                             doc.s_schemaext; s_dirs = doc.s_dirs; s_defs =
                             doc.s_defs; s_exts = doc.s_exts; s_pos =
                             doc.s_pos }
                      else if str_eqb tk.tval
                                (b (String ((Ascii (false, false, true,
                                  false, false, true, true, false)), (String
                                  ((Ascii (true, false, false, true, false,
                                  true, true, false)), (String ((Ascii
                                  (false, true, false, false, true, true,
                                  true, false)), (String ((Ascii (true,
                                  false, true, false, false, true, true,
                                  false)), (String ((Ascii (true, true,
                                  false, false, false, true, true, false)),
                                  (String ((Ascii (false, false, true, false,
                                  true, true, true, false)), (String ((Ascii
                                  (true, false, false, true, false, true,
                                  true, false)), (String ((Ascii (false,
                                  true, true, false, true, true, true,
                                  false)), (String ((Ascii (true, false,
                                  true, false, false, true, true, false)),
                                  EmptyString)))))))))))))))))))
                           then let (x, s5) =
                                  parseDirectiveDefinition d fuel desc s4
                                in
                                parseSchemaDocument_loop d lf fuel s5
                                  { s_schema = doc.s_schema; s_schemaext =
                                  doc.s_schemaext; s_dirs =
                                  (x :: doc.s_dirs); s_defs = doc.s_defs;
                                  s_exts = doc.s_exts; s_pos = doc.s_pos }
                           else if str_eqb tk.tval
                                     (b (String ((Ascii (true, false, true,
                                       false, false, true, true, false)),
                                       (String ((Ascii (false, false, false,
                                       true, true, true, true, false)),
                                       (String ((Ascii (false, false, true,
                                       false, true, true, true, false)),
                                       (String ((Ascii (true, false, true,
                                       false, false, true, true, false)),
                                       (String ((Ascii (false, true, true,
                                       true, false, true, true, false)),
                                       (String ((Ascii (false, false, true,
                                       false, false, true, true, false)),
                                       EmptyString)))))))))))))
                                then let bad =
                                       if d F_S6
                                       then negb
                                              (match desc with
                                               | [] -> true
                                               | _ :: _ -> false)
                                       else hasdesc
                                     in
                                     let s5 =
                                       if bad then error_at s4 s4.prev else s4
                                     in
                                     let (_, s6) =
                                       expectKeyword d
                                         (b (String ((Ascii (true, false,
                                           true, false, false, true, true,
                                           false)), (String ((Ascii (false,
                                           false, false, true, true, true,
                                           true, false)), (String ((Ascii
                                           (false, false, true, false, true,
                                           true, true, false)), (String
                                           ((Ascii (true, false, true, false,
                                           false, true, true, false)),
                                           (String ((Ascii (false, true,
                                           true, true, false, true, true,
                                           false)), (String ((Ascii (false,
                                           false, true, false, false, true,
                                           true, false)),
                                           EmptyString))))))))))))) s5
                                     in
                                     let (ek, s7) = peek d s6 in
                                     if str_eqb ek.tval
                                          (b (String ((Ascii (true, true,
                                            false, false, true, true, true,
                                            false)), (String ((Ascii (true,
                                            true, false, false, false, true,
                                            true, false)), (String ((Ascii
                                            (false, false, false, true,
                                            false, true, true, false)),
                                            (String ((Ascii (true, false,
                                            true, false, false, true, true,
                                            false)), (String ((Ascii (true,
                                            false, true, true, false, true,
                                            true, false)), (String ((Ascii
                                            (true, false, false, false,
                                            false, true, true, false)),
                                            EmptyString)))))))))))))
                                     then let (x, s8) =
                                            parseSchemaExtension d fuel s7
                                          in
                                          parseSchemaDocument_loop d lf fuel
                                            s8 { s_schema = doc.s_schema;
                                            s_schemaext =
                                            (x :: doc.s_schemaext); s_dirs =
                                            doc.s_dirs; s_defs = doc.s_defs;
                                            s_exts = doc.s_exts; s_pos =
                                            doc.s_pos }
                                     else (match type_keyword ek.tval with
                                           | Some k ->
                                             let (x, s8) =
                                               parseTypeDef d fuel k ek.tval
                                                 true [] s7
                                             in
                                             parseSchemaDocument_loop d lf
                                               fuel s8 (add_ext doc x)
                                           | None ->
                                             parseSchemaDocument_loop d lf
                                               fuel (unexpectedError d s7) doc)
                                else (None, (unexpectedError d s4)))

(** val set_builtin : bool -> definition -> definition **)

let set_builtin bi x =
  { df_kind = x.df_kind; df_desc = x.df_desc; df_name = x.df_name; df_dirs =
    x.df_dirs; df_ifaces = x.df_ifaces; df_fields = x.df_fields; df_types =
    x.df_types; df_enums = x.df_enums; df_pos = x.df_pos; df_builtin = bi }

(** val parseSchemaDocument : dev -> nat -> pst -> sdoc option * pst **)

let parseSchemaDocument d fuel s =
  let (p, s1) = peekPos d s in
  let (od, s2) =
    parseSchemaDocument_loop d fuel fuel s1 { s_schema = []; s_schemaext =
      []; s_dirs = []; s_defs = []; s_exts = []; s_pos = (Some p) }
  in
  (match od with
   | Some doc ->
     let doc' = { s_schema = (rev doc.s_schema); s_schemaext =
       (rev doc.s_schemaext); s_dirs = (rev doc.s_dirs); s_defs =
       (rev doc.s_defs); s_exts = (rev doc.s_exts); s_pos = doc.s_pos }
     in
     let isempty =
       match doc'.s_schema with
       | [] ->
         (match doc'.s_schemaext with
          | [] ->
            (match doc'.s_dirs with
             | [] ->
               (match doc'.s_defs with
                | [] -> (match doc'.s_exts with
                         | [] -> true
                         | _ :: _ -> false)
                | _ :: _ -> false)
             | _ :: _ -> false)
          | _ :: _ -> false)
       | _ :: _ -> false
     in
     if (&&) ((&&) isempty (negb (d F_S7))) (negb (has_err s2))
     then ((Some doc'), (unexpectedError d s2))
     else ((Some doc'), s2)
   | None -> (None, s2))

(** val parseSchemaWith :
    dev -> nat -> n -> n -> bool -> str -> sdoc pres * pst **)

let parseSchemaWith d fuel limit srcix builtin input =
  let (od, s) = parseSchemaDocument d fuel (pst_init input limit srcix) in
  (match s.perr_ with
   | Some e -> ((PErr e), s)
   | None ->
     (match od with
      | Some doc ->
        ((POk { s_schema = doc.s_schema; s_schemaext = doc.s_schemaext;
          s_dirs = doc.s_dirs; s_defs =
          (map (set_builtin builtin) doc.s_defs); s_exts =
          (map (set_builtin builtin) doc.s_exts); s_pos = doc.s_pos }), s)
      | None -> ((PErr PStall), s)))

(** val parseSchema : dev -> n -> n -> bool -> str -> sdoc pres **)

let parseSchema d limit srcix builtin input =
  fst (parseSchemaWith d (query_fuel input) limit srcix builtin input)

(** val dump_parse_schema : dev -> bool -> n -> bool -> str -> str **)

let dump_parse_schema d wp limit builtin input =
  match parseSchema d limit N0 builtin input with
  | POk doc ->
    app
      (b (String ((Ascii (true, true, true, true, false, true, true, false)),
        (String ((Ascii (true, true, false, true, false, true, true, false)),
        (String ((Ascii (false, false, false, false, false, true, false,
        false)), EmptyString))))))) (dump_sdoc wp doc)
  | PErr e -> dump_perr e
