(* Line protocol around the extracted model.
   request : <mode> <op> <hexarg>...      mode = n (dev_none) | c (dev_current)
   first line of a session: flags <id>...  (ids of the known deviation flags)
   reply   : one line of raw bytes produced by the model's dump function *)
module M = Model
open M [@@warning "-33"]
type string = Stdlib.String.t

let rec pos_of_int n =
  if n = 1 then XH else if n land 1 = 1 then XI (pos_of_int (n lsr 1)) else XO (pos_of_int (n lsr 1))
let n_of_int n = if n = 0 then N0 else Npos (pos_of_int n)
let rec int_of_pos = function XH -> 1 | XO p -> 2 * int_of_pos p | XI p -> 2 * int_of_pos p + 1
let int_of_n = function N0 -> 0 | Npos p -> int_of_pos p
let rec nat_of_int n = if n = 0 then O else S (nat_of_int (n - 1))
let tbl = Array.init 256 n_of_int

let hexv c = match c with
  | '0'..'9' -> Char.code c - 48 | 'a'..'f' -> Char.code c - 87 | 'A'..'F' -> Char.code c - 55
  | _ -> failwith "hex"
let bytes_of_hex (s : string) : n list =
  let len = String.length s / 2 in
  let rec go i acc = if i < 0 then acc else go (i - 1) (tbl.(hexv s.[2*i] * 16 + hexv s.[2*i+1]) :: acc) in
  if s = "-" then [] else go (len - 1) []
let out_bytes (l : n list) =
  let bf = Buffer.create 256 in
  List.iter (fun c -> let k = int_of_n c in Buffer.add_char bf (Char.chr (k land 255))) l;
  Buffer.contents bf

let str_of_hex (s : string) : string =
  if s = "-" then "" else
  Stdlib.String.init (Stdlib.String.length s / 2) (fun i -> Char.chr (hexv s.[2*i] * 16 + hexv s.[2*i+1]))

let cur_flags = ref []
let dev_of mode = if mode = "n" then dev_of_ids [] else dev_of_ids !cur_flags

let pre_n = lazy (parse_prelude (dev_of_ids []))
let pre_c = ref None
let prelude mode =
  if mode = "n" then Lazy.force pre_n
  else match !pre_c with
    | Some p -> p
    | None -> let p = parse_prelude (dev_of_ids !cur_flags) in pre_c := Some p; p

let handle mode op args =
  let d = dev_of mode in
  match op, args with
  | "lex", [a] -> out_bytes (dump_lex d (bytes_of_hex a))
  | "bsv", [a] -> out_bytes (blockStringValue d (bytes_of_hex a)) |> fun s ->
      String.concat "" (List.map (fun c -> Printf.sprintf "%02x" (Char.code c)) (List.init (String.length s) (String.get s)))
  | "pq", [wp; lim; a] ->
      out_bytes (dump_parse_query d (str_of_hex wp = "1") (n_of_int (int_of_string (str_of_hex lim))) (bytes_of_hex a))
  | "ps", [wp; lim; bi; a] ->
      out_bytes (dump_parse_schema d (str_of_hex wp = "1") (n_of_int (int_of_string (str_of_hex lim)))
                   (str_of_hex bi = "1") (bytes_of_hex a))
  | "pss", wp :: lim :: srcs ->
      out_bytes (dump_parse_schemas d (str_of_hex wp = "1") (n_of_int (int_of_string (str_of_hex lim))) (List.map bytes_of_hex srcs))
  | "json", [a] -> out_bytes (dump_json_roundtrip d (bytes_of_hex a))
  | "fq", [fl; ind; a] -> out_bytes (dump_format_query d (mk_fopts (bytes_of_hex fl) (bytes_of_hex ind)) (bytes_of_hex a))
  | "fs", [fl; ind; bi; a] ->
      out_bytes (dump_format_schema d (mk_fopts (bytes_of_hex fl) (bytes_of_hex ind)) (str_of_hex bi = "1") (bytes_of_hex a))
  | "fsl", fl :: ind :: srcs ->
      out_bytes (dump_format_loaded d (mk_fopts (bytes_of_hex fl) (bytes_of_hex ind)) (prelude mode) (List.map bytes_of_hex srcs))
  | "load", srcs -> out_bytes (dump_load_with d (prelude mode) (List.map bytes_of_hex srcs))
  | "val", rules :: q :: srcs ->
      out_bytes (dump_validate_with d (prelude mode) (bytes_of_hex rules) (bytes_of_hex q) (List.map bytes_of_hex srcs))
  | "link", q :: srcs -> out_bytes (dump_link_with d (prelude mode) (bytes_of_hex q) (List.map bytes_of_hex srcs))
  | "vars", q :: vs :: srcs ->
      out_bytes (dump_vars_with d (prelude mode) (bytes_of_hex q) (bytes_of_hex vs) (List.map bytes_of_hex srcs))
  | "argmap", m :: q :: vs :: srcs ->
      out_bytes (dump_argmap_with d (prelude mode) (bytes_of_hex m) (bytes_of_hex q) (bytes_of_hex vs) (List.map bytes_of_hex srcs))
  | "path", [a] -> out_bytes (dump_path_roundtrip (bytes_of_hex a))
  | _ -> "BADOP"

let () =
  try
    while true do
      let line = input_line stdin in
      let parts = String.split_on_char ' ' line in
      (match parts with
       | "flags" :: ids ->
         cur_flags := List.map (fun s -> n_of_int (int_of_string s)) (List.filter (fun s -> s <> "") ids);
         print_string "ok\n"
       | mode :: op :: args ->
         let r = (try handle mode op args with e -> "EXC " ^ Printexc.to_string e) in
         print_string r; print_char '\n'
       | _ -> print_string "BAD\n");
      flush stdout
    done
  with End_of_file -> ()
