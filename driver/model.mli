
val negb : bool -> bool

type nat =
| O
| S of nat

type ('a, 'b) sum =
| Inl of 'a
| Inr of 'b

val fst : ('a1 * 'a2) -> 'a1

val snd : ('a1 * 'a2) -> 'a2

val length : 'a1 list -> nat

val app : 'a1 list -> 'a1 list -> 'a1 list

type comparison =
| Eq
| Lt
| Gt

val compOpp : comparison -> comparison

val add : nat -> nat -> nat

val sub : nat -> nat -> nat

module Nat :
 sig
  val leb : nat -> nat -> bool
 end

val tl : 'a1 list -> 'a1 list

val rev : 'a1 list -> 'a1 list

val rev_append : 'a1 list -> 'a1 list -> 'a1 list

val concat : 'a1 list list -> 'a1 list

val map : ('a1 -> 'a2) -> 'a1 list -> 'a2 list

val existsb : ('a1 -> bool) -> 'a1 list -> bool

val firstn : nat -> 'a1 list -> 'a1 list

val skipn : nat -> 'a1 list -> 'a1 list

val repeat : 'a1 -> nat -> 'a1 list

type positive =
| XI of positive
| XO of positive
| XH

type n =
| N0
| Npos of positive

type z =
| Z0
| Zpos of positive
| Zneg of positive

module Pos :
 sig
  type mask =
  | IsNul
  | IsPos of positive
  | IsNeg
 end

module Coq_Pos :
 sig
  val succ : positive -> positive

  val add : positive -> positive -> positive

  val add_carry : positive -> positive -> positive

  val pred_double : positive -> positive

  type mask = Pos.mask =
  | IsNul
  | IsPos of positive
  | IsNeg

  val succ_double_mask : mask -> mask

  val double_mask : mask -> mask

  val double_pred_mask : positive -> mask

  val sub_mask : positive -> positive -> mask

  val sub_mask_carry : positive -> positive -> mask

  val mul : positive -> positive -> positive

  val size : positive -> positive

  val compare_cont : comparison -> positive -> positive -> comparison

  val compare : positive -> positive -> comparison

  val eqb : positive -> positive -> bool

  val iter_op : ('a1 -> 'a1 -> 'a1) -> positive -> 'a1 -> 'a1

  val to_nat : positive -> nat

  val of_succ_nat : nat -> positive
 end

module N :
 sig
  val succ_double : n -> n

  val double : n -> n

  val add : n -> n -> n

  val sub : n -> n -> n

  val mul : n -> n -> n

  val compare : n -> n -> comparison

  val eqb : n -> n -> bool

  val leb : n -> n -> bool

  val ltb : n -> n -> bool

  val size : n -> n

  val pos_div_eucl : positive -> n -> n * n

  val div_eucl : n -> n -> n * n

  val div : n -> n -> n

  val modulo : n -> n -> n

  val to_nat : n -> nat
 end

type ascii =
| Ascii of bool * bool * bool * bool * bool * bool * bool * bool

val n_of_digits : bool list -> n

val n_of_ascii : ascii -> n

module Z :
 sig
  val double : z -> z

  val succ_double : z -> z

  val pred_double : z -> z

  val pos_sub : positive -> positive -> z

  val add : z -> z -> z

  val opp : z -> z

  val sub : z -> z -> z

  val compare : z -> z -> comparison

  val ltb : z -> z -> bool

  val eqb : z -> z -> bool

  val to_nat : z -> nat

  val of_nat : nat -> z
 end

type string =
| EmptyString
| String of ascii * string

val list_ascii_of_string : string -> ascii list

type str = n list

val b : string -> str

val str_eqb : str -> str -> bool

val in_range : n -> n -> n -> bool

val is_digit : n -> bool

val is_lower : n -> bool

val is_upper : n -> bool

val is_letter : n -> bool

val is_name_start : n -> bool

val is_name_cont : n -> bool

type flag =
| F_L1
| F_L2
| F_L3
| F_P1
| F_P2
| F_P3
| F_Q1
| F_Q2
| F_Q3
| F_Q4
| F_S1
| F_S2
| F_S3
| F_S4
| F_S5
| F_S6
| F_S7
| F_X1
| F_X2
| F_X3
| F_X4
| F_X5
| F_X6
| F_X7
| F_X8
| F_X9

val flag_id : flag -> n

type dev = flag -> bool

val dev_of_ids : n list -> dev

val pos_digits : nat -> n -> str -> str

val n_dec : n -> str

val z_dec : z -> str

val hexd : n -> n

val hex : str -> str

val runeError : n

val is_cont : n -> bool

val decode_rune : str -> n * nat

val encode_rune : n -> str

type kind =
| Invalid
| EOF
| Bang
| Dollar
| Amp
| ParenL
| ParenR
| Spread
| Colon
| Equals
| At
| BracketL
| BracketR
| BraceL
| BraceR
| Pipe
| Name
| Int
| Float
| String_
| BlockString
| Comment

val kind_id : kind -> n

val kind_eqb : kind -> kind -> bool

type token = { tkind : kind; tval : str; tstart : z; tend : z; tline : 
               z; tcol : z }

type lexerr = { eline : z; ecol : z; ecls : n }

type lx = { rest : str; endR : z; line : z; lsr0 : z }

val lx_init : str -> lx

val maxInt32 : z

val split_nl_aux : str -> str -> str list

val split_nl : str -> str list

val join_nl : str list -> str

val leadingWhitespace_aux : str -> z -> z

val leadingWhitespace : str -> z

val zlen : str -> z

val commonIndent_loop : str list -> z -> z

val strip_indent : z -> str -> str

val drop_blank_front : str list -> str list

val blockStringValue : dev -> str -> str

val ws : dev -> str -> z -> z -> z -> ((str * z) * z) * z

type res = (token * lexerr option) * lx

val mk_err : str -> z -> z -> z -> z -> n -> res

val mk_tok : kind -> str -> str -> z -> z -> z -> z -> res

val take_name : str -> str * str

val take_digits : str -> str * str

val take_comment : nat -> str -> (str * z) * str

val accept1 : n -> str -> bool * str

val accept2 : n -> n -> str -> n option * str

val opt_cons : 'a1 option -> 'a1 list -> 'a1 list

val readNumber : dev -> str -> z -> z -> z -> res

val hexval : n -> n option

val unhex4 : n -> n -> n -> n -> n option

val readString_loop :
  dev -> nat -> str -> str -> str option -> z -> z -> z -> z -> res option

val count_quotes : str -> nat * str

val readBlock_loop :
  dev -> nat -> str -> str -> z -> z -> z -> z -> z -> z -> res option

val punct : n -> kind option

val readToken : dev -> lx -> res option

val lex_all : dev -> nat -> lx -> (token list * lexerr option) option

val lex : dev -> str -> (token list * lexerr option) option

val sp : n

val dump_token : token -> str

val dump_lex : dev -> str -> str

type pos = { p_src : n; p_start : z; p_end : z; p_line : z; p_col : z }

val pos0 : pos

val pos_of_tok : n -> token -> pos

type vkind =
| VVar
| VInt
| VFloat
| VString
| VBlock
| VBool
| VNull
| VEnum
| VList
| VObject

val vkind_id : vkind -> n

type value =
| MkValue of vkind * str * ((str * pos option) * value) list * pos

val value0 : value

type type_ =
| NamedT of str * bool * pos
| ListT of type_ * bool * pos

val type0 : type_

type argument = { a_name : str; a_value : value; a_pos : pos }

type directive = { d_name : str; d_args : argument list; d_pos : pos }

type vardef = { vd_var : str; vd_type : type_; vd_default : value option;
                vd_dirs : directive list; vd_pos : pos }

type selection =
| SField of str * str * argument list * directive list * selection list * pos
| SSpread of str * directive list * pos
| SInline of str * directive list * selection list * pos

type optype =
| OpQuery
| OpMutation
| OpSubscription
| OpNone

type opdef = { o_op : optype; o_name : str; o_vars : vardef list;
               o_dirs : directive list; o_sels : selection list; o_pos : 
               pos }

type fragdef = { f_name : str; f_vars : vardef list; f_typecond : str;
                 f_dirs : directive list; f_sels : selection list; f_pos : 
                 pos }

type qdoc = { q_ops : opdef list; q_frags : fragdef list; q_pos : pos option }

type dkind =
| KScalar
| KObject
| KInterface
| KUnion
| KEnum
| KInputObject

val dkind_id : dkind -> n

type argdef = { ad_desc : str; ad_name : str; ad_default : value option;
                ad_type : type_; ad_dirs : directive list; ad_pos : pos }

type fielddef = { fd_desc : str; fd_name : str; fd_args : argdef list;
                  fd_default : value option; fd_type : type_;
                  fd_dirs : directive list; fd_pos : pos }

type enumval = { ev_desc : str; ev_name : str; ev_dirs : directive list;
                 ev_pos : pos }

type definition = { df_kind : dkind; df_desc : str; df_name : str;
                    df_dirs : directive list; df_ifaces : str list;
                    df_fields : fielddef list; df_types : str list;
                    df_enums : enumval list; df_pos : pos; df_builtin : 
                    bool }

type dirdef = { dd_desc : str; dd_name : str; dd_args : argdef list;
                dd_locs : str list; dd_repeatable : bool; dd_pos : pos }

type optypedef = { ot_op : optype; ot_type : str; ot_pos : pos }

type schemadef = { sd_desc : str; sd_dirs : directive list;
                   sd_ops : optypedef list; sd_pos : pos }

type sdoc = { s_schema : schemadef list; s_schemaext : schemadef list;
              s_dirs : dirdef list; s_defs : definition list;
              s_exts : definition list; s_pos : pos option }

val cm : n

val dump_str : str -> str

val dump_pos : bool -> pos -> str

val dump_opos : bool -> pos option -> str

val paren : str -> str

val sepcat : str list -> str

val dump_list : ('a1 -> str) -> 'a1 list -> str

val dump_bool : bool -> str

val dump_value : bool -> value -> str

val dump_type : bool -> type_ -> str

val dump_arg : bool -> argument -> str

val dump_dir : bool -> directive -> str

val dump_ovalue : bool -> value option -> str

val dump_vardef : bool -> vardef -> str

val dump_sel : bool -> selection -> str

val dump_optype : optype -> str

val dump_op : bool -> opdef -> str

val dump_frag : bool -> fragdef -> str

val dump_qdoc : bool -> qdoc -> str

val dump_argdef : bool -> argdef -> str

val dump_fielddef : bool -> fielddef -> str

val dump_enumval : bool -> enumval -> str

val dump_def : bool -> definition -> str

val dump_dirdef : bool -> dirdef -> str

val dump_optypedef : bool -> optypedef -> str

val dump_schemadef : bool -> schemadef -> str

val dump_sdoc : bool -> sdoc -> str

type perr =
| PSyntax of z * z
| PLex of z * z
| PLimit
| PStall

type pst = { plx : lx; perr_ : perr option;
             peeked : (token * lexerr option) option; prev : token; cnt : 
             n; lim : n; src : n; reads : n }

val tok0 : token

val pst_init : str -> n -> n -> pst

val set_err : pst -> perr -> pst

val has_err : pst -> bool

val lexerr_to_perr : lexerr option -> perr option

val read_peek : dev -> pst -> pst

val next_peeked : pst -> token -> lexerr option -> pst

val consume_group : dev -> nat -> pst -> pst

val group_fuel : pst -> nat

val peek : dev -> pst -> token * pst

val next : dev -> pst -> token * pst

val error_at : pst -> token -> pst

val expect : dev -> kind -> pst -> token * pst

val is_kw : token -> str -> bool

val expectKeyword : dev -> str -> pst -> token * pst

val skip : dev -> kind -> pst -> bool * pst

val unexpectedError : dev -> pst -> pst

val peekPos : dev -> pst -> pos * pst

val many_loop :
  dev -> (pst -> 'a1 * pst) -> nat -> kind -> pst -> 'a1 list -> bool -> ('a1
  list * pst) * bool

val many :
  dev -> (pst -> 'a1 * pst) -> nat -> kind -> kind -> pst -> 'a1 list * pst

val some :
  dev -> (pst -> 'a1 * pst) -> nat -> kind -> kind -> pst -> 'a1 list * pst

val parseName : dev -> pst -> str * pst

type 'a pres =
| POk of 'a
| PErr of perr

val dump_perr : perr -> str

val stall : 'a1 -> pst -> 'a1 * pst

val parseVariable : dev -> pst -> str * pst

val parseValueLiteral : dev -> nat -> bool -> pst -> value * pst

val parseTypeReference : dev -> nat -> pst -> type_ * pst

val parseArgument : dev -> nat -> bool -> pst -> argument * pst

val parseArguments : dev -> nat -> bool -> pst -> argument list * pst

val parseDirective : dev -> nat -> bool -> pst -> directive * pst

val parseDirectives_loop :
  dev -> nat -> nat -> bool -> pst -> directive list -> directive list * pst

val parseDirectives : dev -> nat -> bool -> pst -> directive list * pst

val parseVariableDefinition : dev -> nat -> pst -> vardef * pst

val parseVariableDefinitions : dev -> nat -> pst -> vardef list * pst

val tok_is_on : dev -> token -> bool

val parseFragmentName : dev -> pst -> str * pst

val sel0 : selection

val parseSelection : dev -> nat -> pst -> selection * pst

val parseRequiredSelectionSet : dev -> nat -> pst -> selection list * pst

val parseOperationType : dev -> pst -> optype * pst

val parseOperationDefinition : dev -> nat -> pst -> opdef * pst

val parseFragmentDefinition : dev -> nat -> pst -> fragdef * pst

val parseQueryDocument_loop :
  dev -> nat -> nat -> pst -> opdef list -> fragdef list -> pos option ->
  qdoc * pst

val parseQueryDocument : dev -> nat -> pst -> qdoc * pst

val query_fuel : str -> nat

val parseQueryWith : dev -> nat -> n -> str -> qdoc pres * pst

val parseQuery : dev -> n -> str -> qdoc pres

val dump_parse_query : dev -> bool -> n -> str -> str

val parseDescription : dev -> pst -> (str * bool) * pst

val parseOperationTypeDefinition : dev -> pst -> optypedef * pst

val parseSchemaDefinition : dev -> nat -> str -> pst -> schemadef * pst

val tok_is_implements : dev -> token -> bool

val sep_names_loop : dev -> nat -> kind -> pst -> str list -> str list * pst

val parseImplementsInterfaces : dev -> nat -> pst -> str list * pst

val parseUnionMemberTypes : dev -> nat -> pst -> str list * pst

val parseArgumentDef : dev -> nat -> pst -> argdef * pst

val parseArgumentDefs : dev -> nat -> pst -> argdef list * pst

val parseFieldDefinition : dev -> nat -> pst -> fielddef * pst

val parseInputValueDef : dev -> nat -> pst -> fielddef * pst

val parseEnumValueDefinition : dev -> nat -> pst -> enumval * pst

val parseFieldsDefinition : dev -> nat -> pst -> fielddef list * pst

val parseInputFieldsDefinition : dev -> nat -> pst -> fielddef list * pst

val parseEnumValuesDefinition : dev -> nat -> pst -> enumval list * pst

val parseTypeDef :
  dev -> nat -> dkind -> str -> bool -> str -> pst -> definition * pst

val type_keyword : str -> dkind option

val parseSchemaExtension : dev -> nat -> pst -> schemadef * pst

val directive_locations : str list

val parseDirectiveLocation : dev -> pst -> str * pst

val dirlocs_loop : dev -> nat -> pst -> str list -> str list * pst

val parseDirectiveDefinition : dev -> nat -> str -> pst -> dirdef * pst

val add_ext : sdoc -> definition -> sdoc

val parseSchemaDocument_loop :
  dev -> nat -> nat -> pst -> sdoc -> sdoc option * pst

val set_builtin : bool -> definition -> definition

val parseSchemaDocument : dev -> nat -> pst -> sdoc option * pst

val parseSchemaWith : dev -> nat -> n -> n -> bool -> str -> sdoc pres * pst

val parseSchema : dev -> n -> n -> bool -> str -> sdoc pres

val dump_parse_schema : dev -> bool -> n -> bool -> str -> str
