// srcfacts (write sites): every place in /repo's non-test sources that writes through a pointer,
// into a map or slice element, deletes from a map, calls reflect Set*, or assigns a package-level
// variable, with the static type of the written object — regenerated into coq/gen/Writes.v on
// every run; the C11 theorem is re-checked against what the code says now.
package main

import (
	"flag"
	"fmt"
	"go/ast"
	"go/token"
	"go/types"
	"os"
	"path/filepath"
	"sort"
	"strings"

	"golang.org/x/tools/go/packages"
)

type row struct {
	pkg, file string
	line      int
	fn, kind  string
	typ, fld  string
}

func named(t types.Type) string {
	for {
		switch x := t.(type) {
		case *types.Pointer:
			t = x.Elem()
			continue
		case *types.Named:
			if x.Obj().Pkg() != nil {
				return x.Obj().Pkg().Name() + "." + x.Obj().Name()
			}
			return x.Obj().Name()
		}
		return t.String()
	}
}

// viaPointer: is the object written through a pointer / reference (not a local copy)?
func viaPointer(info *types.Info, e ast.Expr) bool {
	switch x := e.(type) {
	case *ast.Ident:
		if tv, ok := info.Types[x]; ok {
			switch tv.Type.Underlying().(type) {
			case *types.Pointer, *types.Map, *types.Slice:
				return true
			}
		}
		if obj, ok := info.Uses[x].(*types.Var); ok && obj.Parent() != nil && obj.Parent().Parent() == types.Universe {
			return true // package-level variable
		}
		return false
	case *ast.SelectorExpr:
		if tv, ok := info.Types[x.X]; ok {
			if _, isPtr := tv.Type.Underlying().(*types.Pointer); isPtr {
				return true
			}
		}
		return viaPointer(info, x.X)
	case *ast.IndexExpr:
		return true
	case *ast.StarExpr:
		return true
	case *ast.ParenExpr:
		return viaPointer(info, x.X)
	case *ast.CallExpr:
		return true
	}
	return true
}

func main() {
	repo := flag.String("repo", "/repo", "repository")
	out := flag.String("out", "/verif/coq/gen", "output dir")
	flag.Parse()
	cfg := &packages.Config{Mode: packages.NeedName | packages.NeedFiles | packages.NeedSyntax | packages.NeedTypes | packages.NeedTypesInfo | packages.NeedImports | packages.NeedDeps, Dir: *repo, Tests: false}
	pkgs, err := packages.Load(cfg, "./...")
	if err != nil {
		fmt.Fprintln(os.Stderr, err)
		os.Exit(1)
	}
	var rows []row
	for _, p := range pkgs {
		if len(p.Errors) > 0 {
			for _, e := range p.Errors {
				fmt.Fprintln(os.Stderr, e)
			}
			os.Exit(1)
		}
		if strings.Contains(p.PkgPath, "testrunner") {
			continue
		}
		info := p.TypesInfo
		for _, f := range p.Syntax {
			fname := p.Fset.Position(f.Pos()).Filename
			if strings.HasSuffix(fname, "_test.go") {
				continue
			}
			rel, _ := filepath.Rel(*repo, fname)
			// function declarations, and function literals in package-level variable initialisers
			// (the validation rules are declared as `var XRule = Rule{RuleFunc: func…}`)
			type unit struct {
				name string
				body ast.Node
			}
			var units []unit
			for _, decl := range f.Decls {
				switch d := decl.(type) {
				case *ast.FuncDecl:
					if d.Body == nil {
						continue
					}
					fn := d.Name.Name
					if d.Recv != nil && len(d.Recv.List) > 0 {
						fn = named(info.TypeOf(d.Recv.List[0].Type)) + "." + fn
					}
					units = append(units, unit{fn, d.Body})
				case *ast.GenDecl:
					if d.Tok != token.VAR {
						continue
					}
					for _, sp := range d.Specs {
						vs, ok := sp.(*ast.ValueSpec)
						if !ok {
							continue
						}
						for i, v := range vs.Values {
							name := "var"
							if i < len(vs.Names) {
								name = "var " + vs.Names[i].Name
							}
							units = append(units, unit{name, v})
						}
					}
				}
			}
			for _, u := range units {
				fn := u.name
				fdBody := u.body
				add := func(pos token.Pos, kind, typ, fld string) {
					rows = append(rows, row{p.Name, rel, p.Fset.Position(pos).Line, fn, kind, typ, fld})
				}
				lhs := func(e ast.Expr) {
					for {
						if pe, ok := e.(*ast.ParenExpr); ok {
							e = pe.X
							continue
						}
						break
					}
					switch x := e.(type) {
					case *ast.SelectorExpr:
						if !viaPointer(info, x) {
							return // a field of a local copy
						}
						add(x.Pos(), "field", named(info.TypeOf(x.X)), x.Sel.Name)
					case *ast.IndexExpr:
						switch base := x.X.(type) {
						case *ast.SelectorExpr:
							add(x.Pos(), "element", named(info.TypeOf(base.X)), base.Sel.Name)
						default:
							add(x.Pos(), "element", named(info.TypeOf(x.X)), "")
						}
					case *ast.StarExpr:
						add(x.Pos(), "deref", named(info.TypeOf(x.X)), "")
					case *ast.Ident:
						if obj, ok := info.Uses[x].(*types.Var); ok && obj.Pkg() != nil && obj.Parent() == obj.Pkg().Scope() {
							add(x.Pos(), "pkgvar", obj.Pkg().Name()+"."+obj.Name(), "")
						}
					}
				}
				ast.Inspect(fdBody, func(n ast.Node) bool {
					switch x := n.(type) {
					case *ast.AssignStmt:
						if x.Tok == token.DEFINE {
							return true
						}
						for _, l := range x.Lhs {
							lhs(l)
						}
					case *ast.IncDecStmt:
						lhs(x.X)
					case *ast.RangeStmt:
						if x.Tok == token.ASSIGN {
							if x.Key != nil {
								lhs(x.Key)
							}
							if x.Value != nil {
								lhs(x.Value)
							}
						}
					case *ast.CallExpr:
						if id, ok := x.Fun.(*ast.Ident); ok && id.Name == "delete" && len(x.Args) == 2 {
							if _, isB := info.Uses[id].(*types.Builtin); isB {
								switch base := x.Args[0].(type) {
								case *ast.SelectorExpr:
									add(x.Pos(), "delete", named(info.TypeOf(base.X)), base.Sel.Name)
								default:
									add(x.Pos(), "delete", named(info.TypeOf(x.Args[0])), "")
								}
							}
						}
						if sel, ok := x.Fun.(*ast.SelectorExpr); ok && strings.HasPrefix(sel.Sel.Name, "Set") {
							if named(info.TypeOf(sel.X)) == "reflect.Value" {
								add(x.Pos(), "reflect", "reflect.Value", sel.Sel.Name)
							}
						}
					}
					return true
				})
			}
		}
	}
	sort.Slice(rows, func(i, j int) bool {
		if rows[i].file != rows[j].file {
			return rows[i].file < rows[j].file
		}
		return rows[i].line < rows[j].line
	})
	var sb strings.Builder
	sb.WriteString("(* GENERATED from /repo's sources by /verif/srcfacts on every run: every write site. *)\n")
	sb.WriteString("From Coq Require Import List String.\nImport ListNotations.\nOpen Scope string_scope.\n")
	sb.WriteString("(* package, file, line, function, kind, type of the written object, field *)\n")
	sb.WriteString("Definition write_sites : list (string * string * nat * string * string * string * string) :=\n  [")
	for i, r := range rows {
		if i > 0 {
			sb.WriteString(";\n   ")
		}
		fmt.Fprintf(&sb, "(%q, %q, %d, %q, %q, %q, %q)", r.pkg, r.file, r.line, r.fn, r.kind, r.typ, r.fld)
	}
	sb.WriteString("].\n")
	path := filepath.Join(*out, "Writes.v")
	old, _ := os.ReadFile(path)
	if string(old) != sb.String() {
		os.MkdirAll(*out, 0o755)
		if err := os.WriteFile(path, []byte(sb.String()), 0o644); err != nil {
			fmt.Fprintln(os.Stderr, err)
			os.Exit(1)
		}
	}
	fmt.Printf("%d write sites\n", len(rows))
}
