(* Extraction of the executable model for the correspondence check.
   ExtrOcamlBasic only; N, Z, positive, nat stay the extracted inductives. *)
Require Extraction.
Require Import ExtrOcamlBasic.
From GQL.model Require Import Base Utf8 Lexer Ast Parser Prog ParseQuery ParseSchema Json Format Schema Walk Rules Rules2 Validate Link Vars Path Ops.
Extraction "model.ml" dev_of_ids dump_lex blockStringValue decode_rune encode_rune
  dump_parse_query dump_parse_schema dump_parse_schemas dump_json_roundtrip dump_format_query dump_format_schema dump_format_loaded mk_fopts parse_prelude dump_load_with dump_validate_with dump_link_with dump_vars_with dump_argmap_with dump_path_roundtrip.
