(* WalkFuel.v — the walker's fuel is enough: whatever the document (fragment cycles included), the
   nesting of fragment expansions never exceeds the number of fragment definitions, so giving the
   walk more fuel changes nothing (C02: the walk terminates without truncating anything). *)
From Coq Require Import List NArith ZArith Bool Lia.
From GQL.model Require Import Base Utf8 Lexer Ast Schema Walk.
From GQL.proofs Require Import StrFacts JsonRoundtrip Linked RuleSpecs.
Import ListNotations.

Section Fuel.
  Variable s : schema.
  Variable doc : qdoc.

  (* names of fragment definitions not yet entered *)
  Definition names : list str := map f_name doc.(q_frags).
  Fixpoint dedup (l : list str) : list str :=
    match l with [] => [] | x :: tl => if mem_str x tl then dedup tl else x :: dedup tl end.
  Definition slack (visited : list str) : nat :=
    length (filter (fun n => negb (mem_str n visited)) (dedup names)).

  Lemma mem_str_iff : forall x l, mem_str x l = true <-> In x l.
  Proof. intros. apply mem_str_in. Qed.

  Lemma dedup_in : forall l x, In x (dedup l) <-> In x l.
  Proof.
    induction l as [|y tl IH]; intro x; cbn; [tauto|].
    destruct (mem_str y tl) eqn:E.
    - rewrite IH. split; [auto|]. intros [<-|H]; [apply mem_str_iff; exact E|exact H].
    - cbn. rewrite IH. tauto.
  Qed.

  Lemma dedup_nodup : forall l, NoDup (dedup l).
  Proof.
    induction l as [|y tl IH]; cbn; [constructor|]. destruct (mem_str y tl) eqn:E; [exact IH|].
    constructor; [|exact IH]. rewrite dedup_in. intro H. apply mem_str_iff in H. congruence.
  Qed.

  Lemma find_frag_name : forall n l x, find_frag n l = Some x -> f_name x = n /\ In x l.
  Proof.
    induction l as [|y tl IH]; intros x H; cbn in H; [discriminate|].
    destruct (str_eqb (f_name y) n) eqn:E.
    - inversion H; subst. apply str_eqb_eq in E. split; [exact E|left; reflexivity].
    - destruct (IH x H) as [H1 H2]. split; [exact H1|right; exact H2].
  Qed.

  Lemma nv_cons : forall x v n, negb (mem_str n (x :: v)) = negb (str_eqb n x) && negb (mem_str n v).
  Proof. intros. unfold mem_str. cbn [existsb]. rewrite negb_orb. reflexivity. Qed.

  Lemma filter_drop_le : forall (P : str -> bool) x l,
    (length (filter (fun n => negb (str_eqb n x) && P n) l) <= length (filter P l))%nat.
  Proof.
    intros P x. induction l as [|y tl IH]; [cbn; lia|]. cbn [filter].
    destruct (str_eqb y x); cbn [negb andb]; destruct (P y); cbn [length]; lia.
  Qed.

  Lemma filter_drop_lt : forall (P : str -> bool) x l, In x l -> P x = true ->
    (length (filter (fun n => negb (str_eqb n x) && P n) l) < length (filter P l))%nat.
  Proof.
    intros P x. induction l as [|y tl IH]; intros Hin Hp; [destruct Hin|]. cbn [filter].
    destruct Hin as [->|Hin].
    - rewrite str_eqb_refl, Hp. cbn [negb andb length]. pose proof (filter_drop_le P x tl). lia.
    - specialize (IH Hin Hp). destruct (str_eqb y x); cbn [negb andb]; destruct (P y); cbn [length]; lia.
  Qed.

  (* entering a fragment not entered before uses up one unit of slack *)
  Lemma slack_enter : forall n visited x, find_frag n doc.(q_frags) = Some x -> mem_str (f_name x) visited = false ->
    (slack (f_name x :: visited) < slack visited)%nat.
  Proof.
    intros n visited x Hf Hm. destruct (find_frag_name _ _ _ Hf) as [_ Hin].
    assert (Hd : In (f_name x) (dedup names)) by (apply dedup_in; unfold names; apply in_map; exact Hin).
    unfold slack.
    rewrite (filter_ext (fun n0 => negb (mem_str n0 (f_name x :: visited)))
                        (fun n0 => negb (str_eqb n0 (f_name x)) && negb (mem_str n0 visited))) by (intro; apply nv_cons).
    apply filter_drop_lt; [exact Hd|]. rewrite Hm. reflexivity.
  Qed.

  (* the set of entered fragments only grows, so the slack only shrinks *)
  Definition extends (v v' : list str) : Prop := forall x, In x v -> In x v'.

  Lemma slack_mono : forall v v', extends v v' -> (slack v' <= slack v)%nat.
  Proof.
    intros v v' H. unfold slack. induction (dedup names) as [|y tl IH]; [cbn; lia|]. cbn [filter].
    destruct (mem_str y v) eqn:E1.
    - assert (E2 : mem_str y v' = true) by (apply mem_str_iff; apply H; apply mem_str_iff; exact E1). rewrite E2. cbn. exact IH.
    - destruct (mem_str y v'); cbn; lia.
  Qed.

  Lemma extends_refl : forall v, extends v v.
  Proof. intros v x H. exact H. Qed.
  Lemma extends_trans : forall a c e, extends a c -> extends c e -> extends a e.
  Proof. intros a c e H1 H2 x H. apply H2. apply H1. exact H. Qed.

  Lemma fold_extends : forall (W : selection -> wst -> list event * wst) sels acc st,
    (forall x st', In x sels -> extends (w_visited st') (w_visited (snd (W x st')))) ->
    extends (w_visited st) (w_visited (snd (fold_left (fun a x => let '(ev, st') := W x (snd a) in (fst a ++ ev, st')) sels (acc, st)))).
  Proof.
    intros W. induction sels as [|x tl IH]; intros acc st H; [apply extends_refl|].
    cbn [fold_left fst snd]. pose proof (H x st (or_introl eq_refl)) as Hx. destruct (W x st) as [ev st'] eqn:E. cbn [snd] in Hx.
    eapply extends_trans; [exact Hx|]. apply IH. intros y st'' Hy. apply H. right. exact Hy.
  Qed.

  Lemma walk_sel_extends : forall fuel sel parent st, extends (w_visited st) (w_visited (snd (walk_sel s doc fuel parent sel st))).
  Proof.
    induction fuel as [|f IHf]; intros sel; [intros; apply extends_refl|].
    induction sel as [al n args dirs sels p IH|n dirs p|tc dirs sels p IH] using sel_ind'; intros parent st.
    - rewrite walk_sel_field. cbv zeta.
      set (next := match field_def_of parent n with Some x => stype s (type_name (fd_type x)) | None => None end).
      set (st1 := mkWst (w_visited st) (w_used st ++ flat_map (fun a => value_vars (a_value a)) args ++ dirs_vars dirs)).
      pose proof (fold_extends (fun x st' => walk_sel s doc (S f) next x st') sels [] st1
                    (fun x st' Hx => proj1 (Forall_forall _ _) IH x Hx next st')) as Hf.
      destruct (fold_left (fun a x => let '(ev, st') := walk_sel s doc (S f) next x (snd a) in (fst a ++ ev, st')) sels ([], st1)) as [ev_sels st2].
      exact Hf.
    - cbn [walk_sel]. cbn [w_visited w_used]. destruct (find_frag n (q_frags doc)) as [x|]; [|apply extends_refl].
      destruct (mem_str (f_name x) (w_visited st)) eqn:Em; [apply extends_refl|]. cbn [w_visited].
      pose proof (fold_extends (fun y st' => walk_sel s doc f (stype s (f_typecond x)) y st') (f_sels x) []
                    (mkWst (f_name x :: w_visited st) (w_used st ++ dirs_vars dirs)) (fun y st' _ => IHf y _ st')) as Hf.
      cbn [w_visited w_used] in *.
      destruct (fold_left (fun acc y => let '(ev, st') := walk_sel s doc f (stype s (f_typecond x)) y (snd acc) in (fst acc ++ ev, st'))
                          (f_sels x) ([], mkWst (f_name x :: w_visited st) (w_used st ++ dirs_vars dirs))) as [ev_body st2].
      cbn [snd] in *. intros z Hz. apply Hf. right. exact Hz.
    - rewrite walk_sel_inline. cbv zeta.
      set (next := match tc with [] => parent | _ => stype s tc end).
      set (st1 := mkWst (w_visited st) (w_used st ++ dirs_vars dirs)).
      pose proof (fold_extends (fun x st' => walk_sel s doc (S f) next x st') sels [] st1
                    (fun x st' Hx => proj1 (Forall_forall _ _) IH x Hx next st')) as Hf.
      destruct (fold_left (fun a x => let '(ev, st') := walk_sel s doc (S f) next x (snd a) in (fst a ++ ev, st')) sels ([], st1)) as [ev_sels st2].
      exact Hf.
  Qed.

  Lemma fold_fuel_eq : forall (W1 W2 : selection -> wst -> list event * wst) bound sels acc st,
    (forall x st', In x sels -> (slack (w_visited st') < bound)%nat -> W1 x st' = W2 x st') ->
    (forall x st', extends (w_visited st') (w_visited (snd (W1 x st')))) ->
    (slack (w_visited st) < bound)%nat ->
    fold_left (fun a x => let '(ev, st') := W1 x (snd a) in (fst a ++ ev, st')) sels (acc, st)
    = fold_left (fun a x => let '(ev, st') := W2 x (snd a) in (fst a ++ ev, st')) sels (acc, st).
  Proof.
    intros W1 W2 bound. induction sels as [|x tl IH]; intros acc st Heq Hext Hs; [reflexivity|].
    cbn [fold_left fst snd]. rewrite <- (Heq x st (or_introl eq_refl) Hs).
    pose proof (Hext x st) as Hx. destruct (W1 x st) as [ev st'] eqn:E. cbn [snd] in Hx.
    apply IH; [intros y st'' Hy; apply Heq; right; exact Hy|exact Hext|].
    pose proof (slack_mono _ _ Hx). lia.
  Qed.

  (* with more fuel than slack, one more unit of fuel changes nothing *)
  Lemma walk_sel_fuel_step : forall f sel parent st, (slack (w_visited st) < f)%nat ->
    walk_sel s doc f parent sel st = walk_sel s doc (S f) parent sel st.
  Proof.
    induction f as [|f IHf]; intros sel; [intros; lia|].
    induction sel as [al n args dirs sels p IH|n dirs p|tc dirs sels p IH] using sel_ind'; intros parent st Hs.
    - rewrite !walk_sel_field. cbv zeta.
      set (next := match field_def_of parent n with Some x => stype s (type_name (fd_type x)) | None => None end).
      set (st1 := mkWst (w_visited st) (w_used st ++ flat_map (fun a => value_vars (a_value a)) args ++ dirs_vars dirs)).
      rewrite (fold_fuel_eq (fun x st' => walk_sel s doc (S f) next x st') (fun x st' => walk_sel s doc (S (S f)) next x st') (S f) sels [] st1);
        [reflexivity| | |exact Hs].
      + intros x st' Hx Hs'. exact (proj1 (Forall_forall _ _) IH x Hx next st' Hs').
      + intros x st'. apply walk_sel_extends.
    - cbn [walk_sel]. cbn [w_visited w_used]. destruct (find_frag n (q_frags doc)) as [x|] eqn:Ef; [|reflexivity].
      destruct (mem_str (f_name x) (w_visited st)) eqn:Em; [reflexivity|].
      assert (Hs2 : (slack (f_name x :: w_visited st) < f)%nat) by (pose proof (slack_enter n (w_visited st) x Ef Em); lia).
      rewrite (fold_fuel_eq (fun y st' => walk_sel s doc f (stype s (f_typecond x)) y st')
                            (fun y st' => walk_sel s doc (S f) (stype s (f_typecond x)) y st') f (f_sels x) []
                            (mkWst (f_name x :: w_visited st) (w_used st ++ dirs_vars dirs)));
        [reflexivity| | |exact Hs2].
      + intros y st' _ Hs'. apply IHf. exact Hs'.
      + intros y st'. apply walk_sel_extends.
    - rewrite !walk_sel_inline. cbv zeta.
      set (next := match tc with [] => parent | _ => stype s tc end).
      set (st1 := mkWst (w_visited st) (w_used st ++ dirs_vars dirs)).
      rewrite (fold_fuel_eq (fun x st' => walk_sel s doc (S f) next x st') (fun x st' => walk_sel s doc (S (S f)) next x st') (S f) sels [] st1);
        [reflexivity| | |exact Hs].
      + intros x st' Hx Hs'. exact (proj1 (Forall_forall _ _) IH x Hx next st' Hs').
      + intros x st'. apply walk_sel_extends.
  Qed.

  Lemma slack_bound : forall v, (slack v <= length doc.(q_frags))%nat.
  Proof.
    intro v. unfold slack.
    assert (Hfl : forall (P : str -> bool) l, (length (filter P l) <= length l)%nat)
      by (intros P l; induction l as [|z l IHl]; cbn; [lia|destruct (P z); cbn; lia]).
    eapply Nat.le_trans; [apply Hfl|].
    unfold names. rewrite <- (map_length f_name (q_frags doc)).
    induction (map f_name (q_frags doc)) as [|y tl IH]; [cbn; lia|]. cbn [dedup]. destruct (mem_str y tl); cbn [length]; lia.
  Qed.

  (* The fuel the walker is given (number of fragment definitions + 2) is enough: any larger
     amount gives the same events and the same final state, from every state. *)
  Theorem walk_fuel_enough : forall k sel parent st,
    walk_sel s doc (walk_fuel doc + k) parent sel st = walk_sel s doc (walk_fuel doc) parent sel st.
  Proof.
    induction k as [|k IH]; intros sel parent st; [rewrite Nat.add_0_r; reflexivity|].
    rewrite Nat.add_succ_r, <- walk_sel_fuel_step; [apply IH|].
    pose proof (slack_bound (w_visited st)). unfold walk_fuel. lia.
  Qed.
End Fuel.
