(* SuggestOrder.v — the suggestion list does not depend on the order in which the candidate
   names are supplied (they come from ranging over Go maps): candidates are sorted by the total
   order (distance, name).  C10. *)
From Coq Require Import List NArith Arith Bool Lia Permutation Sorting.Sorted.
From GQL.model Require Import Base Utf8 Lexer Ast Schema Walk.
From GQL.proofs Require Import StrFacts.
Import ListNotations.

Definition key := (nat * str)%type.
Definition ltkb (x y : key) : bool :=
  (fst x <? fst y)%nat || ((fst x =? fst y)%nat && str_ltb (snd x) (snd y)).
Definition lek (x y : key) : Prop := ltkb y x = false.

Lemma insert_sugg_unfold : forall x y tl,
  insert_sugg x (y :: tl) = if ltkb x y then x :: y :: tl else y :: insert_sugg x tl.
Proof. reflexivity. Qed.

Lemma ltkb_irrefl : forall x, ltkb x x = false.
Proof. intros [n s]. unfold ltkb. cbn [fst snd]. rewrite Nat.ltb_irrefl, Nat.eqb_refl, str_ltb_irrefl. reflexivity. Qed.

Lemma ltkb_trans : forall x y z, ltkb x y = true -> ltkb y z = true -> ltkb x z = true.
Proof.
  intros [a s] [c t] [e u]. unfold ltkb. cbn [fst snd]. intros H1 H2.
  apply orb_true_iff in H1. apply orb_true_iff in H2. apply orb_true_iff.
  destruct H1 as [H1|H1], H2 as [H2|H2].
  - left. apply Nat.ltb_lt in H1. apply Nat.ltb_lt in H2. apply Nat.ltb_lt. lia.
  - left. apply andb_true_iff in H2 as [H2 _]. apply Nat.ltb_lt in H1. apply Nat.eqb_eq in H2. apply Nat.ltb_lt. lia.
  - left. apply andb_true_iff in H1 as [H1 _]. apply Nat.eqb_eq in H1. apply Nat.ltb_lt in H2. apply Nat.ltb_lt. lia.
  - right. apply andb_true_iff in H1 as [H1 H1']. apply andb_true_iff in H2 as [H2 H2'].
    apply Nat.eqb_eq in H1. apply Nat.eqb_eq in H2. apply andb_true_iff. split.
    + apply Nat.eqb_eq. lia.
    + eapply str_ltb_trans; eassumption.
Qed.

(* totality / antisymmetry: neither below the other means equal *)
Lemma ltkb_total : forall x y, ltkb x y = false -> ltkb y x = false -> x = y.
Proof.
  intros [a s] [c t]. unfold ltkb. cbn [fst snd]. intros H1 H2.
  apply orb_false_iff in H1 as [H1 H1']. apply orb_false_iff in H2 as [H2 H2'].
  apply Nat.ltb_ge in H1. apply Nat.ltb_ge in H2. assert (a = c) by lia. subst c.
  rewrite Nat.eqb_refl in H1', H2'. cbn [andb] in H1', H2'. f_equal. apply str_ltb_total; assumption.
Qed.

Lemma ltkb_asym : forall x y, ltkb x y = true -> ltkb y x = false.
Proof.
  intros x y H. destruct (ltkb y x) eqn:E; [|reflexivity].
  pose proof (ltkb_trans _ _ _ H E) as T. rewrite ltkb_irrefl in T. discriminate.
Qed.

Lemma lek_trans : forall x y z, lek x y -> lek y z -> lek x z.
Proof.
  unfold lek. intros x y z H1 H2. destruct (ltkb z x) eqn:E; [|reflexivity].
  (* z < x, not y < x, not z < y *)
  destruct (ltkb x y) eqn:Exy.
  - pose proof (ltkb_trans _ _ _ E Exy) as T. congruence.
  - assert (x = y) by (apply ltkb_total; assumption). subst y. congruence.
Qed.

Lemma insert_sugg_perm : forall x l, Permutation (insert_sugg x l) (x :: l).
Proof.
  intros x l. induction l as [|y tl IH]; [reflexivity|].
  rewrite insert_sugg_unfold. destruct (ltkb x y); [reflexivity|].
  rewrite IH. apply perm_swap.
Qed.

Lemma insert_sugg_sorted : forall x l, StronglySorted lek l -> StronglySorted lek (insert_sugg x l).
Proof.
  intros x l H. induction H as [|y tl Hs IH Hall].
  - cbn. constructor; constructor.
  - rewrite insert_sugg_unfold. destruct (ltkb x y) eqn:E.
    + constructor; [constructor; assumption|].
      constructor.
      * unfold lek. apply ltkb_asym. exact E.
      * rewrite Forall_forall in *. intros z Hz. eapply lek_trans; [|apply Hall; exact Hz].
        unfold lek. apply ltkb_asym. exact E.
    + constructor; [exact IH|].
      rewrite Forall_forall in *. intros z Hz.
      apply (Permutation_in _ (insert_sugg_perm x tl)) in Hz. destruct Hz as [<-|Hz].
      * exact E.
      * apply Hall. exact Hz.
Qed.

Definition isort (l : list key) : list key := fold_left (fun acc x => insert_sugg x acc) l [].

Lemma isort_gen : forall l acc, StronglySorted lek acc ->
  StronglySorted lek (fold_left (fun acc x => insert_sugg x acc) l acc)
  /\ Permutation (fold_left (fun acc x => insert_sugg x acc) l acc) (l ++ acc).
Proof.
  induction l as [|x l IH]; intros acc Hs; cbn [fold_left].
  - split; [exact Hs|reflexivity].
  - destruct (IH (insert_sugg x acc) (insert_sugg_sorted x acc Hs)) as [H1 H2]. split; [exact H1|].
    rewrite H2. rewrite (insert_sugg_perm x acc). cbn. symmetry. apply Permutation_middle.
Qed.

Lemma sorted_perm_eq : forall l1 l2 : list key,
  StronglySorted lek l1 -> StronglySorted lek l2 -> Permutation l1 l2 -> l1 = l2.
Proof.
  induction l1 as [|x l1 IH]; intros l2 S1 S2 P.
  - apply Permutation_nil in P. subst. reflexivity.
  - destruct l2 as [|y l2]; [apply Permutation_sym, Permutation_nil in P; discriminate|].
    inversion S1 as [|? ? S1' A1]; subst. inversion S2 as [|? ? S2' A2]; subst.
    assert (x = y).
    { assert (Hx : In x (y :: l2)) by (eapply Permutation_in; [exact P|left; reflexivity]).
      assert (Hy : In y (x :: l1)) by (eapply Permutation_in; [apply Permutation_sym; exact P|left; reflexivity]).
      destruct Hx as [->|Hx]; [reflexivity|]. destruct Hy as [->|Hy]; [reflexivity|].
      rewrite Forall_forall in A1, A2. apply ltkb_total.
      - apply (A2 x Hx).
      - apply (A1 y Hy). }
    subst y. f_equal. apply IH; try assumption. eapply Permutation_cons_inv. exact P.
Qed.

Theorem isort_perm_invariant : forall l1 l2, Permutation l1 l2 -> isort l1 = isort l2.
Proof.
  intros l1 l2 P. unfold isort.
  destruct (isort_gen l1 [] (SSorted_nil _)) as [S1 P1]. destruct (isort_gen l2 [] (SSorted_nil _)) as [S2 P2].
  apply sorted_perm_eq; try assumption.
  rewrite P1, P2, !app_nil_r. exact P.
Qed.

(* The theorem for C10: whatever order the candidate names arrive in, the suggestion is the same. *)
Theorem suggestionList_order_independent : forall input options options',
  Permutation options options' -> suggestionList input options = suggestionList input options'.
Proof.
  intros input options options' P. unfold suggestionList. f_equal.
  apply isort_perm_invariant. apply Permutation_flat_map. exact P.
Qed.

(* the result is sorted by (distance, name) and contains exactly the candidates within the threshold *)
Theorem suggestionList_sorted : forall input options,
  exists keyed, suggestionList input options = map snd keyed /\ StronglySorted lek keyed
    /\ Permutation keyed (flat_map (fun o => let dd := lexicalDistance input o in
                                       if (dd <=? calcThreshold input)%nat then [(dd, o)] else []) options).
Proof.
  intros input options. unfold suggestionList.
  set (cands := flat_map _ options).
  destruct (isort_gen cands [] (SSorted_nil _)) as [S1 P1].
  eexists. split; [reflexivity|]. split; [exact S1|]. rewrite P1, app_nil_r. reflexivity.
Qed.

(* ---- the one rule that feeds a Go map's keys to the suggestion list: KnownTypeNames ---- *)
From GQL.model Require Import Rules Rules2 Validate.

Lemma stateless_ext : forall n h1 h2, (forall e, h1 e = h2 e) ->
  forall evs, run_events [stateless n h1] evs = run_events [stateless n h2] evs.
Proof.
  intros n h1 h2 H. induction evs as [|e tl IH]; [reflexivity|].
  unfold stateless in *. cbn [run_events deliver rinst_step]. rewrite !app_nil_r, H. f_equal. exact IH.
Qed.

Lemma suggest_quoted_order_independent : forall prefix typed o1 o2,
  Permutation o1 o2 -> suggest_quoted prefix typed o1 = suggest_quoted prefix typed o2.
Proof. intros. unfold suggest_quoted. rewrite (suggestionList_order_independent typed o1 o2); auto. Qed.

(* two type tables with the same content in a different (map iteration) order *)
Theorem KnownTypeNames_table_order : forall s s' nosugg evs,
  (forall n, stype s n = stype s' n) ->
  Permutation (map fst s.(sc_types)) (map fst s'.(sc_types)) ->
  run_events [r_KnownTypeNames s nosugg] evs = run_events [r_KnownTypeNames s' nosugg] evs.
Proof.
  intros s s' nosugg evs Hl Hp. unfold r_KnownTypeNames. apply stateless_ext.
  intros [[a c] ev]. cbn [snd]. destruct ev; try reflexivity.
  - rewrite Hl. reflexivity.
  - destruct f; try reflexivity. rewrite Hl. reflexivity.
  - rewrite Hl. destruct (is_some _); [reflexivity|]. destruct nosugg; [reflexivity|].
    rewrite (suggest_quoted_order_independent _ _ _ _ Hp). reflexivity.
Qed.
