(* LoadOrder.v — the loader does not depend on the order of the definitions: permuting
   sd.(s_defs) changes neither the verdict nor, up to the order of table entries and of the
   members of the possible-type / implementer lists, the loaded schema (C17, definitions part). *)
From Coq Require Import List NArith Bool Permutation Lia.
From GQL.model Require Import Base Lexer Ast Schema.
From GQL.proofs Require Import StrFacts LoadedClosed.
Import ListNotations.

(* ---- association lists as finite maps ---- *)
Definition keys {A} (l : list (str * A)) : list str := map fst l.
Definition teq {A} (l l' : list (str * A)) : Prop :=
  NoDup (keys l) /\ NoDup (keys l') /\ forall k, lookup k l = lookup k l'.

Lemma lookup_none_keys : forall A (k : str) (l : list (str * A)), lookup k l = None <-> ~ In k (keys l).
Proof.
  induction l as [|[k' v] l IH]; cbn; [tauto|].
  destruct (str_eqb k k') eqn:E.
  - apply str_eqb_eq in E. subst. split; [discriminate|intro H; exfalso; apply H; left; reflexivity].
  - apply str_eqb_neq in E. rewrite IH. split; intro H; [intros [H1|H1]; [congruence|contradiction]|intro H1; apply H; right; exact H1].
Qed.

Lemma lookup_some_keys : forall A (k : str) (l : list (str * A)) v, lookup k l = Some v -> In k (keys l).
Proof.
  intros A k l v H. destruct (in_dec (list_eq_dec N.eq_dec) k (keys l)) as [Hi|Hn]; [exact Hi|].
  apply lookup_none_keys in Hn. congruence.
Qed.

Lemma in_lookup : forall A (l : list (str * A)) k v, NoDup (keys l) -> In (k, v) l -> lookup k l = Some v.
Proof.
  induction l as [|[k' v'] l IH]; intros k v ND Hin; [destruct Hin|].
  cbn [keys map fst] in ND. apply NoDup_cons_iff in ND as [Hnot ND]. cbn [lookup].
  destruct Hin as [E|Hin].
  - inversion E; subst. rewrite str_eqb_refl. reflexivity.
  - destruct (str_eqb k k') eqn:E.
    + apply str_eqb_eq in E. subst. exfalso. apply Hnot. change (In (fst (k', v)) (map fst l)). apply in_map. exact Hin.
    + apply IH; assumption.
Qed.

(* two maps with the same content hold the same entries *)
Lemma teq_perm : forall A (l l' : list (str * A)), teq l l' -> Permutation l l'.
Proof.
  intros A l l' [ND [ND' H]]. apply NoDup_Permutation.
  - clear - ND. induction l as [|[k v] l IH]; [constructor|]. cbn in ND. apply NoDup_cons_iff in ND as [Hn ND].
    constructor; [|apply IH; exact ND]. intro Hin. apply Hn. change (In (fst (k, v)) (map fst l)). apply in_map. exact Hin.
  - clear - ND'. induction l' as [|[k v] l IH]; [constructor|]. cbn in ND'. apply NoDup_cons_iff in ND' as [Hn ND].
    constructor; [|apply IH; exact ND]. intro Hin. apply Hn. change (In (fst (k, v)) (map fst l)). apply in_map. exact Hin.
  - intros [k v]. split; intro Hin.
    + apply lookup_in. rewrite <- H. apply in_lookup; assumption.
    + apply lookup_in. rewrite H. apply in_lookup; assumption.
Qed.

Lemma nodup_snoc : forall (l : list str) x, NoDup l -> ~ In x l -> NoDup (l ++ [x]).
Proof.
  induction l as [|y l IH]; intros x ND Hn; cbn; [constructor; [intros []|constructor]|].
  apply NoDup_cons_iff in ND as [Hy ND]. constructor.
  - intro Hin. apply in_app_or in Hin as [Hin|[Hin|[]]]; [contradiction|]. subst. apply Hn. left. reflexivity.
  - apply IH; [exact ND|]. intro Hin. apply Hn. right. exact Hin.
Qed.

Lemma keys_app : forall A (l1 l2 : list (str * A)), keys (l1 ++ l2) = keys l1 ++ keys l2.
Proof. intros. unfold keys. apply map_app. Qed.

Lemma keys_update_in : forall A (k : str) (v : A) l, In k (keys l) -> keys (update k v l) = keys l.
Proof.
  induction l as [|[k' v'] l IH]; intro H; [destruct H|]. cbn [update].
  destruct (str_eqb k k') eqn:E.
  - apply str_eqb_eq in E. subst. reflexivity.
  - cbn [keys map fst]. f_equal. apply IH. destruct H as [H|H]; [cbn in H; apply str_eqb_neq in E; congruence|exact H].
Qed.

Lemma lookup_update : forall A (k k' : str) (v : A) l,
  lookup k' (update k v l) = if str_eqb k' k then Some v else lookup k' l.
Proof.
  intros. destruct (str_eqb k' k) eqn:E.
  - apply str_eqb_eq in E. subst. apply lookup_update_same.
  - apply lookup_update_other. exact E.
Qed.

Lemma teq_update : forall A (k : str) (v : A) l l', teq l l' -> In k (keys l) -> teq (update k v l) (update k v l').
Proof.
  intros A k v l l' [ND [ND' H]] Hin.
  assert (Hin' : In k (keys l')).
  { destruct (lookup k l) eqn:E; [|apply lookup_none_keys in E; contradiction]. rewrite H in E. eapply lookup_some_keys. exact E. }
  split; [rewrite keys_update_in; assumption|]. split; [rewrite keys_update_in; assumption|].
  intro k'. rewrite !lookup_update, H. reflexivity.
Qed.

Lemma teq_snoc : forall A (k : str) (v : A) l l', teq l l' -> ~ In k (keys l) -> teq (l ++ [(k, v)]) (l' ++ [(k, v)]).
Proof.
  intros A k v l l' [ND [ND' H]] Hn.
  assert (Hn' : ~ In k (keys l')) by (apply lookup_none_keys; rewrite <- H; apply lookup_none_keys; exact Hn).
  assert (Hnd : forall m : list (str * A), NoDup (keys m) -> ~ In k (keys m) -> NoDup (keys (m ++ [(k, v)]))).
  { intros m Hm Hk. rewrite keys_app. cbn [keys map fst]. apply nodup_snoc; assumption. }
  split; [apply Hnd; assumption|]. split; [apply Hnd; assumption|].
  intro k'. rewrite !lookup_app, H. reflexivity.
Qed.

Lemma perm_teq : forall A (l l' : list (str * A)), NoDup (keys l) -> Permutation l l' -> teq l l'.
Proof.
  intros A l l' ND P.
  assert (ND' : NoDup (keys l')) by (eapply Permutation_NoDup; [apply Permutation_map; exact P|exact ND]).
  split; [exact ND|]. split; [exact ND'|]. intro k.
  destruct (lookup k l) as [v|] eqn:E.
  - symmetry. apply in_lookup; [exact ND'|]. eapply Permutation_in; [exact P|]. apply lookup_in. exact E.
  - symmetry. apply lookup_none_keys. apply lookup_none_keys in E. intro Hin. apply E.
    eapply Permutation_in; [apply Permutation_sym; apply Permutation_map; exact P|exact Hin].
Qed.

(* ---- step 1: definitions by name ---- *)
Definition entry (d : definition) : str * definition := (d.(df_name), d).

Lemma add_defs_some : forall ds acc r, add_defs ds acc = Some r ->
  r = acc ++ map entry ds /\ (NoDup (keys acc) -> NoDup (keys r)).
Proof.
  induction ds as [|d tl IH]; intros acc r H; cbn [add_defs] in H.
  - inversion H; subst. rewrite app_nil_r. auto.
  - destruct (lookup (df_name d) acc) eqn:E; [discriminate|].
    destruct (IH _ _ H) as [-> Hnd]. split; [cbn [map]; rewrite <- app_assoc; reflexivity|].
    intro ND. apply Hnd. rewrite keys_app. cbn [keys map fst].
    apply lookup_none_keys in E. apply nodup_snoc; assumption.
Qed.

Lemma add_defs_nodup : forall ds acc, NoDup (keys acc ++ map df_name ds) -> add_defs ds acc = Some (acc ++ map entry ds).
Proof.
  induction ds as [|d tl IH]; intros acc ND; cbn [add_defs].
  - rewrite app_nil_r. reflexivity.
  - cbn [map] in ND.
    assert (Hn : lookup (df_name d) acc = None).
    { apply lookup_none_keys. intro Hin. apply NoDup_remove_2 in ND. apply ND. apply in_or_app. left. exact Hin. }
    rewrite Hn. rewrite IH; [cbn [map]; rewrite <- app_assoc; reflexivity|].
    rewrite keys_app. cbn [keys map fst]. rewrite <- app_assoc. cbn [app]. exact ND.
Qed.

Lemma add_defs_perm : forall ds ds', Permutation ds ds' ->
  match add_defs ds [], add_defs ds' [] with
  | Some t, Some t' => teq t t'
  | None, None => True
  | _, _ => False
  end.
Proof.
  intros ds ds' P.
  assert (Hiff : forall a c, Permutation a c -> forall t, add_defs a [] = Some t -> add_defs c [] = Some (map entry c) /\ teq t (map entry c)).
  { intros a c Pac t H. destruct (add_defs_some _ _ _ H) as [-> Hnd]. cbn [app] in *.
    specialize (Hnd (NoDup_nil _)).
    assert (NDc : NoDup (map df_name c)).
    { eapply Permutation_NoDup; [apply Permutation_map; exact Pac|]. unfold keys in Hnd. rewrite map_map in Hnd. exact Hnd. }
    split; [apply (add_defs_nodup c []); exact NDc|]. apply perm_teq; [exact Hnd|]. apply Permutation_map. exact Pac. }
  destruct (add_defs ds []) as [t|] eqn:E1; destruct (add_defs ds' []) as [t'|] eqn:E2; auto.
  - destruct (Hiff _ _ P _ E1) as [E2' Ht]. rewrite E2 in E2'. inversion E2'; subst. exact Ht.
  - destruct (Hiff _ _ P _ E1) as [E2' _]. congruence.
  - destruct (Hiff _ _ (Permutation_sym P) _ E2) as [E1' _]. congruence.
Qed.

(* ---- step 2: extensions merged ---- *)
Lemma merge_exts_teq : forall es t t' o o', teq t t' -> Permutation o o' ->
  match merge_exts es t o, merge_exts es t' o' with
  | Some (r, o2), Some (r', o2') => teq r r' /\ Permutation o2 o2'
  | None, None => True
  | _, _ => False
  end.
Proof.
  induction es as [|e tl IH]; intros t t' o o' Ht Po; cbn [merge_exts].
  - split; assumption.
  - pose proof Ht as [_ [_ Hl]]. rewrite <- (Hl (df_name e)).
    destruct (lookup (df_name e) t) as [d|] eqn:E.
    + destruct (negb (dkind_eqb (df_kind d) (df_kind e))); [exact I|].
      apply IH; [|exact Po]. apply teq_update; [exact Ht|]. eapply lookup_some_keys. exact E.
    + cbn [df_kind]. destruct (negb (dkind_eqb (df_kind e) (df_kind e))); [exact I|].
      apply IH; [|apply Permutation_app_tail; exact Po].
      apply teq_update.
      * apply teq_snoc; [exact Ht|]. apply lookup_none_keys. exact E.
      * rewrite keys_app. apply in_or_app. right. left. reflexivity.
Qed.

(* ---- step 3: the possible-type and implementer tables, as maps to multisets ---- *)
Definition get (k : str) (p : list (str * list str)) : list str := match lookup k p with Some l => l | None => [] end.
Definition releq (p p' : list (str * list str)) : Prop := forall k, Permutation (get k p) (get k p').

Lemma get_append_at : forall k' k x p, get k' (append_at k x p) = if str_eqb k' k then get k p ++ [x] else get k' p.
Proof.
  intros k' k x p. unfold get, append_at. destruct (lookup k p) as [xs|] eqn:E.
  - rewrite lookup_update. destruct (str_eqb k' k); reflexivity.
  - rewrite lookup_app. destruct (str_eqb k' k) eqn:E2.
    + apply str_eqb_eq in E2. subst k'. rewrite E. cbn. rewrite str_eqb_refl. reflexivity.
    + destruct (lookup k' p); [reflexivity|]. cbn. rewrite E2. reflexivity.
Qed.

Lemma fold_cond_append_get : forall (A : Type) (c : A -> bool) (kf vf : A -> str) xs p k,
  get k (fold_left (fun p x => if c x then append_at (kf x) (vf x) p else p) xs p)
  = get k p ++ flat_map (fun x => if c x && str_eqb k (kf x) then [vf x] else []) xs.
Proof.
  intros A c kf vf. induction xs as [|x xs IH]; intros p k; cbn [fold_left flat_map].
  - rewrite app_nil_r. reflexivity.
  - rewrite IH. destruct (c x); cbn [andb].
    + rewrite get_append_at. destruct (str_eqb k (kf x)) eqn:E; [apply str_eqb_eq in E; subst k; rewrite <- app_assoc; reflexivity|reflexivity].
    + reflexivity.
Qed.

Lemma fold_pair : forall (A P I : Type) (F : P -> A -> P) (G : I -> A -> I) xs p i,
  fold_left (fun (a : P * I) x => let '(p, i) := a in (F p x, G i x)) xs (p, i) = (fold_left F xs p, fold_left G xs i).
Proof. intros A P I F G. induction xs as [|x xs IH]; intros p i; cbn [fold_left]; [reflexivity|apply IH]. Qed.

Section Rel.
  Variable types : list (str * definition).

  Definition rel_step (acc : list (str * list str) * list (str * list str)) (n : str) :=
    match lookup n types with
    | None => acc
    | Some def =>
      let '(pos, imp) := acc in
      match def.(df_kind) with
      | KUnion =>
        fold_left (fun a t => let '(p, i) := a in
                     ((if is_some (lookup t types) then append_at def.(df_name) t p else p),
                      append_at t def.(df_name) i)) def.(df_types) (pos, imp)
      | KObject =>
        let '(p1, i1) := fold_left (fun a intf => let '(p, i) := a in
                            (append_at intf def.(df_name) p, append_at def.(df_name) intf i))
                          def.(df_ifaces) (pos, imp) in
        (append_at def.(df_name) def.(df_name) p1, i1)
      | KInterface =>
        fold_left (fun a intf => let '(p, i) := a in
                     (append_at intf def.(df_name) p, append_at def.(df_name) intf i))
                  def.(df_ifaces) (pos, imp)
      | _ => (pos, imp)
      end
    end.

  Lemma relations_fold : forall order, relations types order = fold_left rel_step order ([], []).
  Proof. reflexivity. Qed.

  (* what processing the definition named n adds under key k *)
  Definition cpos (k n : str) : list str :=
    match lookup n types with
    | None => []
    | Some def =>
      match def.(df_kind) with
      | KUnion => flat_map (fun t => if is_some (lookup t types) && str_eqb k def.(df_name) then [t] else []) def.(df_types)
      | KObject => flat_map (fun intf => if true && str_eqb k intf then [def.(df_name)] else []) def.(df_ifaces)
                   ++ (if str_eqb k def.(df_name) then [def.(df_name)] else [])
      | KInterface => flat_map (fun intf => if true && str_eqb k intf then [def.(df_name)] else []) def.(df_ifaces)
      | _ => []
      end
    end.
  Definition cimp (k n : str) : list str :=
    match lookup n types with
    | None => []
    | Some def =>
      match def.(df_kind) with
      | KUnion => flat_map (fun t => if true && str_eqb k t then [def.(df_name)] else []) def.(df_types)
      | KObject | KInterface => flat_map (fun intf => if true && str_eqb k def.(df_name) then [intf] else []) def.(df_ifaces)
      | _ => []
      end
    end.

  Lemma rel_step_get : forall acc n k,
    get k (fst (rel_step acc n)) = get k (fst acc) ++ cpos k n
    /\ get k (snd (rel_step acc n)) = get k (snd acc) ++ cimp k n.
  Proof.
    intros [pos imp] n k. unfold rel_step, cpos, cimp. destruct (lookup n types) as [def|]; [|cbn; rewrite !app_nil_r; split; reflexivity].
    destruct (df_kind def); cbn [fst snd]; try (rewrite !app_nil_r; split; reflexivity).
    - (* object *)
      rewrite (fold_pair _ _ _ (fun p intf => append_at intf (df_name def) p) (fun i intf => append_at (df_name def) intf i)).
      cbn [fst snd]. split.
      + rewrite get_append_at.
        pose proof (fold_cond_append_get _ (fun _ => true) (fun intf => intf) (fun _ => df_name def) (df_ifaces def) pos k) as H1.
        cbn beta in H1. destruct (str_eqb k (df_name def)) eqn:E.
        * apply str_eqb_eq in E. subst k.
          pose proof (fold_cond_append_get _ (fun _ => true) (fun intf => intf) (fun _ => df_name def) (df_ifaces def) pos (df_name def)) as H2.
          cbn beta in H2. rewrite H2, <- app_assoc. reflexivity.
        * rewrite H1, app_nil_r. reflexivity.
      + exact (fold_cond_append_get _ (fun _ => true) (fun _ => df_name def) (fun intf => intf) (df_ifaces def) imp k).
    - (* interface *)
      rewrite (fold_pair _ _ _ (fun p intf => append_at intf (df_name def) p) (fun i intf => append_at (df_name def) intf i)).
      cbn [fst snd]. split.
      + exact (fold_cond_append_get _ (fun _ => true) (fun intf => intf) (fun _ => df_name def) (df_ifaces def) pos k).
      + exact (fold_cond_append_get _ (fun _ => true) (fun _ => df_name def) (fun intf => intf) (df_ifaces def) imp k).
    - (* union *)
      rewrite (fold_pair _ _ _ (fun p t => if is_some (lookup t types) then append_at (df_name def) t p else p)
                               (fun i t => append_at t (df_name def) i)).
      cbn [fst snd]. split.
      + exact (fold_cond_append_get _ (fun t => is_some (lookup t types)) (fun _ => df_name def) (fun t => t) (df_types def) pos k).
      + exact (fold_cond_append_get _ (fun _ => true) (fun t => t) (fun _ => df_name def) (df_types def) imp k).
  Qed.

  Lemma relations_get : forall order acc k,
    get k (fst (fold_left rel_step order acc)) = get k (fst acc) ++ flat_map (cpos k) order
    /\ get k (snd (fold_left rel_step order acc)) = get k (snd acc) ++ flat_map (cimp k) order.
  Proof.
    induction order as [|n tl IH]; intros acc k; cbn [fold_left flat_map].
    - rewrite !app_nil_r. split; reflexivity.
    - destruct (IH (rel_step acc n) k) as [H1 H2]. destruct (rel_step_get acc n k) as [G1 G2].
      rewrite H1, H2, G1, G2, <- !app_assoc. split; reflexivity.
  Qed.
End Rel.

Lemma get_nil : forall k, get k [] = [].
Proof. reflexivity. Qed.

Lemma relations_releq : forall t t' o o', teq t t' -> Permutation o o' ->
  releq (fst (relations t o)) (fst (relations t' o')) /\ releq (snd (relations t o)) (snd (relations t' o')).
Proof.
  intros t t' o o' [_ [_ Hl]] Po. rewrite !relations_fold.
  assert (Hc : forall k n, cpos t k n = cpos t' k n /\ cimp t k n = cimp t' k n).
  { intros k n. unfold cpos, cimp. rewrite <- (Hl n). destruct (lookup n t) as [def|]; [|split; reflexivity].
    destruct (df_kind def); try (split; reflexivity).
    split; [|reflexivity]. apply flat_map_ext. intro x. rewrite (Hl x). reflexivity. }
  split; intro k.
  - destruct (relations_get t o ([], []) k) as [H1 _]. destruct (relations_get t' o' ([], []) k) as [H2 _].
    rewrite H1, H2. cbn [fst]. rewrite get_nil. cbn [app].
    rewrite (flat_map_ext _ _ (fun n => proj1 (Hc k n))). apply Permutation_flat_map. exact Po.
  - destruct (relations_get t o ([], []) k) as [_ H1]. destruct (relations_get t' o' ([], []) k) as [_ H2].
    rewrite H1, H2. cbn [snd]. rewrite get_nil. cbn [app].
    rewrite (flat_map_ext _ _ (fun n => proj2 (Hc k n))). apply Permutation_flat_map. exact Po.
Qed.

(* ---- step 4: the per-definition checks only look tables up ---- *)
Lemma forallb_ext_in : forall A (f g : A -> bool) l, (forall x, In x l -> f x = g x) -> forallb f l = forallb g l.
Proof.
  induction l as [|x l IH]; intro H; [reflexivity|]. cbn. rewrite (H x (or_introl eq_refl)), IH; [reflexivity|].
  intros y Hy. apply H. right. exact Hy.
Qed.

Lemma existsb_perm : forall A (f : A -> bool) l l', Permutation l l' -> existsb f l = existsb f l'.
Proof.
  intros A f l l' P. induction P; cbn; try congruence.
  - destruct (f x), (f y); reflexivity.
Qed.

Section Congr.
  Variables t t' : list (str * definition).
  Variable dirs : list (str * dirdef).
  Variables possible possible' : list (str * list str).
  Hypothesis Hl : forall k, lookup k t = lookup k t'.
  Hypothesis Hp : releq possible possible'.

  Lemma mem_possible : forall rn an,
    match lookup rn possible with Some pts => mem_str an pts | None => false end
    = match lookup rn possible' with Some pts => mem_str an pts | None => false end.
  Proof.
    intros rn an. specialize (Hp rn). unfold get in Hp.
    destruct (lookup rn possible) as [a|]; destruct (lookup rn possible') as [c|]; unfold mem_str.
    - apply existsb_perm. exact Hp.
    - rewrite (existsb_perm _ _ _ _ Hp). reflexivity.
    - rewrite <- (existsb_perm _ _ _ _ Hp). reflexivity.
    - reflexivity.
  Qed.

  Lemma isCovariant_congr : forall r a, isCovariant possible r a = isCovariant possible' r a.
  Proof.
    induction r as [rn rnn rp|re IH rnn rp]; intros a; cbn [isCovariant].
    - destruct (type_nonnull (NamedT rn rnn rp) && negb (type_nonnull a)); [reflexivity|].
      destruct a; rewrite mem_possible; reflexivity.
    - destruct (type_nonnull (ListT re rnn rp) && negb (type_nonnull a)); [reflexivity|].
      destruct a; [reflexivity|apply IH].
  Qed.

  Lemma validateArgs_congr : forall args cur, validateArgs t dirs args cur = validateArgs t' dirs args cur.
  Proof.
    intros args cur. unfold validateArgs. apply forallb_ext_in. intros a _. unfold validateTypeRef. rewrite Hl. reflexivity.
  Qed.

  Lemma validateImplements_congr : forall def i, validateImplements t possible def i = validateImplements t' possible' def i.
  Proof.
    intros def i. unfold validateImplements. rewrite <- Hl. destruct (lookup i t) as [intf|]; [|reflexivity].
    f_equal. f_equal. apply forallb_ext_in. intros rf _. destruct (find_field (fd_name rf) (df_fields def)); [|reflexivity].
    rewrite isCovariant_congr. reflexivity.
  Qed.

  Lemma validateDefinition_congr : forall def, validateDefinition t dirs possible def = validateDefinition t' dirs possible' def.
  Proof.
    intro def. unfold validateDefinition.
    repeat match goal with |- _ && _ = _ && _ => f_equal end.
    - apply forallb_ext_in. intros f _. unfold validateTypeRef. rewrite Hl, validateArgs_congr. reflexivity.
    - apply forallb_ext_in. intros x _. rewrite Hl. reflexivity.
    - apply forallb_ext_in. intros x _. apply validateImplements_congr.
    - destruct (df_kind def); try reflexivity; f_equal; apply forallb_ext_in; intros f _; rewrite Hl; reflexivity.
  Qed.

  Lemma validateDirective_congr : forall dd, validateDirective t dirs dd = validateDirective t' dirs dd.
  Proof. intro dd. unfold validateDirective. rewrite validateArgs_congr. reflexivity. Qed.
End Congr.

(* ---- step 5: everything after the tables are built ---- *)
Definition roots_of (sd : sdoc) (types : list (str * definition)) (dirs : list (str * dirdef))
  : option (roots * list directive * str) :=
  let r0 : option (roots * list directive * str) :=
      match sd.(s_schema) with
      | [s0] =>
        match set_roots types s0.(sd_ops) (None, None, None) with
        | None => None
        | Some r => if validateDirectives dirs s0.(sd_dirs) (b "SCHEMA") None
                    then Some (r, s0.(sd_dirs), s0.(sd_desc)) else None
        end
      | _ => Some ((None, None, None), [], [])
      end in
  fold_left (fun acc ext =>
               match acc with
               | None => None
               | Some (r, sdirs, desc) =>
                 match set_roots types ext.(sd_ops) r with
                 | None => None
                 | Some r' => if validateDirectives dirs ext.(sd_dirs) (b "SCHEMA") None
                              then Some (r', sdirs ++ ext.(sd_dirs), desc) else None
                 end
               end) sd.(s_schemaext) r0.

Definition infer_root (sd : sdoc) (types : list (str * definition)) (cur : option str) (n : str) : option str :=
  match cur with
  | Some _ => cur
  | None => match sd.(s_schema) with
            | [] => if is_some (lookup n types) then Some n else None
            | _ => None
            end
  end.

Definition root_is_object (types : list (str * definition)) (r : option str) : bool :=
  match r with
  | Some n => match lookup n types with Some rd => dkind_eqb rd.(df_kind) KObject | None => true end
  | None => true
  end.

Definition finish_load (sd : sdoc) (types : list (str * definition)) (possible implements : list (str * list str))
           (dirs : list (str * dirdef)) : option schema :=
  match sd.(s_schema) with
  | _ :: _ :: _ => None
  | _ =>
    match roots_of sd types dirs with
    | None => None
    | Some ((q, m, s), sdirs, desc) =>
      if forallb (fun kv => validateDefinition types dirs possible (snd kv)) types
         && forallb (fun kv => validateDirective types dirs (snd kv)) dirs
      then
        let q' := infer_root sd types q (b "Query") in
        let m' := infer_root sd types m (b "Mutation") in
        let s' := infer_root sd types s (b "Subscription") in
        if negb (root_is_object types q' && root_is_object types m' && root_is_object types s') then None else
        Some (mkSchema q' m' s' sdirs (final_types q' types) dirs possible implements desc)
      else None
    end
  end.

Lemma validateSchemaDocument_stages : forall sd,
  validateSchemaDocument sd =
  match add_defs sd.(s_defs) [] with
  | None => None
  | Some types0 =>
    match merge_exts sd.(s_exts) types0 (map df_name sd.(s_defs)) with
    | None => None
    | Some (types, order) =>
      match add_dirs sd.(s_dirs) [] with
      | None => None
      | Some dirs => finish_load sd types (fst (relations types order)) (snd (relations types order)) dirs
      end
    end
  end.
Proof.
  intro sd. unfold validateSchemaDocument, finish_load, roots_of, infer_root, root_is_object, final_types, with_introspection.
  destruct (add_defs (s_defs sd) []) as [types0|]; [|reflexivity].
  destruct (merge_exts (s_exts sd) types0 (map df_name (s_defs sd))) as [[types order]|]; [|reflexivity].
  destruct (relations types order) as [possible implements]. cbn [fst snd].
  destruct (add_dirs (s_dirs sd) []) as [dirs|]; [|reflexivity].
  destruct (s_schema sd) as [|s0 [|s1 rest]]; reflexivity.
Qed.

Lemma forallb_perm : forall A (f : A -> bool) l l', Permutation l l' -> forallb f l = forallb f l'.
Proof.
  intros A f l l' P. induction P; cbn; try congruence.
  destruct (f x), (f y); reflexivity.
Qed.

Lemma set_roots_congr : forall (t t' : list (str * definition)), (forall k, lookup k t = lookup k t') ->
  forall ops r, set_roots t ops r = set_roots t' ops r.
Proof.
  intros t t' Hl. induction ops as [|o tl IH]; intro r; cbn [set_roots]; [reflexivity|].
  rewrite <- Hl. destruct (lookup (ot_type o) t); [|reflexivity]. destruct r as [[q m] s]. apply IH.
Qed.

Definition schema_eq (s s' : schema) : Prop :=
  sc_query s = sc_query s' /\ sc_mutation s = sc_mutation s' /\ sc_subscription s = sc_subscription s'
  /\ sc_schema_dirs s = sc_schema_dirs s' /\ teq (sc_types s) (sc_types s') /\ sc_dirs s = sc_dirs s'
  /\ releq (sc_possible s) (sc_possible s') /\ releq (sc_implements s) (sc_implements s') /\ sc_desc s = sc_desc s'.

Lemma final_types_teq : forall q' t t', teq t t' -> teq (final_types q' t) (final_types q' t').
Proof.
  intros q' t t' Ht. unfold final_types. destruct q' as [qn|]; [|exact Ht].
  pose proof Ht as [_ [_ Hl]]. rewrite <- (Hl qn). destruct (lookup qn t) as [qd|] eqn:E; [|exact Ht].
  apply teq_update; [exact Ht|]. eapply lookup_some_keys. exact E.
Qed.

Lemma roots_of_congr : forall sd (t t' : list (str * definition)) dirs, (forall k, lookup k t = lookup k t') ->
  roots_of sd t dirs = roots_of sd t' dirs.
Proof.
  intros sd t t' dirs Hl. unfold roots_of. cbv zeta.
  assert (Hfold : forall r0,
    fold_left (fun (acc : option (roots * list directive * str)) (ext : schemadef) => match acc with
                 | None => None
                 | Some (r, sdirs, desc) =>
                   match set_roots t ext.(sd_ops) r with
                   | None => None
                   | Some r' => if validateDirectives dirs ext.(sd_dirs) (b "SCHEMA") None
                                then Some (r', sdirs ++ ext.(sd_dirs), desc) else None
                   end end) (s_schemaext sd) r0
    = fold_left (fun (acc : option (roots * list directive * str)) (ext : schemadef) => match acc with
                 | None => None
                 | Some (r, sdirs, desc) =>
                   match set_roots t' ext.(sd_ops) r with
                   | None => None
                   | Some r' => if validateDirectives dirs ext.(sd_dirs) (b "SCHEMA") None
                                then Some (r', sdirs ++ ext.(sd_dirs), desc) else None
                   end end) (s_schemaext sd) r0).
  { induction (s_schemaext sd) as [|e tl IH]; intro r0; [reflexivity|]. cbn [fold_left].
    destruct r0 as [[[r sdirs] desc]|]; [rewrite (set_roots_congr t t' Hl)|]; apply IH. }
  rewrite Hfold. destruct (s_schema sd) as [|s0 [|? ?]]; try reflexivity.
  rewrite (set_roots_congr t t' Hl). reflexivity.
Qed.

Lemma finish_load_congr : forall sd t t' p p' i i' dirs,
  teq t t' -> releq p p' -> releq i i' ->
  match finish_load sd t p i dirs, finish_load sd t' p' i' dirs with
  | Some s, Some s' => schema_eq s s'
  | None, None => True
  | _, _ => False
  end.
Proof.
  intros sd t t' p p' i i' dirs Ht Hp Hi. pose proof Ht as [_ [_ Hl]]. unfold finish_load.
  rewrite <- (roots_of_congr sd t t' dirs Hl).
  assert (Hchecks : forallb (fun kv => validateDefinition t' dirs p' (snd kv)) t' && forallb (fun kv => validateDirective t' dirs (snd kv)) dirs
                    = forallb (fun kv => validateDefinition t dirs p (snd kv)) t && forallb (fun kv => validateDirective t dirs (snd kv)) dirs).
  { f_equal.
    - rewrite (forallb_perm _ _ _ _ (Permutation_sym (teq_perm _ _ _ Ht))).
      apply forallb_ext_in. intros kv _. symmetry. apply validateDefinition_congr; assumption.
    - apply forallb_ext_in. intros kv _. symmetry. apply validateDirective_congr. assumption. }
  assert (Hinf : forall cur n, infer_root sd t' cur n = infer_root sd t cur n)
    by (intros; unfold infer_root; rewrite Hl; reflexivity).
  assert (Hobj : forall r, root_is_object t' r = root_is_object t r)
    by (intros; unfold root_is_object; destruct r; [rewrite Hl|]; reflexivity).
  destruct (s_schema sd) as [|s0 [|s1 rest]]; [| |exact I];
  (destruct (roots_of sd t dirs) as [[[[[q m] s] sdirs] desc]|]; [|exact I];
   rewrite Hchecks;
   destruct (forallb (fun kv => validateDefinition t dirs p (snd kv)) t && forallb (fun kv => validateDirective t dirs (snd kv)) dirs);
   [|exact I]; cbv zeta; rewrite !Hinf, !Hobj;
   match goal with |- match (if ?c then _ else _) with _ => _ end => destruct c end; [exact I|];
   unfold schema_eq; cbn [sc_query sc_mutation sc_subscription sc_schema_dirs sc_types sc_dirs sc_possible sc_implements sc_desc];
   split; [reflexivity|]; split; [reflexivity|]; split; [reflexivity|]; split; [reflexivity|];
   split; [apply final_types_teq; exact Ht|]; split; [reflexivity|]; split; [exact Hp|]; split; [exact Hi|reflexivity]).
Qed.

(* ---- the theorem ---- *)
Definition with_defs (sd : sdoc) (ds : list definition) : sdoc :=
  mkSDoc sd.(s_schema) sd.(s_schemaext) sd.(s_dirs) ds sd.(s_exts) sd.(s_pos).

Lemma finish_load_with_defs : forall sd ds t p i dirs, finish_load (with_defs sd ds) t p i dirs = finish_load sd t p i dirs.
Proof. reflexivity. Qed.

Theorem load_definition_order : forall sd ds', Permutation sd.(s_defs) ds' ->
  match validateSchemaDocument sd, validateSchemaDocument (with_defs sd ds') with
  | Some s, Some s' => schema_eq s s'
  | None, None => True
  | _, _ => False
  end.
Proof.
  intros sd ds' P. rewrite !validateSchemaDocument_stages. cbn [with_defs s_defs s_exts s_dirs].
  pose proof (add_defs_perm _ _ P) as H1.
  destruct (add_defs (s_defs sd) []) as [t0|]; destruct (add_defs ds' []) as [t0'|]; try contradiction; [|exact I].
  pose proof (merge_exts_teq (s_exts sd) t0 t0' (map df_name (s_defs sd)) (map df_name ds') H1 (Permutation_map _ P)) as H2.
  destruct (merge_exts (s_exts sd) t0 (map df_name (s_defs sd))) as [[t o]|];
    destruct (merge_exts (s_exts sd) t0' (map df_name ds')) as [[t' o']|]; try contradiction; [|exact I].
  destruct H2 as [Ht Po].
  destruct (add_dirs (s_dirs sd) []) as [dirs|]; [|exact I].
  rewrite finish_load_with_defs.
  destruct (relations_releq t t' o o' Ht Po) as [Hp Hi].
  apply finish_load_congr; assumption.
Qed.

(* ---- extensions of different types may be reordered too ---- *)
Definition ext_step (e : definition) (types : list (str * definition)) (order : list str)
  : option (list (str * definition) * list str) :=
  let '(base, types1, order1) :=
      match lookup e.(df_name) types with
      | Some d => (d, types, order)
      | None => let d := mkDef e.(df_kind) [] e.(df_name) [] [] [] [] [] e.(df_pos) false in
                (d, types ++ [(e.(df_name), d)], order ++ [e.(df_name)])
      end in
  if negb (dkind_eqb base.(df_kind) e.(df_kind)) then None else
  let merged := mkDef base.(df_kind) base.(df_desc) base.(df_name) (base.(df_dirs) ++ e.(df_dirs))
                      (base.(df_ifaces) ++ e.(df_ifaces)) (base.(df_fields) ++ e.(df_fields))
                      (base.(df_types) ++ e.(df_types)) (base.(df_enums) ++ e.(df_enums))
                      base.(df_pos) base.(df_builtin) in
  Some (update e.(df_name) merged types1, order1).

Lemma merge_exts_step : forall e tl t o,
  merge_exts (e :: tl) t o = match ext_step e t o with Some (t1, o1) => merge_exts tl t1 o1 | None => None end.
Proof.
  intros. cbn [merge_exts]. unfold ext_step. destruct (lookup (df_name e) t); cbv zeta;
  match goal with |- context [if ?c then _ else _] => destruct c end; reflexivity.
Qed.

(* one step, described by look-ups *)
Definition base_of (e : definition) (t : list (str * definition)) : definition :=
  match lookup e.(df_name) t with
  | Some d => d
  | None => mkDef e.(df_kind) [] e.(df_name) [] [] [] [] [] e.(df_pos) false
  end.
Definition merged_of (e base : definition) : definition :=
  mkDef base.(df_kind) base.(df_desc) base.(df_name) (base.(df_dirs) ++ e.(df_dirs))
        (base.(df_ifaces) ++ e.(df_ifaces)) (base.(df_fields) ++ e.(df_fields))
        (base.(df_types) ++ e.(df_types)) (base.(df_enums) ++ e.(df_enums)) base.(df_pos) base.(df_builtin).

Lemma ext_step_spec : forall e t o t1 o1, NoDup (keys t) -> ext_step e t o = Some (t1, o1) ->
  NoDup (keys t1)
  /\ (forall k, lookup k t1 = if str_eqb k e.(df_name) then Some (merged_of e (base_of e t)) else lookup k t)
  /\ dkind_eqb (base_of e t).(df_kind) e.(df_kind) = true
  /\ o1 = (if is_some (lookup e.(df_name) t) then o else o ++ [e.(df_name)]).
Proof.
  intros e t o t1 o1 ND H. unfold ext_step, base_of in *. destruct (lookup (df_name e) t) as [d|] eqn:E; cbv zeta in H.
  - destruct (dkind_eqb (df_kind d) (df_kind e)) eqn:Ek; [|discriminate]. cbn [negb] in H. inversion H; subst.
    split; [rewrite keys_update_in; [exact ND|eapply lookup_some_keys; exact E]|].
    split; [intro k; apply lookup_update|]. split; [first [reflexivity|exact Ek]|reflexivity].
  - cbn [df_kind] in H. destruct (dkind_eqb (df_kind e) (df_kind e)) eqn:Ek; [|discriminate]. cbn [negb] in H. inversion H; subst.
    assert (Hin : In (df_name e) (keys (t ++ [(df_name e, mkDef (df_kind e) [] (df_name e) [] [] [] [] [] (df_pos e) false)])))
      by (rewrite keys_app; apply in_or_app; right; left; reflexivity).
    split; [rewrite keys_update_in; [|exact Hin]; rewrite keys_app; apply nodup_snoc; [exact ND|apply lookup_none_keys; exact E]|].
    split; [|split; [first [reflexivity|exact Ek]|reflexivity]].
    intro k. rewrite lookup_update. destruct (str_eqb k (df_name e)) eqn:Ee; [reflexivity|].
    rewrite lookup_app. destruct (lookup k t); [reflexivity|]. cbn. rewrite Ee. reflexivity.
Qed.

Lemma ext_step_none : forall e t o, ext_step e t o = None <-> dkind_eqb (base_of e t).(df_kind) e.(df_kind) = false.
Proof.
  intros e t o. unfold ext_step, base_of. destruct (lookup (df_name e) t); cbv zeta;
  match goal with |- context [dkind_eqb ?a ?c] => destruct (dkind_eqb a c) end; cbn; split; intro; congruence.
Qed.

Lemma ext_steps_commute : forall a c t o, NoDup (keys t) -> df_name a <> df_name c ->
  match (match ext_step a t o with Some (t1, o1) => ext_step c t1 o1 | None => None end),
        (match ext_step c t o with Some (t1, o1) => ext_step a t1 o1 | None => None end) with
  | Some (r, o2), Some (r', o2') => teq r r' /\ Permutation o2 o2'
  | None, None => True
  | _, _ => False
  end.
Proof.
  intros a c t o ND Hne.
  assert (Hac : str_eqb (df_name a) (df_name c) = false) by (apply str_eqb_neq; exact Hne).
  assert (Hca : str_eqb (df_name c) (df_name a) = false) by (rewrite str_eqb_sym; exact Hac).
  (* the base of one is not affected by the step of the other *)
  assert (Hb1 : forall t1 o1, ext_step a t o = Some (t1, o1) -> base_of c t1 = base_of c t).
  { intros t1 o1 H. destruct (ext_step_spec _ _ _ _ _ ND H) as [_ [Hl _]]. unfold base_of. rewrite Hl, Hca. reflexivity. }
  assert (Hb2 : forall t1 o1, ext_step c t o = Some (t1, o1) -> base_of a t1 = base_of a t).
  { intros t1 o1 H. destruct (ext_step_spec _ _ _ _ _ ND H) as [_ [Hl _]]. unfold base_of. rewrite Hl, Hac. reflexivity. }
  destruct (ext_step a t o) as [[ta oa]|] eqn:Ea; destruct (ext_step c t o) as [[tc oc]|] eqn:Ec.
  - destruct (ext_step_spec _ _ _ _ _ ND Ea) as [NDa [La [Ka Oa]]]. destruct (ext_step_spec _ _ _ _ _ ND Ec) as [NDc [Lc [Kc Oc]]].
    destruct (ext_step c ta oa) as [[r o2]|] eqn:E1; destruct (ext_step a tc oc) as [[r' o2']|] eqn:E2.
    + destruct (ext_step_spec _ _ _ _ _ NDa E1) as [ND1 [L1 [_ O1]]]. destruct (ext_step_spec _ _ _ _ _ NDc E2) as [ND2 [L2 [_ O2]]].
      split.
      * split; [exact ND1|]. split; [exact ND2|]. intro k. rewrite L1, L2, La, Lc, (Hb1 _ _ eq_refl), (Hb2 _ _ eq_refl).
        destruct (str_eqb k (df_name c)) eqn:Ekc; destruct (str_eqb k (df_name a)) eqn:Eka; try reflexivity.
        apply str_eqb_eq in Ekc. apply str_eqb_eq in Eka. congruence.
      * subst o2 o2' oa oc. rewrite La, Lc, Hca, Hac.
        destruct (is_some (lookup (df_name a) t)); destruct (is_some (lookup (df_name c) t)); try reflexivity.
        rewrite <- !app_assoc. apply Permutation_app_head. apply perm_swap.
    + apply ext_step_none in E2. rewrite (Hb2 _ _ eq_refl) in E2. congruence.
    + apply ext_step_none in E1. rewrite (Hb1 _ _ eq_refl) in E1. congruence.
    + exact I.
  - destruct (ext_step c ta oa) as [[r o2]|] eqn:E1; [|exact I].
    destruct (ext_step_spec _ _ _ _ _ ND Ea) as [NDa _]. destruct (ext_step_spec _ _ _ _ _ NDa E1) as [_ [_ [K1 _]]].
    apply ext_step_none in Ec. rewrite (Hb1 _ _ eq_refl) in K1. congruence.
  - destruct (ext_step a tc oc) as [[r o2]|] eqn:E2; [|exact I].
    destruct (ext_step_spec _ _ _ _ _ ND Ec) as [NDc _]. destruct (ext_step_spec _ _ _ _ _ NDc E2) as [_ [_ [K2 _]]].
    apply ext_step_none in Ea. rewrite (Hb2 _ _ eq_refl) in K2. congruence.
  - exact I.
Qed.

(* reorderings of the extensions that keep the relative order of the extensions of one type *)
Inductive ext_perm : list definition -> list definition -> Prop :=
| EP_refl : forall l, ext_perm l l
| EP_swap : forall a c l, df_name a <> df_name c -> ext_perm (a :: c :: l) (c :: a :: l)
| EP_skip : forall a l l', ext_perm l l' -> ext_perm (a :: l) (a :: l')
| EP_trans : forall l1 l2 l3, ext_perm l1 l2 -> ext_perm l2 l3 -> ext_perm l1 l3.

Definition mres := option (list (str * definition) * list str).
Definition mrel (x y : mres) : Prop :=
  match x, y with
  | Some (r, o2), Some (r', o2') => teq r r' /\ Permutation o2 o2'
  | None, None => True
  | _, _ => False
  end.

Lemma teq_trans : forall A (a c e : list (str * A)), teq a c -> teq c e -> teq a e.
Proof. intros A a c e [N1 [_ H1]] [_ [N3 H2]]. split; [exact N1|]. split; [exact N3|]. intro k. rewrite H1. apply H2. Qed.

Lemma teq_refl : forall A (a : list (str * A)), NoDup (keys a) -> teq a a.
Proof. intros A a N. split; [exact N|]. split; [exact N|]. reflexivity. Qed.

Lemma mrel_trans : forall x y z, mrel x y -> mrel y z -> mrel x z.
Proof.
  intros [[r1 o1]|] [[r2 o2]|] [[r3 o3]|]; cbn; try tauto.
  intros [H1 P1] [H2 P2]. split; [eapply teq_trans; eassumption|eapply Permutation_trans; eassumption].
Qed.

Lemma merge_exts_ext_perm : forall es es', ext_perm es es' ->
  forall t t' o o', teq t t' -> Permutation o o' -> mrel (merge_exts es t o) (merge_exts es' t' o').
Proof.
  intros es es' H. induction H as [l|a c l Hne|a l l' H IH|l1 l2 l3 H1 IH1 H2 IH2]; intros t t' o o' Ht Po.
  - exact (merge_exts_teq l t t' o o' Ht Po).
  - eapply mrel_trans; [|exact (merge_exts_teq (c :: a :: l) t t' o o' Ht Po)].
    rewrite !merge_exts_step.
    pose proof (ext_steps_commute a c t o (proj1 Ht) Hne) as Hc.
    destruct (ext_step a t o) as [[ta oa]|]; destruct (ext_step c t o) as [[tc oc]|].
    + rewrite !merge_exts_step.
      destruct (ext_step c ta oa) as [[r o2]|]; destruct (ext_step a tc oc) as [[r' o2']|]; try contradiction; [|exact I].
      destruct Hc as [Hr Ho]. exact (merge_exts_teq l r r' o2 o2' Hr Ho).
    + rewrite merge_exts_step. destruct (ext_step c ta oa) as [[r o2]|]; [contradiction|exact I].
    + rewrite merge_exts_step. destruct (ext_step a tc oc) as [[r o2]|]; [contradiction|exact I].
    + exact I.
  - rewrite !merge_exts_step.
    pose proof (merge_exts_teq [a] t t' o o' Ht Po) as Hs. rewrite !merge_exts_step in Hs. cbn [merge_exts] in Hs.
    destruct (ext_step a t o) as [[t1 o1]|]; destruct (ext_step a t' o') as [[t1' o1']|]; try contradiction; [|exact I].
    destruct Hs as [Ht1 Po1]. apply IH; assumption.
  - eapply mrel_trans; [apply (IH1 t t o o); [apply teq_refl; exact (proj1 Ht)|reflexivity]|].
    apply IH2; assumption.
Qed.

Definition with_defs_exts (sd : sdoc) (ds es : list definition) : sdoc :=
  mkSDoc sd.(s_schema) sd.(s_schemaext) sd.(s_dirs) ds es sd.(s_pos).

(* Definitions in any order, extensions in any order that keeps the extensions of one type in
   their relative order: the same verdict, and on success the same schema up to the order of table
   entries and of the members of the possible-type and implementer lists. *)
Theorem load_order_independent : forall sd ds' es',
  Permutation sd.(s_defs) ds' -> ext_perm sd.(s_exts) es' ->
  match validateSchemaDocument sd, validateSchemaDocument (with_defs_exts sd ds' es') with
  | Some s, Some s' => schema_eq s s'
  | None, None => True
  | _, _ => False
  end.
Proof.
  intros sd ds' es' P E. rewrite !validateSchemaDocument_stages. cbn [with_defs_exts s_defs s_exts s_dirs].
  pose proof (add_defs_perm _ _ P) as H1.
  destruct (add_defs (s_defs sd) []) as [t0|]; destruct (add_defs ds' []) as [t0'|]; try contradiction; [|exact I].
  pose proof (merge_exts_ext_perm _ _ E t0 t0' (map df_name (s_defs sd)) (map df_name ds') H1 (Permutation_map _ P)) as H2.
  unfold mrel in H2.
  destruct (merge_exts (s_exts sd) t0 (map df_name (s_defs sd))) as [[t o]|];
    destruct (merge_exts es' t0' (map df_name ds')) as [[t' o']|]; try contradiction; [|exact I].
  destruct H2 as [Ht Po].
  destruct (add_dirs (s_dirs sd) []) as [dirs|]; [|exact I].
  change (finish_load (with_defs_exts sd ds' es')) with (finish_load sd).
  destruct (relations_releq t t' o o' Ht Po) as [Hp Hi].
  apply finish_load_congr; assumption.
Qed.
