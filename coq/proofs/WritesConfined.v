(* WritesConfined.v — C11, static half: over the table of write sites regenerated from /repo's
   sources (gen/Writes.v), no code outside the parsers and the schema loader writes through a
   pointer into a schema-owned object, and package-level state is written only by the rule
   registry functions.  Decided by computation over the finite table. *)
From Coq Require Import List String Bool.
From GQL.gen Require Import Writes.
Import ListNotations.
Open Scope string_scope.

Definition row := (string * string * nat * string * string * string * string)%type.

Definition schema_owned (t : string) : bool :=
  existsb (String.eqb t)
    ["ast.Schema"; "ast.Definition"; "ast.FieldDefinition"; "ast.ArgumentDefinition";
     "ast.EnumValueDefinition"; "ast.DirectiveDefinition"; "ast.Type"; "ast.SchemaDocument";
     "ast.SchemaDefinition"; "ast.OperationTypeDefinition"; "ast.Source"].

Definition starts_with (p s : string) : bool := String.prefix p s.

(* code that builds a schema before it is handed out: the parsers and the loader *)
(* in ast/document.go only the four builder methods the loader calls: any other method of Schema
   (a getter that caches, say) is code that runs on a schema already handed out *)
Definition builder_method (fn : string) : bool :=
  existsb (String.eqb fn) ["ast.Schema.AddTypes"; "ast.Schema.AddPossibleType"; "ast.Schema.AddImplements"; "ast.SchemaDocument.Merge"].

Definition builds_schema (file fn : string) : bool :=
  starts_with "parser/" file || String.eqb file "validator/schema.go"
  || (String.eqb file "ast/document.go" && builder_method fn)
  || String.eqb file "lexer/lexer.go".

Definition registry_function (fn : string) : bool :=
  existsb (String.eqb fn) ["init"; "AddRule"; "RemoveRule"; "ReplaceRule"].

Definition row_ok (r : row) : bool :=
  let '(pkg, file, line, fn, kind, typ, fld) := r in
  if schema_owned typ then builds_schema file fn
  else if String.eqb kind "pkgvar" then registry_function fn
  else true.

Theorem writes_confined : forallb row_ok write_sites = true.
Proof. vm_compute. reflexivity. Qed.

(* what the boolean means *)
Corollary writes_confined_spec : forall pkg file line fn kind typ fld,
  In (pkg, file, line, fn, kind, typ, fld) write_sites ->
  (schema_owned typ = true -> builds_schema file fn = true) /\
  (schema_owned typ = false -> kind = "pkgvar" -> registry_function fn = true).
Proof.
  intros. pose proof writes_confined as H0. rewrite forallb_forall in H0. specialize (H0 _ H).
  unfold row_ok in H0. destruct (schema_owned typ); split; intros; try discriminate; auto.
  subst kind. rewrite String.eqb_refl in H0. exact H0.
Qed.

Lemma table_nonempty : Nat.leb 100 (List.length write_sites) = true.
Proof. vm_compute. reflexivity. Qed.
