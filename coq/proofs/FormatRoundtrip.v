(* FormatRoundtrip.v — C12 for whole documents: the text FormatQueryDocument prints, under every option
   set of the model (indent strings of blanks and tabs, compact or not), is parsed back by parseQuery,
   with the fuel it gives itself, as the document that was printed: positions erased, block strings
   read as strings, an empty alias read as the field name (norm_doc). *)
From Coq Require Import List NArith ZArith Lia Bool.
From GQL.model Require Import Base Utf8 Lexer Ast Schema Parser Prog ParseQuery Format.
From GQL.proofs Require Import TypeRoundtrip ValueRoundtrip TokenStream JsonRoundtrip ParseComplete Sizes FormatTokens.
Import ListNotations.

Theorem format_parse_entry : forall d o q,
  Forall ign_char (fo_indent o) -> d F_L1 = false -> doc_lok q -> doc_wok d (norm_doc q) ->
  exists q', parseQuery d 0 (FormatQueryDocument o q) = POk q' /\ erase_qdoc q' = erase_qdoc (norm_doc q).
Proof.
  intros d o q Hind Hd Hl Hw.
  exact (parseQuery_complete_entry d (norm_doc q) (FormatQueryDocument o q) Hw (format_tokens d o Hind Hd q Hl)).
Qed.

