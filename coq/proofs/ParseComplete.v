(* ParseComplete.v — the query parser over token sequences: every executable document, written as the
   token sequence of the grammar (the flat_ functions), is parsed back as that document (positions erased), by
   every production: values, types, arguments, directives, variable definitions, selections,
   operations, fragments and whole documents.  Completeness and determinism of the parser against the
   tree-shaped grammar; layout never enters (TokenStream.v). *)
From Coq Require Import List NArith ZArith Lia Bool.
From GQL.model Require Import Base Utf8 Lexer Ast Parser Prog ParseQuery.
From GQL.proofs Require Import StrFacts ProgFacts ParserTotal TypeRoundtrip ValueRoundtrip TokenStream JsonRoundtrip.
Import ListNotations.
Open Scope N_scope.

Definition P (k : kind) : tk := (k, []).

(* ------------------------------------------------------------------ *)
(* the grammar as token sequences                                      *)
Fixpoint flat_value (v : value) : list tk :=
  match v with
  | mkValue k raw ch _ =>
    match k with
    | VVar => [P Dollar; (Name, raw)]
    | VInt => [(Int, raw)]
    | VFloat => [(Float, raw)]
    | VString => [(String_, raw)]
    | VBlock => [(BlockString, raw)]
    | VEnum | VBool | VNull => [(Name, raw)]
    | VList => P BracketL :: flat_map (fun c => let '(_, _, cv) := c in flat_value cv) ch ++ [P BracketR]
    | VObject => P BraceL :: flat_map (fun c => let '(n, _, cv) := c in (Name, n) :: P Colon :: flat_value cv) ch ++ [P BraceR]
    end
  end.

Fixpoint flat_type (t : type_) : list tk :=
  match t with
  | NamedT n nn _ => (Name, n) :: (if nn then [P Bang] else [])
  | ListT e nn _ => P BracketL :: flat_type e ++ P BracketR :: (if nn then [P Bang] else [])
  end.

Definition flat_arg (a : argument) : list tk := (Name, a.(a_name)) :: P Colon :: flat_value a.(a_value).
Definition flat_args (l : list argument) : list tk :=
  match l with [] => [] | _ => P ParenL :: flat_map flat_arg l ++ [P ParenR] end.
Definition flat_dir (x : directive) : list tk := P At :: (Name, x.(d_name)) :: flat_args x.(d_args).
Definition flat_dirs (l : list directive) : list tk := flat_map flat_dir l.
Definition flat_vardef (v : vardef) : list tk :=
  P Dollar :: (Name, v.(vd_var)) :: P Colon :: flat_type v.(vd_type)
  ++ match v.(vd_default) with Some dv => P Equals :: flat_value dv | None => [] end
  ++ flat_dirs v.(vd_dirs).
Definition flat_vardefs (l : list vardef) : list tk :=
  match l with [] => [] | _ => P ParenL :: flat_map flat_vardef l ++ [P ParenR] end.

(* ------------------------------------------------------------------ *)
(* which trees the grammar describes                                   *)
Fixpoint vt_ok (v : value) : Prop :=
  match v with
  | mkValue k raw ch _ =>
    match k with
    | VList => raw = [] /\ (fix all (l : list (str * option pos * value)) : Prop :=
                              match l with [] => True | (n, _, cv) :: tl => n = [] /\ vt_ok cv /\ all tl end) ch
    | VObject => raw = [] /\ (fix all (l : list (str * option pos * value)) : Prop :=
                                match l with [] => True | (_, _, cv) :: tl => vt_ok cv /\ all tl end) ch
    | VEnum | VBool | VNull => k = word_kind raw /\ ch = []
    | _ => ch = []
    end
  end.

Fixpoint has_var (v : value) : bool :=
  match v with
  | mkValue k _ ch _ =>
    match k with VVar => true | _ => existsb (fun c => let '(_, _, cv) := c in has_var cv) ch end
  end.

(* a value allowed where isConst holds *)
Definition const_ok (isConst : bool) (v : value) : Prop := isConst = true -> has_var v = false.

Fixpoint type_depth' (t : type_) : nat := match t with NamedT _ _ _ => 1 | ListT e _ _ => S (type_depth' e) end.

(* intrinsic conditions: what the grammar cannot say otherwise *)
Definition args_wok (isConst : bool) (l : list argument) : Prop :=
  Forall (fun a => vt_ok a.(a_value) /\ const_ok isConst a.(a_value)) l.
Definition dirs_wok (isConst : bool) (l : list directive) : Prop := Forall (fun x => args_wok isConst x.(d_args)) l.
Fixpoint sel_wok (s : selection) : Prop :=
  match s with
  | SField _ _ args dirs sels _ =>
    args_wok false args /\ dirs_wok false dirs
    /\ (fix all (l : list selection) : Prop := match l with [] => True | c :: tl => sel_wok c /\ all tl end) sels
  | SSpread n dirs _ => str_eqb n (b "on") = false /\ dirs_wok false dirs
  | SInline _ dirs sels _ =>
    dirs_wok false dirs /\ sels <> []
    /\ (fix all (l : list selection) : Prop := match l with [] => True | c :: tl => sel_wok c /\ all tl end) sels
  end.

Fixpoint flat_sel (s : selection) : list tk :=
  let set (l : list selection) : list tk :=
      match l with [] => [] | _ => P BraceL :: flat_map flat_sel l ++ [P BraceR] end in
  match s with
  | SField al n args dirs sels _ =>
    (if str_eqb al n then [(Name, n)] else [(Name, al); P Colon; (Name, n)])
    ++ flat_args args ++ flat_dirs dirs ++ set sels
  | SSpread n dirs _ => P Spread :: (Name, n) :: flat_dirs dirs
  | SInline tc dirs sels _ =>
    P Spread :: match tc with [] => [] | _ => [(Name, b "on"); (Name, tc)] end
    ++ flat_dirs dirs ++ P BraceL :: flat_map flat_sel sels ++ [P BraceR]
  end.
Definition flat_selset (l : list selection) : list tk := P BraceL :: flat_map flat_sel l ++ [P BraceR].
Definition flat_optset (l : list selection) : list tk := match l with [] => [] | _ => flat_selset l end.

(* sizes: nesting and the longest list *)
Definition args_depth (l : list argument) : nat := fold_right (fun a acc => Nat.max (value_depth a.(a_value)) acc) O l.
Definition args_width (l : list argument) : nat := Nat.max (length l) (fold_right (fun a acc => Nat.max (value_width a.(a_value)) acc) O l).
Definition dirs_depth (l : list directive) : nat := fold_right (fun x acc => Nat.max (args_depth x.(d_args)) acc) O l.
Definition dirs_width (l : list directive) : nat := Nat.max (length l) (fold_right (fun x acc => Nat.max (args_width x.(d_args)) acc) O l).
Fixpoint sel_depth (s : selection) : nat :=
  match s with
  | SField _ _ args dirs sels _ => S (Nat.max (args_depth args) (Nat.max (dirs_depth dirs) (fold_right (fun c acc => Nat.max (sel_depth c) acc) O sels)))
  | SSpread _ dirs _ => S (dirs_depth dirs)
  | SInline _ dirs sels _ => S (Nat.max (dirs_depth dirs) (fold_right (fun c acc => Nat.max (sel_depth c) acc) O sels))
  end.
Fixpoint sel_width (s : selection) : nat :=
  match s with
  | SField _ _ args dirs sels _ =>
    Nat.max (args_width args) (Nat.max (dirs_width dirs) (Nat.max (length sels) (fold_right (fun c acc => Nat.max (sel_width c) acc) O sels)))
  | SSpread _ dirs _ => dirs_width dirs
  | SInline _ dirs sels _ => Nat.max (dirs_width dirs) (Nat.max (length sels) (fold_right (fun c acc => Nat.max (sel_width c) acc) O sels))
  end.
Definition sels_depth (l : list selection) : nat := fold_right (fun c acc => Nat.max (sel_depth c) acc) O l.
Definition sels_width (l : list selection) : nat := Nat.max (length l) (fold_right (fun c acc => Nat.max (sel_width c) acc) O l).


(* operations, fragments, documents *)
Definition optype_kw (op : optype) : str :=
  match op with OpQuery => b "query" | OpMutation => b "mutation" | OpSubscription => b "subscription" | OpNone => [] end.
Definition flat_op (o : opdef) : list tk :=
  (Name, optype_kw o.(o_op)) :: match o.(o_name) with [] => [] | n => [(Name, n)] end
  ++ flat_vardefs o.(o_vars) ++ flat_dirs o.(o_dirs) ++ flat_selset o.(o_sels).
Definition flat_frag (f : fragdef) : list tk :=
  (Name, b "fragment") :: (Name, f.(f_name)) :: flat_vardefs f.(f_vars)
  ++ (Name, b "on") :: (Name, f.(f_typecond)) :: flat_dirs f.(f_dirs) ++ flat_selset f.(f_sels).
Definition flat_qdef (x : qdef) : list tk :=
  match x with QOp o => flat_op o | QFrag f => flat_frag f | QNone => [] end.
Definition doc_defs (q : qdoc) : list qdef := map QOp q.(q_ops) ++ map QFrag q.(q_frags).
Definition flat_doc (q : qdoc) : list tk := flat_map flat_qdef (doc_defs q).

Definition vardef_depth (v : vardef) : nat :=
  Nat.max (type_depth' v.(vd_type))
          (Nat.max (match v.(vd_default) with Some dv => value_depth dv | None => O end) (dirs_depth v.(vd_dirs))).
Definition vardef_width (v : vardef) : nat :=
  Nat.max (match v.(vd_default) with Some dv => value_width dv | None => O end) (dirs_width v.(vd_dirs)).
Definition vardefs_depth (l : list vardef) : nat := fold_right (fun v acc => Nat.max (vardef_depth v) acc) O l.
Definition vardefs_width (l : list vardef) : nat := Nat.max (length l) (fold_right (fun v acc => Nat.max (vardef_width v) acc) O l).
Definition op_depth (o : opdef) : nat := Nat.max (vardefs_depth o.(o_vars)) (Nat.max (dirs_depth o.(o_dirs)) (sels_depth o.(o_sels))).
Definition op_width (o : opdef) : nat := Nat.max (vardefs_width o.(o_vars)) (Nat.max (dirs_width o.(o_dirs)) (sels_width o.(o_sels))).
Definition frag_depth (f : fragdef) : nat := Nat.max (vardefs_depth f.(f_vars)) (Nat.max (dirs_depth f.(f_dirs)) (sels_depth f.(f_sels))).
Definition frag_width (f : fragdef) : nat := Nat.max (vardefs_width f.(f_vars)) (Nat.max (dirs_width f.(f_dirs)) (sels_width f.(f_sels))).
Definition qdef_depth (x : qdef) : nat := match x with QOp o => op_depth o | QFrag f => frag_depth f | QNone => O end.
Definition qdef_width (x : qdef) : nat := match x with QOp o => op_width o | QFrag f => frag_width f | QNone => O end.
Definition doc_depth (q : qdoc) : nat := fold_right (fun x acc => Nat.max (qdef_depth x) acc) O (doc_defs q).
Definition doc_width (q : qdoc) : nat := Nat.max (length (doc_defs q)) (fold_right (fun x acc => Nat.max (qdef_width x) acc) O (doc_defs q)).

Definition vardef_wok (d : dev) (v : vardef) : Prop :=
  match v.(vd_default) with Some dv => vt_ok dv /\ has_var dv = false | None => True end
  /\ dirs_wok (negb (d F_Q1)) v.(vd_dirs).
Definition op_wok (d : dev) (o : opdef) : Prop :=
  o.(o_op) <> OpNone /\ Forall (vardef_wok d) o.(o_vars) /\ dirs_wok false o.(o_dirs)
  /\ o.(o_sels) <> [] /\ Forall sel_wok o.(o_sels).
Definition frag_wok (d : dev) (f : fragdef) : Prop :=
  str_eqb f.(f_name) (b "on") = false /\ (d F_Q4 = true \/ f.(f_vars) = []) /\ Forall (vardef_wok d) f.(f_vars)
  /\ dirs_wok false f.(f_dirs) /\ f.(f_sels) <> [] /\ Forall sel_wok f.(f_sels).
Definition qdef_wok (d : dev) (x : qdef) : Prop :=
  match x with QOp o => op_wok d o | QFrag f => frag_wok d f | QNone => False end.
Definition doc_wok (d : dev) (q : qdoc) : Prop :=
  Forall (qdef_wok d) (doc_defs q) /\ (doc_defs q <> [] \/ d F_Q3 = true).

Definition erase_qdef (x : qdef) : qdef :=
  match x with QOp o => QOp (erase_op o) | QFrag f => QFrag (erase_frag f) | QNone => QNone end.

(* ------------------------------------------------------------------ *)
Lemma flat_value_first : forall v rest, fk (flat_value v ++ rest) <> BracketR /\ fk (flat_value v ++ rest) <> BraceR.
Proof. intros [k raw ch p] rest. destruct k; cbn; split; discriminate. Qed.

Lemma children_facts : forall (ch : list (str * option pos * value)) c, In c ch ->
  (value_depth (snd c) <= fold_right (fun c acc => Nat.max (match c with (_, _, cv) => value_depth cv end) acc) O ch)%nat
  /\ (value_width (snd c) <= fold_right (fun c acc => Nat.max (match c with (_, _, cv) => value_width cv end) acc) O ch)%nat.
Proof.
  induction ch as [|[[n o] cv] tl IH]; intros c Hin; [destruct Hin|]. cbn [fold_right].
  destruct Hin as [<-|Hin]; [cbn [snd]; lia|]. destruct (IH c Hin). lia.
Qed.

Lemma BracketR_not_eof : BracketR <> EOF. Proof. discriminate. Qed.
Lemma BraceR_not_eof : BraceR <> EOF. Proof. discriminate. Qed.
Lemma ParenR_not_eof : ParenR <> EOF. Proof. discriminate. Qed.

Lemma neq_sym : forall (A : Type) (x y : A), x <> y -> y <> x.
Proof. intros A x y H E. apply H. symmetry. exact E. Qed.
Notation "x |> f" := (f _ _ _ x) (at level 40, only parsing).

Section Productions.
  Variable d : dev.
  Variable F : nat.

  Theorem parse_value : forall v, vt_ok v ->
    forall fuel isConst s rest, (value_depth v <= fuel)%nat -> (value_width v < F)%nat -> const_ok isConst v ->
    stream d s (flat_value v ++ rest) ->
    exists v' s1, run d (parseValueLiteral fuel isConst) F s = (v', s1) /\ erase_value v' = erase_value v /\ stream d s1 rest.
  Proof.
    induction v as [k raw ch p IH] using value_ind'.
    intros Hok fuel isConst s rest Hdep Hwid Hc Hs.
    destruct fuel as [|f]; [cbn in Hdep; lia|]. cbn [parseValueLiteral run].
    destruct (peek_stream d s _ Hs) as [t [s1 [E1 [Hk [H1 Hv]]]]]. rewrite E1. cbv beta iota zeta. cbn [run].
    assert (Hlit : forall k0 kt, flat_value (mkValue k raw ch p) = [(kt, raw)] -> ch = [] -> k0 = k ->
              exists v' s2, run d (_ <- Next ;; Ret (mkValue k0 (tval t) [] (pos_of_tok (src s1) t))) F s1 = (v', s2)
                            /\ erase_value v' = erase_value (mkValue k raw ch p) /\ stream d s2 rest).
    { intros k0 kt Hf Hch ->. rewrite Hf in H1, Hv. cbn [app] in H1, Hv. cbn [run].
      destruct (next_stream d s1 kt raw rest H1) as [t2 [s2 [E2 [_ [_ H2]]]]]. rewrite E2. cbn [run].
      eexists. exists s2. split; [reflexivity|]. split; [subst ch; rewrite Hv; reflexivity|exact H2]. }
    destruct k.
    - (* a variable *)
      cbn [flat_value app fk] in Hk, H1. unfold P in Hk. rewrite Hk. cbv beta iota.
      assert (isConst = false) as -> by (destruct isConst; [specialize (Hc eq_refl); discriminate|reflexivity]).
      unfold parseVariable. cbn [run].
      destruct (s_expect d F Dollar s1 [] _ H1) as [t2 [s2 [E2 [_ [_ H2]]]]]. rewrite E2.
      destruct (s_parseName d F s2 raw rest H2) as [s3 [E3 H3]]. rewrite E3. cbn [run].
      cbn in Hok. subst ch. eexists. exists s3. split; [reflexivity|]. split; [reflexivity|exact H3].
    - cbn [flat_value app fk] in Hk. rewrite Hk. cbv beta iota. apply (Hlit VInt Int); [reflexivity|exact Hok|reflexivity].
    - cbn [flat_value app fk] in Hk. rewrite Hk. cbv beta iota. apply (Hlit VFloat Float); [reflexivity|exact Hok|reflexivity].
    - cbn [flat_value app fk] in Hk. rewrite Hk. cbv beta iota. apply (Hlit VString String_); [reflexivity|exact Hok|reflexivity].
    - cbn [flat_value app fk] in Hk. rewrite Hk. cbv beta iota. apply (Hlit VBlock BlockString); [reflexivity|exact Hok|reflexivity].
    - cbn [flat_value app fk] in Hk, Hv. rewrite Hk. cbv beta iota. destruct Hok as [Hw Hch]. apply (Hlit _ Name); [reflexivity|exact Hch|].
      rewrite Hv. exact (eq_sym Hw).
    - cbn [flat_value app fk] in Hk, Hv. rewrite Hk. cbv beta iota. destruct Hok as [Hw Hch]. apply (Hlit _ Name); [reflexivity|exact Hch|].
      rewrite Hv. exact (eq_sym Hw).
    - cbn [flat_value app fk] in Hk, Hv. rewrite Hk. cbv beta iota. destruct Hok as [Hw Hch]. apply (Hlit _ Name); [reflexivity|exact Hch|].
      rewrite Hv. exact (eq_sym Hw).
    - (* a list *)
      clear Hlit. cbn [flat_value app fk] in Hk, H1. unfold P in Hk. rewrite Hk. cbv beta iota. cbn [run].
      destruct Hok as [-> Hch].
      destruct (s_peekPos d F s1 _ H1) as [pp [s2 [E2 H2]]]. rewrite E2. cbv beta iota. cbn [run].
      match goal with |- context [run d (many BracketL BracketR ?c) F s2] => set (cb := c) end.
      set (etoks := fun c : str * option pos * value => flat_value (snd c)).
      set (R := fun (c x : str * option pos * value) => fst (fst x) = [] /\ snd (fst x) = None /\ erase_value (snd x) = erase_value (snd c)).
      assert (Hflat : flat_map (fun c : str * option pos * value => let '(_, _, cv) := c in flat_value cv) ch = flat_map etoks ch).
      { apply flat_map_ext. intros [[n o] cv]. reflexivity. }
      rewrite Hflat, <- app_assoc in H2. cbn [app] in H2.
      assert (Helems : Forall (elem_spec d F _ _ BracketR cb etoks R (fun _ => True)) ch).
      { rewrite Forall_forall in IH. apply Forall_forall. intros c Hin. split.
        - intro r. split; [exact (proj1 (flat_value_first (snd c) r))|exact I].
        - intros s0 r Hs0 _. unfold cb. cbn [run].
          assert (Hcv : vt_ok (snd c) /\ has_var (snd c) = false \/ True) by (right; exact I). clear Hcv.
          assert (Hc1 : vt_ok (snd c) /\ const_ok isConst (snd c)).
          { clear - Hin Hch Hc. induction ch as [|[[n1 o1] c1] tl IHl]; [destruct Hin|].
            destruct Hch as [_ [Hc1 Htl]]. unfold const_ok in *. cbn [has_var existsb] in Hc.
            destruct Hin as [<-|Hin].
            - split; [exact Hc1|]. intro Hi. specialize (Hc Hi). apply orb_false_elim in Hc. exact (proj1 Hc).
            - apply IHl; try assumption. intro Hi. specialize (Hc Hi). apply orb_false_elim in Hc. exact (proj2 Hc). }
          destruct (children_facts ch c Hin) as [Hd1 Hw1]. cbn [value_depth value_width] in Hdep, Hwid.
          destruct (IH c Hin (proj1 Hc1) f isConst s0 r ltac:(lia) ltac:(lia) (proj2 Hc1) Hs0) as [v' [s' [E [Ev Hs']]]].
          rewrite E. cbn [run]. eexists. exists s'. split; [reflexivity|]. split; [|exact Hs']. unfold R. cbn [fst snd]. auto. }
      assert (Hlen : (length ch < F)%nat) by (cbn [value_width] in Hwid; lia).
      destruct (many_stream d F _ _ BracketR cb etoks R (fun _ => True) I BracketL ch Helems s2 rest Hlen H2) as [xs [s3 [E3 [R3 H3]]]].
      rewrite E3. cbn [run]. eexists. exists s3. split; [reflexivity|]. split; [|exact H3].
      cbn [erase_value]. f_equal.
      clear - R3 Hch. induction R3 as [|[[n o] cv] [[n' o'] v'] l l' [A [B C]] _ IHf]; [reflexivity|]. cbn [map]. cbn [fst snd] in A, B, C. subst.
      destruct Hch as [-> [_ Hl]]. rewrite C, (IHf Hl). reflexivity.
    - (* an input object *)
      clear Hlit. cbn [flat_value app fk] in Hk, H1. unfold P in Hk. rewrite Hk. cbv beta iota. cbn [run].
      destruct Hok as [-> Hch].
      destruct (s_peekPos d F s1 _ H1) as [pp [s2 [E2 H2]]]. rewrite E2. cbv beta iota. cbn [run].
      match goal with |- context [run d (many BraceL BraceR ?c) F s2] => set (cb := c) end.
      set (etoks := fun c : str * option pos * value => (Name, fst (fst c)) :: P Colon :: flat_value (snd c)).
      set (R := fun (c x : str * option pos * value) => fst (fst x) = fst (fst c) /\ erase_value (snd x) = erase_value (snd c)).
      assert (Hflat : flat_map (fun c : str * option pos * value => let '(n, _, cv) := c in (Name, n) :: P Colon :: flat_value cv) ch = flat_map etoks ch).
      { apply flat_map_ext. intros [[n o] cv]. reflexivity. }
      rewrite Hflat, <- app_assoc in H2. cbn [app] in H2.
      assert (Helems : Forall (elem_spec d F _ _ BraceR cb etoks R (fun _ => True)) ch).
      { rewrite Forall_forall in IH. apply Forall_forall. intros c Hin. split.
        - intro r. split; [cbn; discriminate|exact I].
        - intros s0 r Hs0 _. unfold cb. cbn [run].
          assert (Hc1 : vt_ok (snd c) /\ const_ok isConst (snd c)).
          { clear - Hin Hch Hc. induction ch as [|[[n1 o1] c1] tl IHl]; [destruct Hin|].
            destruct Hch as [Hc1 Htl]. unfold const_ok in *. cbn [has_var existsb] in Hc.
            destruct Hin as [<-|Hin].
            - split; [exact Hc1|]. intro Hi. specialize (Hc Hi). apply orb_false_elim in Hc. exact (proj1 Hc).
            - apply IHl; try assumption. intro Hi. specialize (Hc Hi). apply orb_false_elim in Hc. exact (proj2 Hc). }
          destruct (children_facts ch c Hin) as [Hd1 Hw1]. cbn [value_depth value_width] in Hdep, Hwid.
          unfold etoks in Hs0. cbn [app] in Hs0.
          destruct (s_peekPos d F s0 _ Hs0) as [fp [sa [Ea Ha]]]. rewrite Ea.
          destruct (s_parseName d F sa _ _ Ha) as [sb [Eb Hb]]. rewrite Eb.
          destruct (s_expect d F Colon sb [] _ Hb) as [tc [sc [Ec [_ [_ Hc']]]]]. rewrite Ec.
          destruct (IH c Hin (proj1 Hc1) f isConst sc r ltac:(lia) ltac:(lia) (proj2 Hc1) Hc') as [v' [s' [E [Ev Hs']]]].
          rewrite E. cbn [run]. eexists. exists s'. split; [reflexivity|]. split; [|exact Hs']. unfold R. cbn [fst snd]. auto. }
      assert (Hlen : (length ch < F)%nat) by (cbn [value_width] in Hwid; lia).
      destruct (many_stream d F _ _ BraceR cb etoks R (fun _ => True) I BraceL ch Helems s2 rest Hlen H2) as [xs [s3 [E3 [R3 H3]]]].
      rewrite E3. cbn [run]. eexists. exists s3. split; [reflexivity|]. split; [|exact H3].
      cbn [erase_value]. f_equal.
      clear - R3. induction R3 as [|[[n o] cv] [[n' o'] v'] l l' [A C] _ IHf]; [reflexivity|]. cbn [map]. cbn [fst snd] in A, C. subst.
      rewrite C, IHf. reflexivity.
  Qed.

  (* ---- types ---- *)
  Theorem parse_type : forall t fuel s rest, (type_depth' t <= fuel)%nat -> fk rest <> Bang ->
    stream d s (flat_type t ++ rest) ->
    exists t' s1, run d (parseTypeReference fuel) F s = (t', s1) /\ erase_type t' = erase_type t /\ stream d s1 rest.
  Proof.
    induction t as [n nn p|e IH nn p]; intros fuel s rest Hf Hr Hs; (destruct fuel as [|f]; [cbn in Hf; lia|]); cbn [parseTypeReference run].
    - cbn [flat_type app] in Hs.
      destruct (s_skip_no d F BracketL s _ Hs) as [s1 [E1 H1]]; [cbn; discriminate|]. rewrite E1. cbn [run].
      destruct (s_peekPos d F s1 _ H1) as [pp [s2 [E2 H2]]]. rewrite E2.
      destruct (s_parseName d F s2 _ _ H2) as [s3 [E3 H3]]. rewrite E3.
      destruct nn; cbn [app] in H3.
      + destruct (s_skip_yes d F Bang s3 [] _ H3) as [s4 [E4 H4]]. rewrite E4. cbn [run]. eexists. exists s4. auto.
      + destruct (s_skip_no d F Bang s3 _ H3 Hr) as [s4 [E4 H4]]. rewrite E4. cbn [run]. eexists. exists s4. auto.
    - cbn [flat_type app] in Hs.
      destruct (s_skip_yes d F BracketL s [] _ Hs) as [s1 [E1 H1]]. rewrite E1. cbn [run].
      destruct (s_peekPos d F s1 _ H1) as [pp [s2 [E2 H2]]]. rewrite E2.
      rewrite <- app_assoc in H2. cbn [app] in H2.
      assert (Hf' : (type_depth' e <= f)%nat) by (cbn in Hf; lia).
      assert (Hnb : fk (P BracketR :: (if nn then [P Bang] else []) ++ rest) <> Bang) by (cbn; discriminate).
      destruct (IH f s2 _ Hf' Hnb H2) as [e' [s3 [E3 [Ee H3]]]]. rewrite E3.
      destruct (s_expect d F BracketR s3 [] _ H3) as [tb [s4 [E4 [_ [_ H4]]]]]. rewrite E4.
      destruct nn; cbn [app] in H4.
      + destruct (s_skip_yes d F Bang s4 [] _ H4) as [s5 [E5 H5]]. rewrite E5. cbn [run]. eexists. exists s5.
        split; [reflexivity|]. split; [cbn [erase_type]; rewrite Ee; reflexivity|exact H5].
      + destruct (s_skip_no d F Bang s4 _ H4 Hr) as [s5 [E5 H5]]. rewrite E5. cbn [run]. eexists. exists s5.
        split; [reflexivity|]. split; [cbn [erase_type]; rewrite Ee; reflexivity|exact H5].
  Qed.

  (* ---- arguments ---- *)
  Definition arg_ok (isConst : bool) (fuel : nat) (a : argument) : Prop :=
    vt_ok a.(a_value) /\ (value_depth a.(a_value) <= fuel)%nat /\ (value_width a.(a_value) < F)%nat /\ const_ok isConst a.(a_value).

  Lemma parse_argument : forall fuel isConst a s rest, arg_ok isConst fuel a -> stream d s (flat_arg a ++ rest) ->
    exists a' s1, run d (parseArgument fuel isConst) F s = (a', s1) /\ erase_arg a' = erase_arg a /\ stream d s1 rest.
  Proof.
    intros fuel isConst [n v p] s rest [Hok [Hd [Hw Hc]]] Hs. cbn [a_value a_name] in *. unfold flat_arg in Hs. cbn [a_value a_name app] in Hs.
    unfold parseArgument. cbn [run].
    destruct (s_peekPos d F s _ Hs) as [pp [s1 [E1 H1]]]. rewrite E1.
    destruct (s_parseName d F s1 _ _ H1) as [s2 [E2 H2]]. rewrite E2.
    destruct (s_expect d F Colon s2 [] _ H2) as [tc [s3 [E3 [_ [_ H3]]]]]. rewrite E3.
    destruct (parse_value v Hok fuel isConst s3 rest Hd Hw Hc H3) as [v' [s4 [E4 [Ev H4]]]]. rewrite E4. cbn [run].
    eexists. exists s4. split; [reflexivity|]. split; [|exact H4]. unfold erase_arg. cbn [a_name a_value]. rewrite Ev. reflexivity.
  Qed.

  Lemma args_elems : forall fuel isConst l, Forall (arg_ok isConst fuel) l ->
    Forall (elem_spec d F _ _ ParenR (parseArgument fuel isConst) flat_arg (fun a x => erase_arg x = erase_arg a) (fun _ => True)) l.
  Proof.
    intros fuel isConst l H. apply Forall_forall. intros a Hin. rewrite Forall_forall in H. split.
    - intro r. split; [cbn; discriminate|exact I].
    - intros s r Hs _. exact (parse_argument fuel isConst a s r (H a Hin) Hs).
  Qed.

  Lemma Forall2_map_eq : forall (A B C : Type) (f : A -> C) (g : B -> C) l l', Forall2 (fun a x => g x = f a) l l' -> map g l' = map f l.
  Proof. intros A B C f g l l' H. induction H as [|a x l l' E _ IH]; [reflexivity|]. cbn [map]. rewrite E, IH. reflexivity. Qed.

  Lemma parse_arguments : forall fuel isConst l s rest, Forall (arg_ok isConst fuel) l -> (length l < F)%nat ->
    fk rest <> ParenL -> stream d s (flat_args l ++ rest) ->
    exists l' s1, run d (parseArguments fuel isConst) F s = (l', s1) /\ map erase_arg l' = map erase_arg l /\ stream d s1 rest.
  Proof.
    intros fuel isConst l s rest Hl Hn Hr Hs. unfold parseArguments. destruct l as [|a tl].
    - cbn [flat_args app] in Hs. destruct (some_absent d F _ ParenR (parseArgument fuel isConst) ParenL s rest Hs Hr) as [s1 [E1 H1]].
      exists [], s1. auto.
    - set (l := a :: tl) in *. assert (Hs' : stream d s (P ParenL :: flat_map flat_arg l ++ P ParenR :: rest)).
      { unfold flat_args in Hs. unfold l in *. cbn [app] in Hs. rewrite <- app_assoc in Hs. exact Hs. }
      destruct (some_stream d F _ _ ParenR (parseArgument fuel isConst) flat_arg (fun a x => erase_arg x = erase_arg a) (fun _ => True) I ParenL l
                  (@nil_cons _ a tl |> neq_sym) (args_elems fuel isConst l Hl) s rest Hn Hs') as [xs [s1 [E1 [R1 H1]]]].
      exists xs, s1. split; [exact E1|]. split; [exact (Forall2_map_eq _ _ _ erase_arg erase_arg l xs R1)|exact H1].
  Qed.

  (* ---- directives ---- *)
  Definition dir_ok (isConst : bool) (fuel : nat) (x : directive) : Prop :=
    Forall (arg_ok isConst fuel) x.(d_args) /\ (length x.(d_args) < F)%nat.

  Lemma parse_directive : forall fuel isConst x s rest, dir_ok isConst fuel x -> fk rest <> ParenL ->
    stream d s (flat_dir x ++ rest) ->
    exists x' s1, run d (parseDirective fuel isConst) F s = (x', s1) /\ erase_dir x' = erase_dir x /\ stream d s1 rest.
  Proof.
    intros fuel isConst [n args p] s rest [Ha Hn] Hr Hs. cbn [d_args d_name] in *. unfold flat_dir in Hs. cbn [d_args d_name app] in Hs.
    unfold parseDirective. cbn [run].
    destruct (s_expect d F At s [] _ Hs) as [ta [s1 [E1 [_ [_ H1]]]]]. rewrite E1.
    destruct (s_peekPos d F s1 _ H1) as [pp [s2 [E2 H2]]]. rewrite E2.
    destruct (s_parseName d F s2 _ _ H2) as [s3 [E3 H3]]. rewrite E3.
    destruct (parse_arguments fuel isConst args s3 rest Ha Hn Hr H3) as [l' [s4 [E4 [El H4]]]]. rewrite E4. cbn [run].
    eexists. exists s4. split; [reflexivity|]. split; [|exact H4]. unfold erase_dir. cbn [d_name d_args]. rewrite El. reflexivity.
  Qed.

  Lemma flat_dirs_first : forall l rest, fk rest <> ParenL -> fk (flat_dirs l ++ rest) <> ParenL.
  Proof. intros [|x tl] rest H; [exact H|cbn; discriminate]. Qed.

  Definition dirs_body (fuel : nat) (isConst : bool) : prog (option directive) :=
    tok <- Peek ;; e <- HasErr ;;
    if kind_eqb tok.(tkind) At && negb e then (x <- parseDirective fuel isConst ;; Ret (Some x)) else Ret None.

  Lemma parse_directives_iter : forall fuel isConst l, Forall (dir_ok isConst fuel) l ->
    forall n s acc rest, (length l < n)%nat -> fk rest <> At -> fk rest <> ParenL -> stream d s (flat_dirs l ++ rest) ->
    exists l' s1, iter n (run d (dirs_body fuel isConst) F) s acc = (rev acc ++ l', s1)
                  /\ map erase_dir l' = map erase_dir l /\ stream d s1 rest.
  Proof.
    intros fuel isConst l Hl. induction Hl as [|x tl Hx Htl IH]; intros n s acc rest Hn Hr1 Hr2 Hs.
    - destruct n as [|n]; [cbn in Hn; lia|]. cbn [iter]. cbn [flat_dirs flat_map app] in Hs.
      assert (Hstep : exists s1, run d (dirs_body fuel isConst) F s = (None, s1) /\ stream d s1 rest).
      { unfold dirs_body. cbn [run].
        destruct (peek_stream d s _ Hs) as [t [s1 [E0 [Hk [H1 _]]]]]. rewrite E0. rewrite (stream_noerr d s1 _ H1).
        assert (Ek : kind_eqb (tkind t) At = false) by (apply kind_eqb_neq; congruence). rewrite Ek. cbn [andb run].
        exists s1. auto. }
      destruct Hstep as [s1 [E1 H1]]. rewrite E1. exists [], s1. rewrite app_nil_r. auto.
    - destruct n as [|n]; [cbn in Hn; lia|]. cbn [iter]. unfold flat_dirs in Hs. cbn [flat_map] in Hs. rewrite <- app_assoc in Hs.
      assert (Hstep : exists x' s2, run d (dirs_body fuel isConst) F s = (Some x', s2) /\ erase_dir x' = erase_dir x /\ stream d s2 (flat_dirs tl ++ rest)).
      { unfold dirs_body. cbn [run].
        destruct (peek_stream d s _ Hs) as [t [s1 [E0 [Hk [H1 _]]]]]. rewrite E0. rewrite (stream_noerr d s1 _ H1).
        assert (Ek : kind_eqb (tkind t) At = true) by (apply kind_eqb_eq; exact Hk). rewrite Ek. cbn [andb negb run].
        destruct (parse_directive fuel isConst x s1 _ Hx (flat_dirs_first tl rest Hr2) H1) as [x' [s2 [E2 [Ex H2]]]]. rewrite E2. cbn [run].
        exists x', s2. auto. }
      destruct Hstep as [x' [s2 [E2 [Ex H2]]]]. rewrite E2.
      destruct (IH n s2 (x' :: acc) rest ltac:(cbn in Hn; lia) Hr1 Hr2 H2) as [l' [s3 [I1 [I2 I3]]]].
      exists (x' :: l'), s3. split; [rewrite I1; cbn [rev]; rewrite <- app_assoc; reflexivity|]. split; [cbn [map]; rewrite Ex, I2; reflexivity|exact I3].
  Qed.

  Lemma parse_directives : forall fuel isConst l s rest, Forall (dir_ok isConst fuel) l -> (length l < F)%nat ->
    fk rest <> At -> fk rest <> ParenL -> stream d s (flat_dirs l ++ rest) ->
    exists l' s1, run d (parseDirectives fuel isConst) F s = (l', s1) /\ map erase_dir l' = map erase_dir l /\ stream d s1 rest.
  Proof.
    intros fuel isConst l s rest Hl Hn Hr1 Hr2 Hs. unfold parseDirectives. cbn [run].
    destruct (parse_directives_iter fuel isConst l Hl F s [] rest Hn Hr1 Hr2 Hs) as [l' [s1 [I1 [I2 I3]]]].
    exists l', s1. split; [exact I1|auto].
  Qed.

  (* ---- variable definitions ---- *)
  Definition vfol (k : kind) : Prop := k = Dollar \/ k = ParenR.

  Definition vardef_ok (fuel : nat) (v : vardef) : Prop :=
    (type_depth' v.(vd_type) <= fuel)%nat
    /\ match v.(vd_default) with
       | Some dv => vt_ok dv /\ (value_depth dv <= fuel)%nat /\ (value_width dv < F)%nat /\ has_var dv = false
       | None => True
       end
    /\ Forall (dir_ok (negb (d F_Q1)) fuel) v.(vd_dirs) /\ (length v.(vd_dirs) < F)%nat.

  Lemma flat_dirs_fk : forall l rest, fk (flat_dirs l ++ rest) = At \/ fk (flat_dirs l ++ rest) = fk rest.
  Proof. intros [|x tl] rest; [right; reflexivity|left; reflexivity]. Qed.

  Lemma parse_vardef : forall fuel v s rest, vardef_ok fuel v -> vfol (fk rest) -> stream d s (flat_vardef v ++ rest) ->
    exists v' s1, run d (parseVariableDefinition d fuel) F s = (v', s1) /\ erase_vardef v' = erase_vardef v /\ stream d s1 rest.
  Proof.
    intros fuel [n t dv dirs p] s rest [Ht [Hdv [Hdirs Hnd]]] Hr Hs. cbn [vd_var vd_type vd_default vd_dirs] in *.
    unfold flat_vardef in Hs. cbn [vd_var vd_type vd_default vd_dirs app] in Hs.
    unfold parseVariableDefinition, parseVariable. cbn [run].
    destruct (s_peekPos d F s _ Hs) as [pp [s1 [E1 H1]]]. rewrite E1.
    destruct (s_expect d F Dollar s1 [] _ H1) as [td [s2 [E2 [_ [_ H2]]]]]. rewrite E2.
    destruct (s_parseName d F s2 _ _ H2) as [s3 [E3 H3]]. rewrite E3.
    destruct (s_expect d F Colon s3 [] _ H3) as [tc [s4 [E4 [_ [_ H4]]]]]. rewrite E4.
    rewrite <- app_assoc in H4.
    assert (Hr' : fk rest <> At /\ fk rest <> ParenL /\ fk rest <> Bang /\ fk rest <> Equals) by (destruct Hr as [-> | ->]; repeat split; discriminate).
    destruct Hr' as [Hr1 [Hr2 [Hr3 Hr4]]].
    assert (Hnb : fk ((match dv with Some dv0 => P Equals :: flat_value dv0 | None => [] end ++ flat_dirs dirs) ++ rest) <> Bang).
    { destruct dv; [cbn; discriminate|]. cbn [app]. destruct (flat_dirs_fk dirs rest) as [-> | ->]; [discriminate|exact Hr3]. }
    destruct (parse_type t fuel s4 _ Ht Hnb H4) as [t' [s5 [E5 [Et H5]]]]. rewrite E5.
    rewrite <- app_assoc in H5.
    destruct dv as [dv|].
    - cbn [app] in H5. destruct Hdv as [Hv1 [Hv2 [Hv3 Hv4]]].
      destruct (s_skip_yes d F Equals s5 [] _ H5) as [s6 [E6 H6]]. rewrite E6. cbn [run].
      destruct (parse_value dv Hv1 fuel true s6 _ Hv2 Hv3 (fun _ => Hv4) H6) as [dv' [s7 [E7 [Ev H7]]]]. rewrite E7. cbn [run].
      destruct (parse_directives fuel (negb (d F_Q1)) dirs s7 rest Hdirs Hnd Hr1 Hr2 H7) as [l' [s8 [E8 [El H8]]]]. rewrite E8. cbn [run].
      eexists. exists s8. split; [reflexivity|]. split; [|exact H8].
      unfold erase_vardef. cbn [vd_var vd_type vd_default vd_dirs option_map]. rewrite Et, Ev, El. reflexivity.
    - cbn [app] in H5.
      assert (Hne : fk (flat_dirs dirs ++ rest) <> Equals) by (destruct (flat_dirs_fk dirs rest) as [-> | ->]; [discriminate|exact Hr4]).
      destruct (s_skip_no d F Equals s5 _ H5 Hne) as [s6 [E6 H6]]. rewrite E6. cbn [run].
      destruct (parse_directives fuel (negb (d F_Q1)) dirs s6 rest Hdirs Hnd Hr1 Hr2 H6) as [l' [s8 [E8 [El H8]]]]. rewrite E8. cbn [run].
      eexists. exists s8. split; [reflexivity|]. split; [|exact H8].
      unfold erase_vardef. cbn [vd_var vd_type vd_default vd_dirs option_map]. rewrite Et, El. reflexivity.
  Qed.

  Lemma parse_vardefs : forall fuel l s rest, Forall (vardef_ok fuel) l -> (length l < F)%nat ->
    fk rest <> ParenL -> stream d s (flat_vardefs l ++ rest) ->
    exists l' s1, run d (parseVariableDefinitions d fuel) F s = (l', s1) /\ map erase_vardef l' = map erase_vardef l /\ stream d s1 rest.
  Proof.
    intros fuel l s rest Hl Hn Hr Hs. unfold parseVariableDefinitions. destruct l as [|a tl].
    - cbn [flat_vardefs app] in Hs. destruct (some_absent d F _ ParenR (parseVariableDefinition d fuel) ParenL s rest Hs Hr) as [s1 [E1 H1]].
      exists [], s1. auto.
    - set (l := a :: tl) in *. assert (Hs' : stream d s (P ParenL :: flat_map flat_vardef l ++ P ParenR :: rest)).
      { unfold flat_vardefs in Hs. unfold l in *. cbn [app] in Hs. rewrite <- app_assoc in Hs. exact Hs. }
      assert (Hel : Forall (elem_spec d F _ _ ParenR (parseVariableDefinition d fuel) flat_vardef (fun a x => erase_vardef x = erase_vardef a) vfol) l).
      { apply Forall_forall. intros v Hin. rewrite Forall_forall in Hl. split.
        - intro r. split; [cbn; discriminate|left; reflexivity].
        - intros s0 r Hs0 Hf. exact (parse_vardef fuel v s0 r (Hl v Hin) Hf Hs0). }
      destruct (some_stream d F _ _ ParenR (parseVariableDefinition d fuel) flat_vardef (fun a x => erase_vardef x = erase_vardef a) vfol
                  (or_intror eq_refl) ParenL l (@nil_cons _ a tl |> neq_sym) Hel s rest Hn Hs') as [xs [s1 [E1 [R1 H1]]]].
      exists xs, s1. split; [exact E1|]. split; [exact (Forall2_map_eq _ _ _ erase_vardef erase_vardef l xs R1)|exact H1].
  Qed.

  (* ---- from sizes to the per-element conditions ---- *)
  Lemma args_ok_of : forall isConst fuel l, args_wok isConst l -> (args_depth l <= fuel)%nat -> (args_width l < F)%nat ->
    Forall (arg_ok isConst fuel) l /\ (length l < F)%nat.
  Proof.
    intros isConst fuel l H. unfold args_depth, args_width. induction H as [|a tl [A B] _ IH]; intros Hd Hw; cbn [fold_right length] in *.
    - split; [constructor|lia].
    - destruct IH as [I1 I2]; [lia|lia|]. split; [|lia]. constructor; [|exact I1]. unfold arg_ok. repeat split; try assumption; lia.
  Qed.

  Lemma dirs_ok_of : forall isConst fuel l, dirs_wok isConst l -> (dirs_depth l <= fuel)%nat -> (dirs_width l < F)%nat ->
    Forall (dir_ok isConst fuel) l /\ (length l < F)%nat.
  Proof.
    intros isConst fuel l H. unfold dirs_depth, dirs_width. induction H as [|x tl A _ IH]; intros Hd Hw; cbn [fold_right length] in *.
    - split; [constructor|lia].
    - destruct IH as [I1 I2]; [lia|lia|]. split; [|lia]. constructor; [|exact I1]. unfold dir_ok.
      apply (args_ok_of isConst fuel _ A); lia.
  Qed.

  (* ---- selections ---- *)
  Definition sfol (k : kind) : Prop := k = Name \/ k = Spread \/ k = BraceR.

  Lemma flat_sel_field : forall al n args dirs sels p,
    flat_sel (SField al n args dirs sels p)
    = (if str_eqb al n then [(Name, n)] else [(Name, al); P Colon; (Name, n)]) ++ flat_args args ++ flat_dirs dirs ++ flat_optset sels.
  Proof. intros. destruct sels; reflexivity. Qed.
  Lemma flat_sel_inline : forall tc dirs sels p,
    flat_sel (SInline tc dirs sels p)
    = P Spread :: match tc with [] => [] | _ => [(Name, b "on"); (Name, tc)] end ++ flat_dirs dirs ++ flat_selset sels.
  Proof. intros. reflexivity. Qed.

  Lemma flat_sel_first : forall c rest, fk (flat_sel c ++ rest) = Name \/ fk (flat_sel c ++ rest) = Spread.
  Proof.
    intros [al n args dirs sels p|n dirs p|tc dirs sels p] rest.
    - rewrite flat_sel_field. destruct (str_eqb al n); left; reflexivity.
    - right; reflexivity.
    - right; reflexivity.
  Qed.

  Lemma optset_fk : forall sels rest, fk (flat_optset sels ++ rest) = BraceL \/ fk (flat_optset sels ++ rest) = fk rest.
  Proof. intros [|c tl] rest; [right|left]; reflexivity. Qed.
  Lemma dirs_tail_fk : forall dirs X, fk (flat_dirs dirs ++ X) = At \/ fk (flat_dirs dirs ++ X) = fk X.
  Proof. intros [|x tl] X; [right|left]; reflexivity. Qed.
  Lemma args_tail_fk : forall args X, fk (flat_args args ++ X) = ParenL \/ fk (flat_args args ++ X) = fk X.
  Proof. intros [|x tl] X; [right|left]; reflexivity. Qed.

  Definition Psel (c : selection) : Prop :=
    sel_wok c -> forall fuel s rest, (sel_depth c <= fuel)%nat -> (sel_width c < F)%nat -> sfol (fk rest) ->
    stream d s (flat_sel c ++ rest) ->
    exists c' s1, run d (parseSelection d fuel) F s = (c', s1) /\ erase_sel c' = erase_sel c /\ stream d s1 rest.

  Lemma all_wok_Forall : forall sels,
    (fix all (l : list selection) : Prop := match l with [] => True | c :: tl => sel_wok c /\ all tl end) sels -> Forall sel_wok sels.
  Proof. induction sels as [|c tl IH]; intro H; constructor; [exact (proj1 H)|exact (IH (proj2 H))]. Qed.

  Lemma sels_in_bounds : forall sels c, In c sels ->
    (sel_depth c <= fold_right (fun c acc => Nat.max (sel_depth c) acc) O sels)%nat
    /\ (sel_width c <= fold_right (fun c acc => Nat.max (sel_width c) acc) O sels)%nat.
  Proof.
    induction sels as [|a tl IH]; intros c Hin; [destruct Hin|]. cbn [fold_right].
    destruct Hin as [<-|Hin]; [lia|]. destruct (IH c Hin). lia.
  Qed.

  Lemma parse_selset_with : forall sels f, Forall Psel sels -> Forall sel_wok sels -> sels <> [] ->
    (sels_depth sels <= f)%nat -> (sels_width sels < F)%nat ->
    forall s rest, stream d s (flat_selset sels ++ rest) ->
    exists l' s1, run d (some BraceL BraceR (parseSelection d f)) F s = (l', s1)
                  /\ map erase_sel l' = map erase_sel sels /\ stream d s1 rest.
  Proof.
    intros sels f HP Hw Hne Hd Hwd s rest Hs. unfold flat_selset in Hs. cbn [app] in Hs. rewrite <- app_assoc in Hs. cbn [app] in Hs.
    assert (Hel : Forall (elem_spec d F _ _ BraceR (parseSelection d f) flat_sel (fun a x => erase_sel x = erase_sel a) sfol) sels).
    { apply Forall_forall. intros c Hin. rewrite Forall_forall in HP, Hw. split.
      - intro r. destruct (flat_sel_first c r) as [-> | ->]; split; try discriminate; [left; reflexivity|right; left; reflexivity].
      - intros s0 r Hs0 Hf. unfold sels_depth, sels_width in *. destruct (sels_in_bounds sels c Hin).
        apply (HP c Hin (Hw c Hin) f s0 r); try assumption; lia. }
    unfold sels_width in Hwd.
    destruct (some_stream d F _ _ BraceR (parseSelection d f) flat_sel (fun a x => erase_sel x = erase_sel a) sfol
                (or_intror (or_intror eq_refl)) BraceL sels Hne Hel s rest ltac:(lia) Hs) as [xs [s1 [E1 [R1 H1]]]].
    exists xs, s1. split; [exact E1|]. split; [exact (Forall2_map_eq _ _ _ erase_sel erase_sel sels xs R1)|exact H1].
  Qed.

  Theorem parse_selection : forall c, Psel c.
  Proof.
    induction c as [al n args dirs sels p IH|n dirs p|tc dirs sels p IH] using sel_ind'; intros Hw fuel s rest Hd Hwd Hr Hs;
      (destruct fuel as [|f]; [cbn in Hd; lia|]); cbn [parseSelection run].
    - (* a field *)
      destruct Hw as [Wa [Wd Ws]]. apply all_wok_Forall in Ws. cbn [sel_depth sel_width] in Hd, Hwd.
      destruct (args_ok_of false f args Wa ltac:(lia) ltac:(lia)) as [Ha Hna].
      destruct (dirs_ok_of false f dirs Wd ltac:(lia) ltac:(lia)) as [Hdi Hnd].
      rewrite flat_sel_field in Hs. rewrite <- !app_assoc in Hs.
      set (X3 := flat_optset sels ++ rest) in *. set (X2 := flat_dirs dirs ++ X3) in *. set (X1 := flat_args args ++ X2) in *.
      assert (F3 : fk X3 = BraceL \/ fk X3 = fk rest) by apply optset_fk.
      assert (F2 : fk X2 = At \/ fk X2 = fk X3) by apply dirs_tail_fk.
      assert (F1 : fk X1 = ParenL \/ fk X1 = fk X2) by apply args_tail_fk.
      assert (Hr' : fk rest <> Colon /\ fk rest <> ParenL /\ fk rest <> At /\ fk rest <> BraceL)
        by (destruct Hr as [-> | [-> | ->]]; repeat split; discriminate).
      destruct Hr' as [R1 [R2 [R3 R4]]].
      assert (G3 : fk X3 <> At /\ fk X3 <> ParenL /\ fk X3 <> Colon) by (destruct F3 as [-> | ->]; repeat split; try discriminate; assumption).
      assert (G2 : fk X2 <> ParenL /\ fk X2 <> Colon) by (destruct F2 as [-> | ->]; repeat split; try discriminate; tauto).
      assert (G1 : fk X1 <> Colon) by (destruct F1 as [-> | ->]; [discriminate|tauto]).
      assert (Htail : forall al' n' pp sa, stream d sa X1 ->
                exists c' s1,
                  run d (args <- parseArguments f false ;; dirs <- parseDirectives f false ;; pk <- Peek ;;
                         sels <- (if kind_eqb pk.(tkind) BraceL then some BraceL BraceR (parseSelection d f) else Ret []) ;;
                         Ret (SField al' n' args dirs sels pp)) F sa = (c', s1)
                  /\ erase_sel c' = erase_sel (SField al' n' args dirs sels p) /\ stream d s1 rest).
      { intros al' n' pp sa Hsa. cbn [run].
        destruct (parse_arguments f false args sa X2 Ha Hna (proj1 G2) Hsa) as [args' [sb [Eb [Ea Hb]]]]. rewrite Eb.
        destruct (parse_directives f false dirs sb X3 Hdi Hnd (proj1 G3) (proj1 (proj2 G3)) Hb) as [dirs' [sc [Ec [Ed Hc]]]]. rewrite Ec.
        destruct (peek_stream d sc _ Hc) as [tp [sd [Ep [Hkp [Hd' _]]]]]. rewrite Ep.
        destruct sels as [|c0 tl].
        - unfold X3 in Hkp, Hd'. cbn [flat_optset app] in Hkp, Hd'.
          assert (Ek : kind_eqb (tkind tp) BraceL = false) by (apply kind_eqb_neq; congruence). rewrite Ek. cbn [run].
          eexists. exists sd. split; [reflexivity|]. split; [|exact Hd']. cbn [erase_sel map]. rewrite Ea, Ed. reflexivity.
        - unfold X3 in Hkp, Hd'. cbn [flat_optset] in Hkp, Hd'.
          assert (Ek : kind_eqb (tkind tp) BraceL = true) by (apply kind_eqb_eq; exact Hkp). rewrite Ek.
          destruct (parse_selset_with (c0 :: tl) f IH Ws ltac:(discriminate) ltac:(unfold sels_depth; lia) ltac:(unfold sels_width; lia) sd rest Hd')
            as [l' [se [Ee [El He]]]]. rewrite Ee. cbn [run].
          eexists. exists se. split; [reflexivity|]. split; [|exact He]. cbn [erase_sel]. rewrite Ea, Ed, El. reflexivity. }
      destruct (str_eqb al n) eqn:Ean.
      + apply str_eqb_eq in Ean. subst al. cbn [app] in Hs. destruct (peek_stream d s _ Hs) as [t [s0 [E0 [Hk [H0 _]]]]].
        destruct (s_peekPos d F s0 _ H0) as [pp [s1 [E1 H1]]].
        destruct (s_parseName d F s1 _ _ H1) as [s2 [E2 H2]].
        destruct (s_skip_no d F Colon s2 _ H2 G1) as [s3 [E3 H3]].
        rewrite E0. cbn [fk] in Hk. rewrite Hk. cbn [kind_eqb kind_id N.eqb Pos.eqb]. cbn [run]. rewrite E1, E2, E3. cbn [run].
        destruct (Htail n n pp s3 H3) as [c' [sz [Ez [Ec Hz]]]]. exists c', sz. split; [exact Ez|auto].
      + cbn [app] in Hs. destruct (peek_stream d s _ Hs) as [t [s0 [E0 [Hk [H0 _]]]]].
        destruct (s_peekPos d F s0 _ H0) as [pp [s1 [E1 H1]]].
        destruct (s_parseName d F s1 _ _ H1) as [s2 [E2 H2]].
        destruct (s_skip_yes d F Colon s2 [] _ H2) as [s3 [E3 H3]].
        destruct (s_parseName d F s3 _ _ H3) as [s4 [E4 H4]].
        rewrite E0. cbn [fk] in Hk. rewrite Hk. cbn [kind_eqb kind_id N.eqb Pos.eqb]. cbn [run]. rewrite E1, E2, E3. cbn [run]. rewrite E4.
        destruct (Htail al n pp s4 H4) as [c' [sz [Ez [Ec Hz]]]]. exists c', sz. split; [exact Ez|auto].
    - (* a fragment spread *)
      destruct Hw as [Won Wd]. cbn [sel_depth sel_width] in Hd, Hwd.
      destruct (dirs_ok_of false f dirs Wd ltac:(lia) ltac:(lia)) as [Hdi Hnd].
      cbn [flat_sel app] in Hs.
      assert (Hr' : fk rest <> ParenL /\ fk rest <> At) by (destruct Hr as [-> | [-> | ->]]; split; discriminate).
      destruct (peek_stream d s _ Hs) as [t [s0 [E0 [Hk [H0 _]]]]]. rewrite E0. cbn [fk] in Hk. unfold P in Hk. rewrite Hk.
      cbn [kind_eqb kind_id N.eqb Pos.eqb]. cbn [run].
      destruct (s_expect d F Spread s0 [] _ H0) as [t1 [s1 [E1 [_ [_ H1]]]]]. rewrite E1.
      destruct (peek_stream d s1 _ H1) as [t2 [s2 [E2 [Hk2 [H2 Hv2]]]]]. rewrite E2. cbn [fk] in Hk2. rewrite Hk2, Hv2, Won.
      cbn [kind_eqb kind_id N.eqb Pos.eqb negb andb]. cbn [run].
      destruct (s_peekPos d F s2 _ H2) as [pp [s3 [E3 H3]]]. rewrite E3.
      unfold parseFragmentName. cbn [run].
      destruct (peek_stream d s3 _ H3) as [t4 [s4 [E4 [_ [H4 Hv4]]]]]. rewrite E4. cbv beta iota. rewrite Hv4, Won. cbv beta iota.
      destruct (s_parseName d F s4 _ _ H4) as [s5 [E5 H5]].
      match goal with |- context [@run d ?T parseName F s4] => change (@run d T parseName F s4) with (@run d str parseName F s4) end. rewrite E5.
      destruct (parse_directives f false dirs s5 rest Hdi Hnd (proj2 Hr') (proj1 Hr') H5) as [dirs' [s6 [E6 [Ed H6]]]]. rewrite E6. cbn [run].
      eexists. exists s6. split; [reflexivity|]. split; [|exact H6]. cbn [erase_sel]. rewrite Ed. reflexivity.
    - (* an inline fragment *)
      destruct Hw as [Wd [Hne Ws]]. apply all_wok_Forall in Ws. cbn [sel_depth sel_width] in Hd, Hwd.
      destruct (dirs_ok_of false f dirs Wd ltac:(lia) ltac:(lia)) as [Hdi Hnd].
      rewrite flat_sel_inline in Hs. cbn [app] in Hs. rewrite <- !app_assoc in Hs.
      set (Y2 := flat_selset sels ++ rest) in *. set (Y1 := flat_dirs dirs ++ Y2) in *.
      assert (FY2 : fk Y2 = BraceL) by reflexivity.
      assert (FY1 : fk Y1 = At \/ fk Y1 = BraceL) by (destruct (dirs_tail_fk dirs Y2) as [E|E]; [left; exact E|right; unfold Y1; rewrite E; exact FY2]).
      destruct (peek_stream d s _ Hs) as [t [s0 [E0 [Hk [H0 _]]]]]. rewrite E0. cbn [fk] in Hk. unfold P in Hk. rewrite Hk.
      cbn [kind_eqb kind_id N.eqb Pos.eqb]. cbn [run].
      destruct (s_expect d F Spread s0 [] _ H0) as [t1 [s1 [E1 [_ [_ H1]]]]]. rewrite E1.
      assert (Htail : forall tc' pp sm, stream d sm Y1 ->
                exists c' sz,
                  run d (dirs <- parseDirectives f false ;; sels <- requiredSelectionSet (parseSelection d f) ;;
                         Ret (SInline tc' dirs sels pp)) F sm = (c', sz)
                  /\ erase_sel c' = erase_sel (SInline tc' dirs sels p) /\ stream d sz rest).
      { intros tc' pp sm Hm. cbn [run].
        destruct (parse_directives f false dirs sm Y2 Hdi Hnd ltac:(rewrite FY2; discriminate) ltac:(rewrite FY2; discriminate) Hm) as [dirs' [s6 [E6 [Ed H6]]]]. rewrite E6.
        unfold requiredSelectionSet. cbn [run].
        destruct (peek_stream d s6 _ H6) as [t7 [s7 [E7 [Hk7 [H7 _]]]]]. rewrite E7, Hk7, FY2. cbn [kind_eqb kind_id N.eqb Pos.eqb negb].
        destruct (parse_selset_with sels f IH Ws Hne ltac:(unfold sels_depth; lia) ltac:(unfold sels_width; lia) s7 rest H7) as [l' [s8 [E8 [El H8]]]].
        rewrite E8. cbn [run]. eexists. exists s8. split; [reflexivity|]. split; [|exact H8]. cbn [erase_sel]. rewrite Ed, El. reflexivity. }
      destruct tc as [|c0 ctl].
      + cbn [app] in H1.
        destruct (peek_stream d s1 _ H1) as [t2 [s2 [E2 [Hk2 [H2 Hv2]]]]].
        destruct (s_peekPos d F s2 _ H2) as [pp [s3 [E3 H3]]].
        destruct (peek_stream d s3 _ H3) as [t4 [s4 [E4 [Hk4 [H4 Hv4]]]]].
        rewrite E2.
        assert (Ek : kind_eqb (tkind t2) Name = false) by (apply kind_eqb_neq; rewrite Hk2; destruct FY1 as [-> | ->]; discriminate).
        rewrite Ek. cbn [andb]. cbn [run]. rewrite E3, E4.
        assert (Hon : tok_is_on d t4 = false).
        { unfold tok_is_on. assert (tval t4 = []) as ->; [|reflexivity].
          unfold Y1 in Hv4. destruct dirs as [|x dtl]; exact Hv4. }
        rewrite Hon. cbn [run].
        destruct (Htail [] pp s4 H4) as [c' [sz [Ez [Ec Hz]]]]. exists c', sz. split; [exact Ez|auto].
      + cbn [app] in H1.
        destruct (peek_stream d s1 _ H1) as [t2 [s2 [E2 [Hk2 [H2 Hv2]]]]].
        destruct (s_peekPos d F s2 _ H2) as [pp [s3 [E3 H3]]].
        destruct (peek_stream d s3 _ H3) as [t4 [s4 [E4 [Hk4 [H4 Hv4]]]]].
        destruct (next_stream d s4 _ _ _ H4) as [t5 [s5 [E5 [_ [_ H5]]]]].
        destruct (s_parseName d F s5 _ _ H5) as [s6 [E6 H6]].
        rewrite E2. cbn [fk] in Hk2, Hk4. rewrite Hk2, Hv2.
        cbn [kind_eqb kind_id N.eqb Pos.eqb]. rewrite str_eqb_refl. cbn [negb andb]. cbn [run]. rewrite E3, E4.
        assert (Hon : tok_is_on d t4 = true).
        { unfold tok_is_on. rewrite Hv4, Hk4, str_eqb_refl. cbn [kind_eqb kind_id N.eqb Pos.eqb]. rewrite orb_true_r. reflexivity. }
        rewrite Hon. cbn [run]. rewrite E5.
        match goal with |- context [@run d ?T parseName F s5] => change (@run d T parseName F s5) with (@run d str parseName F s5) end. rewrite E6.
        destruct (Htail (c0 :: ctl) pp s6 H6) as [c' [sz [Ez [Ec Hz]]]]. exists c', sz. split; [exact Ez|auto].
  Qed.

  (* ---- operations and fragments ---- *)
  Lemma vardefs_ok_of : forall fuel l, Forall (vardef_wok d) l -> (vardefs_depth l <= fuel)%nat -> (vardefs_width l < F)%nat ->
    Forall (vardef_ok fuel) l /\ (length l < F)%nat.
  Proof.
    intros fuel l H. unfold vardefs_depth, vardefs_width. induction H as [|v tl [A B] _ IH]; intros Hd Hw; cbn [fold_right length] in *.
    - split; [constructor|lia].
    - destruct IH as [I1 I2]; [lia|lia|]. split; [|lia]. constructor; [|exact I1].
      unfold vardef_depth, vardef_width in *. unfold vardef_ok.
      destruct (dirs_ok_of (negb (d F_Q1)) fuel _ B ltac:(lia) ltac:(lia)) as [D1 D2].
      split; [lia|]. split; [|split; assumption].
      destruct (vd_default v) as [dv|]; [|exact I]. destruct A as [A1 A2]. repeat split; try assumption; lia.
  Qed.

  Lemma parse_selset : forall sels f s rest, Forall sel_wok sels -> sels <> [] ->
    (sels_depth sels <= f)%nat -> (sels_width sels < F)%nat -> stream d s (flat_selset sels ++ rest) ->
    exists l' s1, run d (parseRequiredSelectionSet d f) F s = (l', s1)
                  /\ map erase_sel l' = map erase_sel sels /\ stream d s1 rest.
  Proof.
    intros sels f s rest Hw Hne Hd Hwd Hs. unfold parseRequiredSelectionSet, requiredSelectionSet. cbn [run].
    destruct (peek_stream d s _ Hs) as [t [s1 [E1 [Hk [H1 _]]]]]. rewrite E1. cbn [flat_selset app fk] in Hk. unfold P in Hk. rewrite Hk.
    cbn [kind_eqb kind_id N.eqb Pos.eqb negb].
    apply (parse_selset_with sels f); try assumption. apply Forall_forall. intros c _. apply parse_selection.
  Qed.

  Lemma selset_fk : forall sels rest, fk (flat_selset sels ++ rest) = BraceL.
  Proof. reflexivity. Qed.

  Lemma vardefs_tail_fk : forall l X, fk (flat_vardefs l ++ X) = ParenL \/ fk (flat_vardefs l ++ X) = fk X.
  Proof. intros [|x tl] X; [right|left]; reflexivity. Qed.

  Lemma parse_operation : forall o fuel s rest, op_wok d o -> (op_depth o <= fuel)%nat -> (op_width o < F)%nat ->
    stream d s (flat_op o ++ rest) ->
    exists o' s1, run d (parseOperationDefinition d fuel) F s = (o', s1) /\ erase_op o' = erase_op o /\ stream d s1 rest.
  Proof.
    intros [op n vars dirs sels p] fuel s rest [Wop [Wv [Wd [Wne Ws]]]] Hd Hw Hs.
    cbn [o_op o_name o_vars o_dirs o_sels] in *. unfold op_depth, op_width in *. cbn [o_op o_name o_vars o_dirs o_sels] in *.
    destruct (vardefs_ok_of fuel vars Wv ltac:(lia) ltac:(lia)) as [Hv Hnv].
    destruct (dirs_ok_of false fuel dirs Wd ltac:(lia) ltac:(lia)) as [Hdi Hnd].
    unfold flat_op in Hs. cbn [o_op o_name o_vars o_dirs o_sels app] in Hs. rewrite <- !app_assoc in Hs.
    set (Z3 := flat_selset sels ++ rest) in *. set (Z2 := flat_dirs dirs ++ Z3) in *. set (Z1 := flat_vardefs vars ++ Z2) in *.
    assert (FZ3 : fk Z3 = BraceL) by reflexivity.
    assert (FZ2 : fk Z2 = At \/ fk Z2 = BraceL) by (destruct (dirs_tail_fk dirs Z3) as [E|E]; [left; exact E|right; unfold Z2; rewrite E; exact FZ3]).
    assert (FZ1 : fk Z1 = ParenL \/ fk Z1 = At \/ fk Z1 = BraceL)
      by (destruct (vardefs_tail_fk vars Z2) as [E|E]; [left; exact E|right; unfold Z1; rewrite E; exact FZ2]).
    unfold parseOperationDefinition. cbn [run].
    destruct (peek_stream d s _ Hs) as [t [s0 [E0 [Hk [H0 _]]]]]. rewrite E0. cbn [fk] in Hk. rewrite Hk.
    cbn [kind_eqb kind_id N.eqb Pos.eqb]. cbn [run].
    destruct (s_peekPos d F s0 _ H0) as [pp [s1 [E1 H1]]]. rewrite E1.
    unfold parseOperationType. cbn [run].
    destruct (next_stream d s1 _ _ _ H1) as [t2 [s2 [E2 [Hk2 [Hv2 H2]]]]]. rewrite E2, Hk2, Hv2.
    cbn [kind_eqb kind_id N.eqb Pos.eqb]. rewrite orb_true_r. cbn [andb].
    assert (Hop : exists K : optype,
              (if str_eqb (optype_kw op) (b "query") then Ret OpQuery
               else if str_eqb (optype_kw op) (b "mutation") then Ret OpMutation
               else if str_eqb (optype_kw op) (b "subscription") then Ret OpSubscription
               else ErrorAt t2 ;;; Ret OpNone) = Ret K /\ K = op).
    { exists op. destruct op; [split; reflexivity|split; reflexivity|split; reflexivity|congruence]. }
    destruct Hop as [K [EK ->]]. rewrite EK. cbn [run].
    assert (Htail : forall n' sa, stream d sa Z1 ->
              exists o' sz,
                run d (vars <- parseVariableDefinitions d fuel ;; dirs <- parseDirectives fuel false ;;
                       sels <- parseRequiredSelectionSet d fuel ;; Ret (mkOp op n' vars dirs sels pp)) F sa = (o', sz)
                /\ erase_op o' = erase_op (mkOp op n' vars dirs sels p) /\ stream d sz rest).
    { intros n' sa Ha. cbn [run].
      destruct (parse_vardefs fuel vars sa Z2 Hv Hnv ltac:(destruct FZ2 as [-> | ->]; discriminate) Ha) as [vars' [sb [Eb [Ev Hb]]]]. rewrite Eb.
      destruct (parse_directives fuel false dirs sb Z3 Hdi Hnd ltac:(rewrite FZ3; discriminate) ltac:(rewrite FZ3; discriminate) Hb) as [dirs' [sc [Ec [Ed Hc]]]]. rewrite Ec.
      destruct (parse_selset sels fuel sc rest Ws Wne ltac:(lia) ltac:(lia) Hc) as [sels' [sd [Ed' [Es Hd']]]]. rewrite Ed'. cbn [run].
      eexists. exists sd. split; [reflexivity|]. split; [|exact Hd']. unfold erase_op. cbn [o_op o_name o_vars o_dirs o_sels]. rewrite Ev, Ed, Es. reflexivity. }
    destruct n as [|c0 ctl].
    - cbn [app] in H2. destruct (peek_stream d s2 _ H2) as [t3 [s3 [E3 [Hk3 [H3 _]]]]]. rewrite E3.
      assert (Ek : kind_eqb (tkind t3) Name = false) by (apply kind_eqb_neq; rewrite Hk3; destruct FZ1 as [-> | [-> | ->]]; discriminate).
      rewrite Ek. cbn [run].
      destruct (Htail [] s3 H3) as [o' [sz [Ez [Eo Hz]]]]. exists o', sz. split; [exact Ez|auto].
    - cbn [app] in H2. destruct (peek_stream d s2 _ H2) as [t3 [s3 [E3 [Hk3 [H3 _]]]]]. rewrite E3. cbn [fk] in Hk3. rewrite Hk3.
      cbn [kind_eqb kind_id N.eqb Pos.eqb]. cbn [run].
      destruct (next_stream d s3 _ _ _ H3) as [t4 [s4 [E4 [_ [Hv4 H4]]]]]. rewrite E4. cbn [run]. rewrite Hv4.
      destruct (Htail (c0 :: ctl) s4 H4) as [o' [sz [Ez [Eo Hz]]]]. exists o', sz. split; [exact Ez|auto].
  Qed.

  Lemma parse_fragment : forall f fuel s rest, frag_wok d f -> (frag_depth f <= fuel)%nat -> (frag_width f < F)%nat ->
    stream d s (flat_frag f ++ rest) ->
    exists f' s1, run d (parseFragmentDefinition d fuel) F s = (f', s1) /\ erase_frag f' = erase_frag f /\ stream d s1 rest.
  Proof.
    intros [n vars tc dirs sels p] fuel s rest [Won [Wq [Wv [Wd [Wne Ws]]]]] Hd Hw Hs.
    cbn [f_name f_vars f_typecond f_dirs f_sels] in *. unfold frag_depth, frag_width in *. cbn [f_name f_vars f_typecond f_dirs f_sels] in *.
    destruct (vardefs_ok_of fuel vars Wv ltac:(lia) ltac:(lia)) as [Hv Hnv].
    destruct (dirs_ok_of false fuel dirs Wd ltac:(lia) ltac:(lia)) as [Hdi Hnd].
    unfold flat_frag in Hs. cbn [f_name f_vars f_typecond f_dirs f_sels app] in Hs. rewrite <- !app_assoc in Hs. cbn [app] in Hs. rewrite <- !app_assoc in Hs.
    set (Z3 := flat_selset sels ++ rest) in *.
    assert (FZ3 : fk Z3 = BraceL) by reflexivity.
    unfold parseFragmentDefinition. cbn [run].
    destruct (s_peekPos d F s _ Hs) as [pp [s1 [E1 H1]]]. rewrite E1.
    destruct (s_expectKeyword d F s1 _ _ H1) as [t2 [s2 [E2 H2]]]. rewrite E2.
    unfold parseFragmentName. cbn [run].
    destruct (peek_stream d s2 _ H2) as [t3 [s3 [E3 [_ [H3 Hv3]]]]]. rewrite E3. cbv beta iota. rewrite Hv3, Won. cbv beta iota.
    destruct (s_parseName d F s3 _ _ H3) as [s4 [E4 H4]].
    match goal with |- context [@run d ?T parseName F s3] => change (@run d T parseName F s3) with (@run d str parseName F s3) end. rewrite E4.
    assert (Hvars : exists vars' s5, run d (if d F_Q4 then parseVariableDefinitions d fuel else Ret []) F s4 = (vars', s5)
                      /\ map erase_vardef vars' = map erase_vardef vars
                      /\ stream d s5 ((Name, b "on") :: (Name, tc) :: flat_dirs dirs ++ Z3)).
    { destruct (d F_Q4) eqn:EQ.
      - apply (parse_vardefs fuel vars s4 _ Hv Hnv); [cbn; discriminate|exact H4].
      - destruct Wq as [Wq|Wq]; [discriminate|]. subst vars. cbn [run]. exists [], s4. auto. }
    destruct Hvars as [vars' [s5 [E5 [Ev H5]]]]. rewrite E5.
    destruct (s_expectKeyword d F s5 _ _ H5) as [t6 [s6 [E6 H6]]]. rewrite E6.
    destruct (s_parseName d F s6 _ _ H6) as [s7 [E7 H7]]. rewrite E7.
    destruct (parse_directives fuel false dirs s7 Z3 Hdi Hnd ltac:(rewrite FZ3; discriminate) ltac:(rewrite FZ3; discriminate) H7) as [dirs' [s8 [E8 [Ed H8]]]]. rewrite E8.
    destruct (parse_selset sels fuel s8 rest Ws Wne ltac:(lia) ltac:(lia) H8) as [sels' [s9 [E9 [Es H9]]]]. rewrite E9. cbn [run].
    eexists. exists s9. split; [reflexivity|]. split; [|exact H9]. unfold erase_frag. cbn [f_name f_vars f_typecond f_dirs f_sels]. rewrite Ev, Ed, Es. reflexivity.
  Qed.

  (* ---- documents ---- *)
  Lemma body_eof : forall fuel s, stream d s [] ->
    exists s1, run d (parseQueryDocument_body d fuel) F s = (None, s1) /\ stream d s1 [].
  Proof.
    intros fuel s Hs. unfold parseQueryDocument_body. cbn [run].
    destruct (peek_stream d s _ Hs) as [t [s1 [E1 [Hk [H1 _]]]]]. rewrite E1. cbn [fk] in Hk. rewrite Hk.
    cbn [kind_eqb kind_id N.eqb Pos.eqb]. cbn [run]. exists s1. auto.
  Qed.

  Lemma body_def : forall fuel x s rest, qdef_wok d x -> (qdef_depth x <= fuel)%nat -> (qdef_width x < F)%nat ->
    stream d s (flat_qdef x ++ rest) ->
    exists pp x' s1, run d (parseQueryDocument_body d fuel) F s = (Some (pp, x'), s1)
                     /\ erase_qdef x' = erase_qdef x /\ stream d s1 rest.
  Proof.
    intros fuel x s rest Hw Hd Hwd Hs. unfold parseQueryDocument_body. cbn [run].
    destruct x as [o|f|]; [| |destruct Hw].
    - cbn [flat_qdef] in Hs. pose proof Hs as Hs0. unfold flat_op in Hs0. cbn [app] in Hs0.
      destruct (peek_stream d s _ Hs0) as [t [s1 [E1 [Hk [H1 Hv]]]]]. rewrite E1. cbn [fk] in Hk. rewrite Hk.
      cbn [kind_eqb kind_id N.eqb Pos.eqb]. cbn [run]. rewrite (stream_noerr d s1 _ H1). cbn [run].
      destruct (s_peekPos d F s1 _ H1) as [pp [s2 [E2 H2]]]. rewrite E2.
      destruct (peek_stream d s2 _ H2) as [t3 [s3 [E3 [Hk3 [H3 Hv3]]]]]. rewrite E3. cbn [fk] in Hk3. rewrite Hk3, Hv3.
      assert (Hkw : str_eqb (optype_kw (o_op o)) (b "query") || str_eqb (optype_kw (o_op o)) (b "mutation")
                    || str_eqb (optype_kw (o_op o)) (b "subscription") = true).
      { destruct Hw as [Hop _]. destruct (o_op o); try reflexivity. congruence. }
      rewrite Hkw. cbn [run].
      assert (H3' : stream d s3 (flat_op o ++ rest)) by exact H3.
      destruct (parse_operation o fuel s3 rest Hw Hd Hwd H3') as [o' [s4 [E4 [Eo H4]]]]. rewrite E4. cbn [run].
      exists pp, (QOp o'), s4. split; [reflexivity|]. split; [cbn [erase_qdef]; rewrite Eo; reflexivity|exact H4].
    - cbn [flat_qdef] in Hs. pose proof Hs as Hs0. unfold flat_frag in Hs0. cbn [app] in Hs0.
      destruct (peek_stream d s _ Hs0) as [t [s1 [E1 [Hk [H1 Hv]]]]]. rewrite E1. cbn [fk] in Hk. rewrite Hk.
      cbn [kind_eqb kind_id N.eqb Pos.eqb]. cbn [run]. rewrite (stream_noerr d s1 _ H1). cbn [run].
      destruct (s_peekPos d F s1 _ H1) as [pp [s2 [E2 H2]]]. rewrite E2.
      destruct (peek_stream d s2 _ H2) as [t3 [s3 [E3 [Hk3 [H3 Hv3]]]]]. rewrite E3. cbn [fk] in Hk3. rewrite Hk3, Hv3.
      assert (Hkw : str_eqb (b "fragment") (b "query") || str_eqb (b "fragment") (b "mutation")
                    || str_eqb (b "fragment") (b "subscription") = false) by reflexivity.
      rewrite Hkw, str_eqb_refl. cbn [run].
      assert (H3' : stream d s3 (flat_frag f ++ rest)) by exact H3.
      destruct (parse_fragment f fuel s3 rest Hw Hd Hwd H3') as [f' [s4 [E4 [Ef H4]]]]. rewrite E4. cbn [run].
      exists pp, (QFrag f'), s4. split; [reflexivity|]. split; [cbn [erase_qdef]; rewrite Ef; reflexivity|exact H4].
  Qed.

  Lemma doc_iter : forall fuel defs, Forall (qdef_wok d) defs ->
    forall n s acc, (length defs < n)%nat ->
    (fold_right (fun x acc => Nat.max (qdef_depth x) acc) O defs <= fuel)%nat ->
    (fold_right (fun x acc => Nat.max (qdef_width x) acc) O defs < F)%nat ->
    stream d s (flat_map flat_qdef defs) ->
    exists l' s1, iter n (run d (parseQueryDocument_body d fuel) F) s acc = (rev acc ++ l', s1)
                  /\ Forall2 (fun a x => erase_qdef (snd x) = erase_qdef a) defs l' /\ stream d s1 [].
  Proof.
    intros fuel defs Hw. induction Hw as [|x tl Hx _ IH]; intros n s acc Hn Hd Hwd Hs.
    - destruct n as [|n]; [cbn in Hn; lia|]. cbn [iter]. cbn [flat_map] in Hs.
      destruct (body_eof fuel s Hs) as [s1 [E1 H1]]. rewrite E1. exists [], s1. rewrite app_nil_r. auto.
    - destruct n as [|n]; [cbn in Hn; lia|]. cbn [iter]. cbn [flat_map fold_right] in Hs, Hd, Hwd.
      destruct (body_def fuel x s _ Hx ltac:(lia) ltac:(lia) Hs) as [pp [x' [s1 [E1 [Ex H1]]]]]. rewrite E1.
      destruct (IH n s1 ((pp, x') :: acc) ltac:(cbn in Hn; lia) ltac:(lia) ltac:(lia) H1) as [l' [s2 [I1 [I2 I3]]]].
      exists ((pp, x') :: l'), s2. split; [rewrite I1; cbn [rev]; rewrite <- app_assoc; reflexivity|]. split; [constructor; assumption|exact I3].
  Qed.

  Fixpoint defs_ops (l : list qdef) : list opdef :=
    match l with [] => [] | QOp o :: tl => o :: defs_ops tl | _ :: tl => defs_ops tl end.
  Fixpoint defs_frags (l : list qdef) : list fragdef :=
    match l with [] => [] | QFrag f :: tl => f :: defs_frags tl | _ :: tl => defs_frags tl end.

  Lemma defs_split : forall ops frags, defs_ops (map QOp ops ++ map QFrag frags) = ops /\ defs_frags (map QOp ops ++ map QFrag frags) = frags.
  Proof.
    intros ops frags. induction ops as [|o tl [I1 I2]]; cbn [map app defs_ops defs_frags].
    - induction frags as [|f ftl [J1 J2]]; cbn [map defs_ops defs_frags]; [auto|]. rewrite J1, J2. auto.
    - rewrite I1, I2. auto.
  Qed.

  Lemma qdoc_of_defs : forall defs l', Forall2 (fun a (x : pos * qdef) => erase_qdef (snd x) = erase_qdef a) defs l' ->
    map erase_op (qdoc_ops l') = map erase_op (defs_ops defs) /\ map erase_frag (qdoc_frags l') = map erase_frag (defs_frags defs).
  Proof.
    intros defs l' H. induction H as [|a [pp x] l l' E _ [I1 I2]]; [auto|]. cbn [snd] in E.
    destruct a as [o|f|], x as [o'|f'|]; cbn [erase_qdef] in E; try discriminate; cbn [qdoc_ops qdoc_frags defs_ops defs_frags map].
    - assert (E' : erase_op o' = erase_op o) by congruence. rewrite E', I1. auto.
    - assert (E' : erase_frag f' = erase_frag f) by congruence. rewrite E', I2. auto.
    - auto.
  Qed.

  Theorem parse_document : forall q fuel s, doc_wok d q -> (doc_depth q <= fuel)%nat -> (doc_width q < F)%nat ->
    stream d s (flat_doc q) ->
    exists q' s1, run d (parseQueryDocument d fuel) F s = (q', s1) /\ erase_qdoc q' = erase_qdoc q /\ has_err s1 = false.
  Proof.
    intros q fuel s [Hw Hne] Hd Hwd Hs. unfold parseQueryDocument. cbn [run].
    unfold doc_depth, doc_width in *.
    destruct (doc_iter fuel (doc_defs q) Hw F s [] ltac:(lia) Hd ltac:(lia) Hs) as [l' [s1 [I1 [I2 I3]]]].
    match goal with |- context [iter F ?body s []] => change (iter F body s []) with (iter F (run d (parseQueryDocument_body d fuel) F) s []) end.
    rewrite I1. cbn [rev app]. cbv beta iota zeta.
    destruct (qdoc_of_defs _ _ I2) as [Eo Ef]. unfold doc_defs in Eo, Ef.
    destruct (defs_split (q_ops q) (q_frags q)) as [D1 D2]. rewrite D1 in Eo. rewrite D2 in Ef.
    cbn [q_ops q_frags].
    assert (Hfin : forall doc, erase_qdoc doc = erase_qdoc q -> exists q' s2, run d (Ret doc) F s1 = (q', s2) /\ erase_qdoc q' = erase_qdoc q /\ has_err s2 = false).
    { intros doc Hdoc. cbn [run]. exists doc, s1. split; [reflexivity|]. split; [exact Hdoc|exact (stream_noerr d s1 _ I3)]. }
    assert (Hdoc : forall pp, erase_qdoc (mkQDoc (qdoc_ops l') (qdoc_frags l') pp) = erase_qdoc q).
    { intro pp. unfold erase_qdoc. cbn [q_ops q_frags]. rewrite Eo, Ef. reflexivity. }
    destruct (qdoc_ops l') as [|o otl] eqn:Eops.
    - destruct (qdoc_frags l') as [|f ftl] eqn:Efr.
      + cbn [run]. rewrite (stream_noerr d s1 _ I3).
        assert (HQ3 : d F_Q3 = true).
        { destruct Hne as [Hne|Hne]; [|exact Hne]. exfalso. apply Hne. unfold doc_defs.
          destruct (q_ops q); [|discriminate]. destruct (q_frags q); [reflexivity|discriminate]. }
        rewrite HQ3. cbn [orb run]. eexists. exists s1. split; [reflexivity|]. split; [apply Hdoc|exact (stream_noerr d s1 _ I3)].
      + apply Hfin. apply Hdoc.
    - apply Hfin. apply Hdoc.
  Qed.
End Productions.

(* ------------------------------------------------------------------ *)
(* the whole parse: any text that the lexer reads as the tokens of a document *)
Theorem parseQuery_complete : forall d q input fuel,
  doc_wok d q -> toks d input (flat_doc q) -> (doc_depth q <= fuel)%nat -> (doc_width q < fuel)%nat ->
  exists q' s, parseQueryWith d fuel 0 input = (POk q', s) /\ erase_qdoc q' = erase_qdoc q.
Proof.
  intros d q input fuel Hw Ht Hd Hwd. unfold parseQueryWith.
  assert (Hs : stream d (pst_init input 0 0) (flat_doc q)) by (apply (toks_stream d input); [exact Ht|repeat split]).
  destruct (parse_document d fuel q fuel _ Hw Hd Hwd Hs) as [q' [s1 [E1 [Eq He]]]]. rewrite E1.
  apply has_err_none in He. rewrite He. exists q', s1. auto.
Qed.
