(* TokenStream.v — the parser seen over token sequences.  toks d txt ts: the text txt is read by the
   lexer as the tokens ts (kind and value; positions are not part of it) followed by the end of the
   input, wherever the lexer stands; stream d s ts: the parser state s will be handed exactly these
   tokens.  Exact equations for peek, next, skip, expect, expectKeyword, peekPos, parseName and the
   `many`/`some` loops of parser.go over streams: what a parse function returns and where it stops is
   then a statement about token lists only (ParseComplete.v). *)
From Coq Require Import List NArith ZArith Lia Bool.
From GQL.model Require Import Base Utf8 Lexer Ast Parser Prog ParseQuery.
From GQL.proofs Require Import StrFacts ProgFacts NumberGrammar ParserTotal TypeRoundtrip.
Import ListNotations.
Open Scope N_scope.

Definition tk := (kind * str)%type.
(* the kind of the first token; the end of the input when there is none *)
Definition fk (ts : list tk) : kind := match ts with [] => EOF | (k, _) :: _ => k end.

Inductive toks (d : dev) : str -> list tk -> Prop :=
| toks_nil : forall txt,
    (forall s, fresh s txt -> exists t txt', sees d s t txt' /\ tkind t = EOF /\ tval t = []) -> toks d txt []
| toks_cons : forall txt txt' k v ts, k <> EOF ->
    (forall s, fresh s txt -> exists t, sees d s t txt' /\ tkind t = k /\ tval t = v) ->
    toks d txt' ts -> toks d txt ((k, v) :: ts).

Definition stream (d : dev) (s : pst) (ts : list tk) : Prop :=
  match ts with
  | [] => exists t txt', sees d s t txt' /\ tkind t = EOF /\ tval t = []
  | (k, v) :: ts' => exists t txt', sees d s t txt' /\ tkind t = k /\ tval t = v /\ k <> EOF /\ toks d txt' ts'
  end.

Lemma toks_stream : forall d txt ts s, toks d txt ts -> fresh s txt -> stream d s ts.
Proof.
  intros d txt ts s H Hs. inversion H as [txt0 H0|txt0 txt' k v ts' Hk H0 Ht]; subst.
  - exact (H0 s Hs).
  - destruct (H0 s Hs) as [t [A [B C]]]. exists t, txt'. auto.
Qed.

Lemma stream_noerr : forall d s ts, stream d s ts -> has_err s = false.
Proof.
  intros d s [|[k v] ts] H; cbn in H.
  - destruct H as [t [txt' [H _]]]. exact (sees_noerr _ _ _ _ H).
  - destruct H as [t [txt' [H _]]]. exact (sees_noerr _ _ _ _ H).
Qed.

Lemma peek_stream : forall d s ts, stream d s ts ->
  exists t s1, peek d s = (t, s1) /\ tkind t = fk ts /\ stream d s1 ts
               /\ match ts with (_, v) :: _ => tval t = v | [] => tval t = [] end.
Proof.
  intros d s [|[k v] ts] H; cbn in H.
  - destruct H as [t [txt' [H [Hk Hv0]]]]. destruct (peek_sees d s t txt' H) as [P1 [P2 _]].
    destruct (peek d s) as [t1 s1]. cbn [fst snd] in P1, P2. subst t1. exists t, s1.
    split; [reflexivity|]. split; [exact Hk|]. split; [|exact Hv0].
    exists t, txt'. split; [exact (holding_sees d s1 t txt' (proj1 H) P2)|auto].
  - destruct H as [t [txt' [H [Hk [Hv [Hn Ht]]]]]]. destruct (peek_sees d s t txt' H) as [P1 [P2 _]].
    destruct (peek d s) as [t1 s1]. cbn [fst snd] in P1, P2. subst t1. exists t, s1.
    split; [reflexivity|]. split; [exact Hk|]. split; [|exact Hv].
    exists t, txt'. split; [exact (holding_sees d s1 t txt' (proj1 H) P2)|auto].
Qed.

Lemma next_stream : forall d s k v ts, stream d s ((k, v) :: ts) ->
  exists t s1, next d s = (t, s1) /\ tkind t = k /\ tval t = v /\ stream d s1 ts.
Proof.
  intros d s k v ts H. cbn in H. destruct H as [t [txt' [H [Hk [Hv [Hn Ht]]]]]].
  destruct (next_sees d s t txt' H) as [N1 [N2 _]]. destruct (next d s) as [t1 s1]. cbn [fst snd] in N1, N2. subst t1.
  exists t, s1. split; [reflexivity|]. split; [exact Hk|]. split; [exact Hv|]. exact (toks_stream d txt' ts s1 Ht N2).
Qed.

Lemma fk_app : forall a r, a <> [] -> fk (a ++ r) = fk a.
Proof. intros [|x a] r H; [congruence|reflexivity]. Qed.

(* ---- the derived operations ---- *)
Section Ops.
  Variable d : dev.
  Variable F : nat.

  Lemma s_peek : forall s ts, stream d s ts ->
    exists t s1, run d Peek F s = (t, s1) /\ tkind t = fk ts /\ stream d s1 ts
                 /\ match ts with (_, v) :: _ => tval t = v | [] => tval t = [] end.
  Proof. intros. cbn [run]. apply peek_stream. assumption. Qed.

  Lemma s_next : forall s k v ts, stream d s ((k, v) :: ts) ->
    exists t s1, run d Next F s = (t, s1) /\ tkind t = k /\ tval t = v /\ stream d s1 ts.
  Proof. intros. cbn [run]. apply next_stream. assumption. Qed.

  Lemma s_haserr : forall s ts, stream d s ts -> run d HasErr F s = (false, s).
  Proof. intros s ts H. cbn [run]. rewrite (stream_noerr d s ts H). reflexivity. Qed.

  Lemma s_skip_yes : forall k s v ts, stream d s ((k, v) :: ts) ->
    exists s1, run d (skip k) F s = (true, s1) /\ stream d s1 ts.
  Proof.
    intros k s v ts H. unfold skip. cbn [run]. rewrite (stream_noerr d s _ H). cbn [run].
    destruct (peek_stream d s _ H) as [t [s1 [E [Hk [H1 _]]]]]. rewrite E. cbn [fk] in Hk.
    assert (Ek : kind_eqb (tkind t) k = true) by (apply kind_eqb_eq; exact Hk). rewrite Ek. cbn [run].
    destruct (next_stream d s1 k v ts H1) as [t2 [s2 [E2 [_ [_ H2]]]]]. rewrite E2. exists s2. auto.
  Qed.

  Lemma s_skip_no : forall k s ts, stream d s ts -> fk ts <> k ->
    exists s1, run d (skip k) F s = (false, s1) /\ stream d s1 ts.
  Proof.
    intros k s ts H Hne. unfold skip. cbn [run]. rewrite (stream_noerr d s _ H). cbn [run].
    destruct (peek_stream d s _ H) as [t [s1 [E [Hk [H1 _]]]]]. rewrite E.
    assert (Ek : kind_eqb (tkind t) k = false) by (apply kind_eqb_neq; congruence). rewrite Ek. cbn [run].
    exists s1. auto.
  Qed.

  Lemma s_expect : forall k s v ts, stream d s ((k, v) :: ts) ->
    exists t s1, run d (expect k) F s = (t, s1) /\ tkind t = k /\ tval t = v /\ stream d s1 ts.
  Proof.
    intros k s v ts H. unfold expect. cbn [run].
    destruct (peek_stream d s _ H) as [t [s1 [E [Hk [H1 _]]]]]. rewrite E. cbn [fk] in Hk.
    assert (Ek : kind_eqb (tkind t) k = true) by (apply kind_eqb_eq; exact Hk). rewrite Ek.
    apply s_next. exact H1.
  Qed.

  Lemma s_expectKeyword : forall s v ts, stream d s ((Name, v) :: ts) ->
    exists t s1, run d (expectKeyword v) F s = (t, s1) /\ stream d s1 ts.
  Proof.
    intros s v ts H. unfold expectKeyword. cbn [run].
    destruct (peek_stream d s _ H) as [t [s1 [E [Hk [H1 Hv]]]]]. rewrite E. cbn [fk] in Hk.
    unfold is_kw. assert (Ek : kind_eqb (tkind t) Name = true) by (apply kind_eqb_eq; exact Hk). rewrite Ek, Hv, str_eqb_refl. cbn [andb].
    destruct (s_next s1 Name v ts H1) as [t2 [s2 [E2 [_ [_ H2]]]]]. exists t2, s2. auto.
  Qed.

  Lemma s_peekPos : forall s ts, stream d s ts ->
    exists p s1, run d peekPos F s = (p, s1) /\ stream d s1 ts.
  Proof.
    intros s ts H. unfold peekPos. cbn [run]. rewrite (stream_noerr d s _ H). cbn [run].
    destruct (peek_stream d s _ H) as [t [s1 [E [_ [H1 _]]]]]. rewrite E. cbn [run]. eexists. exists s1. auto.
  Qed.

  Lemma s_parseName : forall s v ts, stream d s ((Name, v) :: ts) ->
    exists s1, run d parseName F s = (v, s1) /\ stream d s1 ts.
  Proof.
    intros s v ts H. unfold parseName. cbn [run].
    destruct (s_expect Name s v ts H) as [t [s1 [E [_ [Hv H1]]]]]. rewrite E. cbn [run]. rewrite Hv. exists s1. auto.
  Qed.

  (* ---- loops: `for p.peek().Kind != closek && p.err == nil { cb() }` over a list of elements ---- *)
  Section Elems.
    Variables (A E : Type).
    Variable closek : kind.
    Variable cb : prog A.
    Variable etoks : E -> list tk.
    Variable R : E -> A -> Prop.
    Variable fol : kind -> Prop.     (* what may follow an element *)
    Hypothesis fol_close : fol closek.

    Definition elem_spec (e : E) : Prop :=
      (forall rest, fk (etoks e ++ rest) <> closek /\ fol (fk (etoks e ++ rest)))
      /\ forall s rest, stream d s (etoks e ++ rest) -> fol (fk rest) ->
           exists x s1, run d cb F s = (x, s1) /\ R e x /\ stream d s1 rest.

    Definition lbody : prog (option A) :=
      tok <- Peek ;; e <- HasErr ;;
      if negb (kind_eqb tok.(tkind) closek) && negb e then (x <- cb ;; Ret (Some x)) else Ret None.

    Lemma fol_elems : forall es rest, Forall elem_spec es -> fol (fk (flat_map etoks es ++ (closek, []) :: rest)).
    Proof.
      intros [|e tl] rest H; cbn [flat_map app fk]; [exact fol_close|].
      inversion H as [|e0 tl0 He _]; subst. rewrite <- app_assoc. exact (proj2 (proj1 He _)).
    Qed.

    Lemma iter_stream : forall es, Forall elem_spec es -> forall n s acc rest, (length es < n)%nat ->
      stream d s (flat_map etoks es ++ (closek, []) :: rest) ->
      exists xs s1, iter n (run d lbody F) s acc = (rev acc ++ xs, s1) /\ Forall2 R es xs
                    /\ stream d s1 ((closek, []) :: rest).
    Proof.
      intros es Hes. induction Hes as [|e tl He Htl IH]; intros n s acc rest Hn Hs.
      - destruct n as [|n]; [cbn in Hn; lia|]. cbn [iter]. cbn [flat_map app] in Hs.
        assert (Hstep : exists s1, run d lbody F s = (None, s1) /\ stream d s1 ((closek, []) :: rest)).
        { unfold lbody. cbn [run]. destruct (peek_stream d s _ Hs) as [t [s1 [E0 [Hk [H1 _]]]]]. rewrite E0. cbn [fk] in Hk.
          rewrite (stream_noerr d s1 _ H1).
          assert (Ek : kind_eqb (tkind t) closek = true) by (apply kind_eqb_eq; exact Hk). rewrite Ek. cbn [negb andb run].
          exists s1. auto. }
        destruct Hstep as [s1 [E1 H1]]. rewrite E1. exists [], s1. rewrite app_nil_r. auto.
      - destruct n as [|n]; [cbn in Hn; lia|]. cbn [iter]. cbn [flat_map] in Hs. rewrite <- app_assoc in Hs.
        set (rest' := flat_map etoks tl ++ (closek, []) :: rest) in *.
        assert (Hstep : exists x s2, run d lbody F s = (Some x, s2) /\ R e x /\ stream d s2 rest').
        { unfold lbody. cbn [run]. destruct (peek_stream d s _ Hs) as [t [s1 [E0 [Hk [H1 _]]]]]. rewrite E0.
          rewrite (stream_noerr d s1 _ H1).
          assert (Ek : kind_eqb (tkind t) closek = false) by (apply kind_eqb_neq; rewrite Hk; exact (proj1 (proj1 He rest'))).
          rewrite Ek. cbn [negb andb run].
          destruct (proj2 He s1 rest' H1 (fol_elems tl rest Htl)) as [x [s2 [E2 [Rx H2]]]]. rewrite E2. cbn [run].
          exists x, s2. auto. }
        destruct Hstep as [x [s2 [E2 [Rx H2]]]]. rewrite E2.
        destruct (IH n s2 (x :: acc) rest ltac:(cbn in Hn; lia) H2) as [xs [s3 [I1 [I2 I3]]]].
        exists (x :: xs), s3. split; [rewrite I1; cbn [rev]; rewrite <- app_assoc; reflexivity|]. split; [constructor; assumption|exact I3].
    Qed.

    Lemma until_stream : forall es, Forall elem_spec es -> forall s rest, (length es < F)%nat ->
      stream d s (flat_map etoks es ++ (closek, []) :: rest) ->
      exists xs s1, run d (until_loop closek cb) F s = (xs, s1) /\ Forall2 R es xs /\ stream d s1 ((closek, []) :: rest).
    Proof.
      intros es Hes s rest Hn Hs.
      destruct (iter_stream es Hes F s [] rest Hn Hs) as [xs [s1 [I1 [I2 I3]]]]. exists xs, s1. split; [exact I1|auto].
    Qed.

    Lemma many_stream : forall startk es, Forall elem_spec es -> forall s rest, (length es < F)%nat ->
      stream d s ((startk, []) :: flat_map etoks es ++ (closek, []) :: rest) ->
      exists xs s1, run d (many startk closek cb) F s = (xs, s1) /\ Forall2 R es xs /\ stream d s1 rest.
    Proof.
      intros startk es Hes s rest Hn Hs. unfold many. cbn [run].
      destruct (s_skip_yes startk s [] _ Hs) as [s1 [E1 H1]]. rewrite E1. cbn [negb].
      cbn [run]. destruct (until_stream es Hes s1 rest Hn H1) as [xs [s2 [E2 [R2 H2]]]]. rewrite E2.
      destruct (next_stream d s2 closek [] rest H2) as [t3 [s3 [E3 [_ [_ H3]]]]]. cbv beta iota. cbn [run]. rewrite E3. cbn [run].
      exists xs, s3. auto.
    Qed.

    Lemma some_stream : forall startk es, es <> [] -> Forall elem_spec es -> forall s rest, (length es < F)%nat ->
      stream d s ((startk, []) :: flat_map etoks es ++ (closek, []) :: rest) ->
      exists xs s1, run d (some startk closek cb) F s = (xs, s1) /\ Forall2 R es xs /\ stream d s1 rest.
    Proof.
      intros startk es Hne Hes s rest Hn Hs. unfold some. cbn [run].
      destruct (s_skip_yes startk s [] _ Hs) as [s1 [E1 H1]]. rewrite E1. cbn [negb].
      cbn [run]. destruct (until_stream es Hes s1 rest Hn H1) as [xs [s2 [E2 [R2 H2]]]]. rewrite E2.
      destruct xs as [|x xs]; [inversion R2; subst; congruence|].
      destruct (next_stream d s2 closek [] rest H2) as [t3 [s3 [E3 [_ [_ H3]]]]]. cbv beta iota. cbn [run]. rewrite E3. cbn [run].
      exists (x :: xs), s3. auto.
    Qed.

    Lemma many_absent : forall startk s ts, stream d s ts -> fk ts <> startk ->
      exists s1, run d (many startk closek cb) F s = ([], s1) /\ stream d s1 ts.
    Proof.
      intros startk s ts Hs Hne. unfold many. cbn [run]. destruct (s_skip_no startk s ts Hs Hne) as [s1 [E1 H1]]. rewrite E1.
      cbn [negb run]. exists s1. auto.
    Qed.

    Lemma some_absent : forall startk s ts, stream d s ts -> fk ts <> startk ->
      exists s1, run d (some startk closek cb) F s = ([], s1) /\ stream d s1 ts.
    Proof.
      intros startk s ts Hs Hne. unfold some. cbn [run]. destruct (s_skip_no startk s ts Hs Hne) as [s1 [E1 H1]]. rewrite E1.
      cbn [negb run]. exists s1. auto.
    Qed.
  End Elems.
End Ops.

(* ------------------------------------------------------------------ *)
(* building token sequences from text                                  *)
Definition ign_char (c : N) : Prop := c = 9 \/ c = 32 \/ c = 44 \/ c = 10.

Lemma ws_ign : forall d ign X e ln ls, Forall ign_char ign ->
  exists e' ln' ls', ws d (ign ++ X) e ln ls = ws d X e' ln' ls'.
Proof.
  intros d ign X. induction ign as [|c tl IH]; intros e ln ls H.
  - exists e, ln, ls. reflexivity.
  - inversion H as [|c0 tl0 Hc Htl]; subst. cbn [app ws].
    destruct Hc as [-> | [-> | [-> | ->]]]; cbn [N.eqb Pos.eqb orb]; apply IH; exact Htl.
Qed.

Lemma readToken_ign : forall d ign X e ln ls, Forall ign_char ign ->
  exists e' ln' ls', readToken d (mkLx (ign ++ X) e ln ls) = readToken d (mkLx X e' ln' ls').
Proof.
  intros d ign X e ln ls H. destruct (ws_ign d ign X e ln ls H) as [e' [ln' [ls' E]]].
  exists e', ln', ls'. unfold readToken. cbn [rest endR line lsr]. rewrite E. reflexivity.
Qed.

(* what a fresh state in front of ignored characters sees is what a fresh state behind them sees *)
Lemma fresh_ign : forall d ign X s (Q : token -> str -> Prop), Forall ign_char ign -> fresh s (ign ++ X) ->
  (forall s0, fresh s0 X -> exists t txt', sees d s0 t txt' /\ Q t txt') ->
  exists t txt', sees d s t txt' /\ Q t txt'.
Proof.
  intros d ign X s Q Hi [He [Hp [Hl Hr]]] H.
  destruct (readToken_ign d ign X (endR (plx s)) (line (plx s)) (lsr (plx s)) Hi) as [e' [ln' [ls' E]]].
  set (s0 := mkPst (mkLx X e' ln' ls') None None tok0 0 0 0 0).
  assert (Hf0 : fresh s0 X) by (repeat split).
  destruct (H s0 Hf0) as [t [txt' [[Hk [[lx' [_ [_ [_ [Hrd Hx]]]]]|[_ [Hp0 _]]]] HQ]]]; [|discriminate].
  cbn [plx s0] in Hrd. exists t, txt'. split; [|exact HQ]. split; [exact Hk|]. left. exists lx'.
  split; [exact He|]. split; [exact Hp|]. split; [exact Hl|]. split; [|exact Hx].
  rewrite (lx_eta (plx s)), Hr, E. exact Hrd.
Qed.

Lemma toks_ign : forall d ign X ts, Forall ign_char ign -> toks d X ts -> toks d (ign ++ X) ts.
Proof.
  intros d ign X ts Hi H. inversion H as [txt0 H0|txt0 txt' k v ts' Hk H0 Ht]; subst.
  - apply toks_nil. intros s Hs. apply (fresh_ign d ign X s (fun t _ => tkind t = EOF /\ tval t = []) Hi Hs). exact H0.
  - apply (toks_cons d _ txt' k v ts' Hk); [|exact Ht]. intros s Hs.
    destruct (fresh_ign d ign X s (fun t tx => tx = txt' /\ tkind t = k /\ tval t = v) Hi Hs) as [t [tx [A [-> [B C]]]]].
    + intros s0 Hs0. destruct (H0 s0 Hs0) as [t [A [B C]]]. exists t, txt'. auto.
    + exists t. auto.
Qed.

Lemma toks_eof : forall d, toks d [] [].
Proof.
  intro d. apply toks_nil. intros s [He [Hp [Hl Hr]]].
  exists (mkTok EOF [] (endR (plx s)) (endR (plx s)) (line (plx s)) (endR (plx s) - lsr (plx s) + 1)%Z), []. split; [|split; reflexivity].
  split; [reflexivity|]. left. eexists. split; [exact He|]. split; [exact Hp|]. split; [exact Hl|].
  unfold readToken. rewrite Hr. cbn [ws]. unfold mk_tok. split; reflexivity.
Qed.

Lemma toks_punct : forall d c k txt ts, punct c = Some k -> 33 <= c -> c <> 44 -> c <> 239 ->
  toks d txt ts -> toks d (c :: txt) ((k, []) :: ts).
Proof.
  intros d c k txt ts Hk H1 H2 H3 Ht. apply (toks_cons d _ txt k [] ts); [|intros s Hs; exact (fresh_punct d s c k txt Hs Hk H1 H2 H3)|exact Ht].
  intro E. subst k. unfold punct in Hk.
  repeat match type of Hk with (if ?c then _ else _) = _ => destruct c; [discriminate|] end. discriminate.
Qed.

Lemma toks_name : forall d v txt ts, name_text v -> noname_head txt -> toks d txt ts -> toks d (v ++ txt) ((Name, v) :: ts).
Proof.
  intros d v txt ts Hv Hn Ht. apply (toks_cons d _ txt Name v ts); [discriminate|intros s Hs; exact (fresh_name d s v txt Hs Hv Hn)|exact Ht].
Qed.
