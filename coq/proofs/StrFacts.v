(* StrFacts.v — str_eqb decides equality; str_ltb is a strict total order (Go's string <). *)
From Coq Require Import List NArith Bool Lia.
From GQL.model Require Import Base.
Import ListNotations.
Open Scope N_scope.

Lemma str_eqb_eq : forall x y, str_eqb x y = true <-> x = y.
Proof.
  induction x as [|a x IH]; destruct y as [|c y]; cbn; split; intro H; try reflexivity; try discriminate.
  - apply andb_true_iff in H as [H1 H2]. apply N.eqb_eq in H1. apply IH in H2. subst; reflexivity.
  - inversion H; subst. rewrite N.eqb_refl. cbn. apply IH. reflexivity.
Qed.

Lemma str_eqb_refl : forall x, str_eqb x x = true.
Proof. intro x. apply str_eqb_eq. reflexivity. Qed.

Lemma str_eqb_neq : forall x y, str_eqb x y = false <-> x <> y.
Proof.
  intros x y. split; intro H.
  - intro E. apply str_eqb_eq in E. congruence.
  - destruct (str_eqb x y) eqn:E; [apply str_eqb_eq in E; contradiction|reflexivity].
Qed.

Lemma str_eqb_sym : forall x y, str_eqb x y = str_eqb y x.
Proof.
  intros x y. destruct (str_eqb x y) eqn:E.
  - apply str_eqb_eq in E. subst. symmetry. apply str_eqb_refl.
  - symmetry. apply str_eqb_neq. apply str_eqb_neq in E. congruence.
Qed.

Lemma str_ltb_irrefl : forall x, str_ltb x x = false.
Proof. induction x as [|a x IH]; cbn; [reflexivity|]. rewrite N.ltb_irrefl. exact IH. Qed.

Lemma str_ltb_trans : forall x y z, str_ltb x y = true -> str_ltb y z = true -> str_ltb x z = true.
Proof.
  induction x as [|a x IH]; intros [|c y] [|e z]; cbn; intros H1 H2; try discriminate; try reflexivity.
  destruct (a <? c) eqn:Hac.
  - apply N.ltb_lt in Hac. destruct (c <? e) eqn:Hce.
    + apply N.ltb_lt in Hce. assert (Hae : (a <? e) = true) by (apply N.ltb_lt; lia). rewrite Hae. reflexivity.
    + destruct (e <? c) eqn:Hec; [discriminate|]. apply N.ltb_ge in Hce. apply N.ltb_ge in Hec.
      assert (c = e) by lia. subst e. assert (Hae : (a <? c) = true) by (apply N.ltb_lt; lia). rewrite Hae. reflexivity.
  - destruct (c <? a) eqn:Hca; [discriminate|]. apply N.ltb_ge in Hac. apply N.ltb_ge in Hca.
    assert (a = c) by lia. subst c. destruct (a <? e) eqn:Hae; [reflexivity|].
    destruct (e <? a) eqn:Hea; [discriminate|]. eapply IH; eassumption.
Qed.

Lemma str_ltb_total : forall x y, str_ltb x y = false -> str_ltb y x = false -> x = y.
Proof.
  induction x as [|a x IH]; intros [|c y]; cbn; intros H1 H2; try discriminate; try reflexivity.
  destruct (a <? c) eqn:Hac; [discriminate|]. destruct (c <? a) eqn:Hca; [discriminate|].
  apply N.ltb_ge in Hac. apply N.ltb_ge in Hca. assert (a = c) by lia. subst c.
  f_equal. apply IH; assumption.
Qed.

Lemma str_ltb_asym : forall x y, str_ltb x y = true -> str_ltb y x = false.
Proof.
  intros x y H. destruct (str_ltb y x) eqn:E; [|reflexivity].
  pose proof (str_ltb_trans _ _ _ H E) as T. rewrite str_ltb_irrefl in T. discriminate.
Qed.
