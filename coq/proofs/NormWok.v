(* NormWok.v — what printing forgets (block strings, absent aliases) does not take a document out of the
   grammar: doc_wok is preserved by norm_doc, so the round-trip theorems can be stated for the document
   as it is. *)
From Coq Require Import List NArith ZArith Lia Bool.
From GQL.model Require Import Base Utf8 Lexer Ast Schema Parser Prog ParseQuery Format.
From GQL.proofs Require Import StrFacts TypeRoundtrip ValueRoundtrip TokenStream JsonRoundtrip ParseComplete Sizes FormatTokens FormatRoundtrip FormatFixpoint.
Import ListNotations.
Open Scope N_scope.

Lemma unblock_vt_ok : forall v, vt_ok v -> vt_ok (unblock v).
Proof.
  induction v as [k raw ch p IH] using value_ind'. intro H. rewrite Forall_forall in IH. cbn [unblock].
  destruct k; cbn [erase_kind vt_ok] in *; try (subst ch; reflexivity); try (destruct H as [H1 ->]; split; [exact H1|reflexivity]).
  - destruct H as [-> Hch]. split; [reflexivity|]. induction ch as [|[[n o0] cv] tl IHl]; [exact I|]. destruct Hch as [Hn [Hc Ht]]. cbn [map].
    split; [exact Hn|]. split; [exact (IH (n, o0, cv) (or_introl eq_refl) Hc)|]. apply IHl; [intros x Hx; apply IH; right; exact Hx|exact Ht].
  - destruct H as [-> Hch]. split; [reflexivity|]. induction ch as [|[[n o0] cv] tl IHl]; [exact I|]. destruct Hch as [Hc Ht]. cbn [map].
    split; [exact (IH (n, o0, cv) (or_introl eq_refl) Hc)|]. apply IHl; [intros x Hx; apply IH; right; exact Hx|exact Ht].
Qed.

Lemma unblock_has_var : forall v, has_var (unblock v) = has_var v.
Proof.
  induction v as [k raw ch p IH] using value_ind'. rewrite Forall_forall in IH. cbn [unblock has_var].
  assert (E : existsb (fun c : str * option pos * value => let '(_, _, cv) := c in has_var cv) (map (fun c : str * option pos * value => let '(n, op, cv) := c in (n, op, unblock cv)) ch)
              = existsb (fun c : str * option pos * value => let '(_, _, cv) := c in has_var cv) ch).
  { induction ch as [|[[n o0] cv] tl IHl]; [reflexivity|]. cbn [map existsb]. pose proof (IH (n, o0, cv) (or_introl eq_refl)) as Hc. cbn [snd] in Hc. rewrite Hc.
    rewrite IHl; [reflexivity|intros x Hx; apply IH; right; exact Hx]. }
  destruct k; cbn [erase_kind]; try exact E; reflexivity.
Qed.

Lemma norm_args_wok : forall b l, args_wok b l -> args_wok b (map norm_arg l).
Proof.
  intros b l H. unfold args_wok in *. rewrite Forall_forall in *. intros a Hin. apply in_map_iff in Hin. destruct Hin as [a0 [<- Hin0]].
  destruct (H a0 Hin0) as [H1 H2]. unfold norm_arg. cbn [a_value]. split; [apply unblock_vt_ok; exact H1|]. unfold const_ok in *. rewrite unblock_has_var. exact H2.
Qed.

Lemma norm_dirs_wok : forall b l, dirs_wok b l -> dirs_wok b (map norm_dir l).
Proof.
  intros b l H. unfold dirs_wok in *. rewrite Forall_forall in *. intros x Hin. apply in_map_iff in Hin. destruct Hin as [x0 [<- Hin0]].
  unfold norm_dir. cbn [d_args]. apply norm_args_wok. exact (H x0 Hin0).
Qed.

Lemma norm_vardef_wok : forall d v, vardef_wok d v -> vardef_wok d (norm_vardef v).
Proof.
  intros d [n t dv dirs p] [H1 H2]. unfold vardef_wok, norm_vardef in *. cbn [vd_default vd_dirs] in *. split; [|apply norm_dirs_wok; exact H2].
  destruct dv as [dv|]; cbn [option_map]; [|exact I]. destruct H1 as [A B]. split; [apply unblock_vt_ok; exact A|rewrite unblock_has_var; exact B].
Qed.

Lemma Forall_map_wok : forall (A : Type) (P : A -> Prop) (f : A -> A) l, (forall x, P x -> P (f x)) -> Forall P l -> Forall P (map f l).
Proof. intros A P f l Hf H. induction H; cbn [map]; constructor; auto. Qed.

Lemma norm_sel_wok : forall c, sel_wok c -> sel_wok (norm_sel c).
Proof.
  induction c as [al n args dirs sels p IH|n dirs p|tc dirs sels p IH] using sel_ind'; intro H; cbn [norm_sel sel_wok] in *.
  - destruct H as [Ha [Hd Hs]]. split; [apply norm_args_wok; exact Ha|]. split; [apply norm_dirs_wok; exact Hd|].
    clear - IH Hs. induction sels as [|c tl IHl]; [exact I|]. inversion IH as [|c0 tl0 Hc0 Htl0]; subst. destruct Hs as [Hs1 Hs2]. cbn [map]. split; [exact (Hc0 Hs1)|exact (IHl Htl0 Hs2)].
  - destruct H as [Hn Hd]. split; [exact Hn|apply norm_dirs_wok; exact Hd].
  - destruct H as [Hd [Hne Hs]]. split; [apply norm_dirs_wok; exact Hd|]. split; [destruct sels; [congruence|discriminate]|].
    clear - IH Hs. induction sels as [|c tl IHl]; [exact I|]. inversion IH as [|c0 tl0 Hc0 Htl0]; subst. destruct Hs as [Hs1 Hs2]. cbn [map]. split; [exact (Hc0 Hs1)|exact (IHl Htl0 Hs2)].
Qed.

Lemma map_nonempty : forall (A B : Type) (f : A -> B) l, l <> [] -> map f l <> [].
Proof. intros A B f [|x l] H; [congruence|discriminate]. Qed.

Theorem norm_doc_wok : forall d q, doc_wok d q -> doc_wok d (norm_doc q).
Proof.
  intros d [ops frags p] [Hw Hne]. unfold doc_wok, doc_defs, norm_doc in *. cbn [q_ops q_frags] in *. split.
  - apply Forall_app in Hw. destruct Hw as [Ho Hf]. rewrite !map_map. apply Forall_app. split.
    + rewrite Forall_forall in *. intros x Hin. apply in_map_iff in Hin. destruct Hin as [o [<- Hin0]].
      specialize (Ho (QOp o) (in_map QOp ops o Hin0)). destruct o as [op n vars dirs sels po]. cbn [qdef_wok] in *. unfold op_wok, norm_op in *. cbn [o_op o_vars o_dirs o_sels] in *.
      destruct Ho as [A [B [C [D E]]]]. split; [exact A|]. split; [apply Forall_map_wok; [apply norm_vardef_wok|exact B]|]. split; [apply norm_dirs_wok; exact C|].
      split; [apply map_nonempty; exact D|apply Forall_map_wok; [apply norm_sel_wok|exact E]].
    + rewrite Forall_forall in *. intros x Hin. apply in_map_iff in Hin. destruct Hin as [f [<- Hin0]].
      specialize (Hf (QFrag f) (in_map QFrag frags f Hin0)). destruct f as [n vars tc dirs sels pf]. cbn [qdef_wok] in *. unfold frag_wok, norm_frag in *. cbn [f_name f_vars f_dirs f_sels] in *.
      destruct Hf as [A [B [C [D [E G]]]]]. split; [exact A|]. split; [destruct B as [B|B]; [left; exact B|right; rewrite B; reflexivity]|].
      split; [apply Forall_map_wok; [apply norm_vardef_wok|exact C]|]. split; [apply norm_dirs_wok; exact D|].
      split; [apply map_nonempty; exact E|apply Forall_map_wok; [apply norm_sel_wok|exact G]].
  - destruct Hne as [Hne|Hne]; [left|right; exact Hne]. destruct ops; [destruct frags; [cbn in Hne; congruence|discriminate]|discriminate].
Qed.

(* the round trip for the document as it is *)
Theorem format_fixpoint' : forall d o q,
  Forall ign_char (fo_indent o) -> d F_L1 = false -> doc_lok q -> doc_wok d q ->
  exists q', parseQuery d 0 (FormatQueryDocument o q) = POk q' /\ erase_qdoc q' = erase_qdoc (norm_doc q)
             /\ FormatQueryDocument o q' = FormatQueryDocument o q.
Proof. intros d o q Hi Hd Hl Hw. exact (format_fixpoint d o q Hi Hd Hl (norm_doc_wok d q Hw)). Qed.

