(* Sizes.v — nesting depth and list widths of a document are bounded by the number of its tokens, and the
   number of tokens of a text by its length: the fuel parseQuery gives itself (2*|input|+8) always
   suffices, so the completeness theorems hold for the entry points as they are. *)
From Coq Require Import List NArith ZArith Lia Bool.
From GQL.model Require Import Base Utf8 Lexer Ast Parser Prog ParseQuery.
From GQL.proofs Require Import StrFacts ProgFacts LexerTotal ParserTotal TypeRoundtrip ValueRoundtrip TokenStream JsonRoundtrip ParseComplete.
Import ListNotations.
Open Scope N_scope.

Lemma toks_len : forall d txt ts, toks d txt ts -> (length ts <= length txt)%nat.
Proof.
  intros d txt ts H. induction H as [txt H0|txt txt' k v ts Hk H0 Ht IH]; [cbn; lia|].
  set (s0 := mkPst (mkLx txt 0 1 0) None None tok0 0 0 0 0).
  assert (Hf0 : fresh s0 txt) by (repeat split).
  destruct (H0 s0 Hf0) as [t [[_ [[lx' [_ [_ [_ [Hrd Hx]]]]]|[_ [Hp _]]]] [Hkt _]]]; [|discriminate].
  cbn [plx s0] in Hrd. pose proof (readToken_progress d _ t lx' Hrd ltac:(rewrite Hkt; exact Hk)) as Hlt.
  cbn [rest] in Hlt. rewrite Hx in Hlt. cbn [length]. lia.
Qed.

(* sums and maxima over lists *)
Lemma flat_map_max : forall (A B : Type) (f : A -> nat) (g : A -> list B) l, (forall x, In x l -> (f x <= length (g x))%nat) ->
  (fold_right (fun x acc => Nat.max (f x) acc) O l <= length (flat_map g l))%nat.
Proof.
  induction l as [|a tl IH]; intro H; [cbn; lia|]. cbn [fold_right flat_map]. rewrite app_length.
  pose proof (H a (or_introl eq_refl)). specialize (IH (fun x Hx => H x (or_intror Hx))). lia.
Qed.

Lemma flat_map_count : forall (A B : Type) (g : A -> list B) l, (forall x, In x l -> (1 <= length (g x))%nat) ->
  (length l <= length (flat_map g l))%nat.
Proof.
  induction l as [|a tl IH]; intro H; [cbn; lia|]. cbn [length flat_map]. rewrite app_length.
  pose proof (H a (or_introl eq_refl)). specialize (IH (fun x Hx => H x (or_intror Hx))). lia.
Qed.

Lemma vt_ok_children : forall k raw ch p c, (k = VList \/ k = VObject) -> vt_ok (mkValue k raw ch p) -> In c ch -> vt_ok (snd c).
Proof.
  intros k raw ch p c Hk Hok Hin. destruct Hk as [-> | ->]; destruct Hok as [_ Hch].
  - induction ch as [|[[n o] cv] tl IH]; [destruct Hin|]. destruct Hch as [_ [H1 H2]]. destruct Hin as [<-|Hin]; [exact H1|exact (IH H2 Hin)].
  - induction ch as [|[[n o] cv] tl IH]; [destruct Hin|]. destruct Hch as [H1 H2]. destruct Hin as [<-|Hin]; [exact H1|exact (IH H2 Hin)].
Qed.

Lemma value_sizes : forall v, vt_ok v ->
  (1 <= length (flat_value v))%nat /\ (value_depth v <= length (flat_value v))%nat /\ (value_width v <= length (flat_value v))%nat.
Proof.
  induction v as [k raw ch p IH] using value_ind'. intro Hok.
  assert (Hsc : ch = [] -> (1 <= length (flat_value (mkValue k raw ch p)))%nat ->
            (1 <= length (flat_value (mkValue k raw ch p)))%nat /\ (value_depth (mkValue k raw ch p) <= length (flat_value (mkValue k raw ch p)))%nat
            /\ (value_width (mkValue k raw ch p) <= length (flat_value (mkValue k raw ch p)))%nat).
  { intros -> H1. cbn [value_depth value_width fold_right length]. lia. }
  destruct k; try (apply Hsc; [first [exact Hok|exact (proj2 Hok)]|cbn [flat_value length P]; lia]).
  - (* list *)
    pose proof (fun c Hin => vt_ok_children VList raw ch p c (or_introl eq_refl) Hok Hin) as Hch. rewrite Forall_forall in IH.
    cbn [flat_value value_depth value_width]. cbn [length]. rewrite app_length. cbn [length].
    pose proof (flat_map_max _ _ (fun c : str * option pos * value => match c with (_, _, cv) => value_depth cv end)
                  (fun c : str * option pos * value => let '(_, _, cv) := c in flat_value cv) ch
                  ltac:(intros [[n0 o0] cv] Hin; exact (proj1 (proj2 (IH _ Hin (Hch _ Hin)))))) as H1.
    pose proof (flat_map_max _ _ (fun c : str * option pos * value => match c with (_, _, cv) => value_width cv end)
                  (fun c : str * option pos * value => let '(_, _, cv) := c in flat_value cv) ch
                  ltac:(intros [[n0 o0] cv] Hin; exact (proj2 (proj2 (IH _ Hin (Hch _ Hin)))))) as H2.
    pose proof (flat_map_count _ _ (fun c : str * option pos * value => let '(_, _, cv) := c in flat_value cv) ch
                  ltac:(intros [[n0 o0] cv] Hin; exact (proj1 (IH _ Hin (Hch _ Hin))))) as H3.
    lia.
  - (* object *)
    pose proof (fun c Hin => vt_ok_children VObject raw ch p c (or_intror eq_refl) Hok Hin) as Hch. rewrite Forall_forall in IH.
    cbn [flat_value value_depth value_width]. cbn [length]. rewrite app_length. cbn [length].
    assert (A1 : forall x : str * option pos * value, In x ch ->
              (match x with (_, _, cv) => value_depth cv end <= length (let '(n, _, cv) := x in (Name, n) :: P Colon :: flat_value cv))%nat).
    { intros [[n0 o0] cv] Hin. pose proof (proj1 (proj2 (IH _ Hin (Hch _ Hin)))) as H. cbn [length snd] in *. apply le_S, le_S. exact H. }
    assert (A2 : forall x : str * option pos * value, In x ch ->
              (match x with (_, _, cv) => value_width cv end <= length (let '(n, _, cv) := x in (Name, n) :: P Colon :: flat_value cv))%nat).
    { intros [[n0 o0] cv] Hin. pose proof (proj2 (proj2 (IH _ Hin (Hch _ Hin)))) as H. cbn [length snd] in *. apply le_S, le_S. exact H. }
    assert (A3 : forall x : str * option pos * value, In x ch -> (1 <= length (let '(n, _, cv) := x in (Name, n) :: P Colon :: flat_value cv))%nat).
    { intros [[n0 o0] cv] Hin. cbn [length]. apply le_n_S, Nat.le_0_l. }
    pose proof (flat_map_max _ _ _ _ ch A1) as H1. pose proof (flat_map_max _ _ _ _ ch A2) as H2. pose proof (flat_map_count _ _ _ ch A3) as H3.
    lia.
Qed.

Lemma args_sizes : forall isConst l, args_wok isConst l ->
  (args_depth l <= length (flat_args l))%nat /\ (args_width l <= length (flat_args l))%nat.
Proof.
  intros isConst l H. destruct l as [|a0 tl0]; [cbn; lia|]. remember (a0 :: tl0) as l eqn:El.
  assert (E : flat_args l = P ParenL :: flat_map flat_arg l ++ [P ParenR]) by (subst l; reflexivity). rewrite E. clear E El.
  unfold args_wok in H. rewrite Forall_forall in H. unfold args_depth, args_width. cbn [length]. rewrite app_length. cbn [length].
  assert (A1 : forall a, In a l -> (value_depth (a_value a) <= length (flat_arg a))%nat).
  { intros a Hin. pose proof (proj1 (proj2 (value_sizes _ (proj1 (H a Hin))))) as Hv. unfold flat_arg. cbn [length]. apply le_S, le_S. exact Hv. }
  assert (A2 : forall a, In a l -> (value_width (a_value a) <= length (flat_arg a))%nat).
  { intros a Hin. pose proof (proj2 (proj2 (value_sizes _ (proj1 (H a Hin))))) as Hv. unfold flat_arg. cbn [length]. apply le_S, le_S. exact Hv. }
  assert (A3 : forall a, In a l -> (1 <= length (flat_arg a))%nat) by (intros a _; unfold flat_arg; cbn [length]; apply le_n_S, Nat.le_0_l).
  pose proof (flat_map_max _ _ _ _ l A1) as H1. pose proof (flat_map_max _ _ _ _ l A2) as H2. pose proof (flat_map_count _ _ _ l A3) as H3.
  lia.
Qed.

Lemma dirs_sizes : forall isConst l, dirs_wok isConst l ->
  (dirs_depth l <= length (flat_dirs l))%nat /\ (dirs_width l <= length (flat_dirs l))%nat.
Proof.
  intros isConst l H. unfold dirs_wok in H. rewrite Forall_forall in H. unfold dirs_depth, dirs_width, flat_dirs.
  assert (A1 : forall x, In x l -> (args_depth (d_args x) <= length (flat_dir x))%nat).
  { intros x Hin. pose proof (proj1 (args_sizes _ _ (H x Hin))) as Hv. unfold flat_dir. cbn [length]. apply le_S, le_S. exact Hv. }
  assert (A2 : forall x, In x l -> (args_width (d_args x) <= length (flat_dir x))%nat).
  { intros x Hin. pose proof (proj2 (args_sizes _ _ (H x Hin))) as Hv. unfold flat_dir. cbn [length]. apply le_S, le_S. exact Hv. }
  assert (A3 : forall x, In x l -> (1 <= length (flat_dir x))%nat) by (intros x _; unfold flat_dir; cbn [length]; apply le_n_S, Nat.le_0_l).
  pose proof (flat_map_max _ _ _ _ l A1) as H1. pose proof (flat_map_max _ _ _ _ l A2) as H2. pose proof (flat_map_count _ _ _ l A3) as H3.
  lia.
Qed.

Lemma type_sizes : forall t, (type_depth' t <= length (flat_type t))%nat.
Proof.
  induction t as [n nn p|e IH nn p]; cbn [type_depth' flat_type length]; [lia|]. rewrite app_length. cbn [length]. lia.
Qed.

Lemma vardef_sizes : forall d v, vardef_wok d v ->
  (vardef_depth v <= length (flat_vardef v))%nat /\ (vardef_width v <= length (flat_vardef v))%nat.
Proof.
  intros d [n t dv dirs p] [Hdv Hd]. cbn [vd_default vd_dirs] in *. unfold vardef_depth, vardef_width, flat_vardef. cbn [vd_var vd_type vd_default vd_dirs length].
  rewrite !app_length. pose proof (type_sizes t) as Ht. destruct (dirs_sizes _ _ Hd) as [D1 D2].
  destruct dv as [dv|].
  - destruct (value_sizes dv (proj1 Hdv)) as [_ [V1 V2]]. cbn [length]. lia.
  - cbn [length]. lia.
Qed.

Lemma vardefs_sizes : forall d l, Forall (vardef_wok d) l ->
  (vardefs_depth l <= length (flat_vardefs l))%nat /\ (vardefs_width l <= length (flat_vardefs l))%nat.
Proof.
  intros d l H. destruct l as [|a0 tl0]; [cbn; lia|]. remember (a0 :: tl0) as l eqn:El.
  assert (E : flat_vardefs l = P ParenL :: flat_map flat_vardef l ++ [P ParenR]) by (subst l; reflexivity). rewrite E. clear E El.
  rewrite Forall_forall in H. unfold vardefs_depth, vardefs_width. cbn [length]. rewrite app_length. cbn [length].
  assert (A1 : forall v, In v l -> (vardef_depth v <= length (flat_vardef v))%nat) by (intros v Hin; exact (proj1 (vardef_sizes d v (H v Hin)))).
  assert (A2 : forall v, In v l -> (vardef_width v <= length (flat_vardef v))%nat) by (intros v Hin; exact (proj2 (vardef_sizes d v (H v Hin)))).
  assert (A3 : forall v, In v l -> (1 <= length (flat_vardef v))%nat) by (intros v _; unfold flat_vardef; cbn [length]; apply le_n_S, Nat.le_0_l).
  pose proof (flat_map_max _ _ _ _ l A1) as H1. pose proof (flat_map_max _ _ _ _ l A2) as H2. pose proof (flat_map_count _ _ _ l A3) as H3.
  lia.
Qed.

Lemma all_wok_Forall' : forall sels,
  (fix all (l : list selection) : Prop := match l with [] => True | c :: tl => sel_wok c /\ all tl end) sels -> Forall sel_wok sels.
Proof. induction sels as [|c tl IH]; intro H; constructor; [exact (proj1 H)|exact (IH (proj2 H))]. Qed.

Lemma sel_nonempty : forall c, (1 <= length (flat_sel c))%nat.
Proof.
  intros [al n args dirs sels p|n dirs p|tc dirs sels p].
  - rewrite flat_sel_field. rewrite app_length. destruct (str_eqb al n); cbn [length]; lia.
  - cbn [flat_sel length]. lia.
  - cbn [flat_sel length]. lia.
Qed.

Lemma sels_list_sizes : forall sels,
  Forall (fun c => (sel_depth c <= length (flat_sel c))%nat /\ (sel_width c <= length (flat_sel c))%nat) sels ->
  (fold_right (fun c acc => Nat.max (sel_depth c) acc) O sels <= length (flat_map flat_sel sels))%nat
  /\ (fold_right (fun c acc => Nat.max (sel_width c) acc) O sels <= length (flat_map flat_sel sels))%nat
  /\ (length sels <= length (flat_map flat_sel sels))%nat.
Proof.
  intros sels H. rewrite Forall_forall in H.
  split; [apply flat_map_max; intros x Hx; exact (proj1 (H x Hx))|].
  split; [apply flat_map_max; intros x Hx; exact (proj2 (H x Hx))|apply flat_map_count; intros x _; apply sel_nonempty].
Qed.

Lemma optset_len : forall sels, (length (flat_map flat_sel sels) <= length (flat_optset sels))%nat.
Proof. intros [|c tl]; [cbn; lia|]. unfold flat_optset, flat_selset. cbn [length]. rewrite app_length. cbn [length]. lia. Qed.

Theorem sel_sizes : forall c, sel_wok c -> (sel_depth c <= length (flat_sel c))%nat /\ (sel_width c <= length (flat_sel c))%nat.
Proof.
  induction c as [al n args dirs sels p IH|n dirs p|tc dirs sels p IH] using sel_ind'; intro Hw.
  - destruct Hw as [Wa [Wd Ws]]. apply all_wok_Forall' in Ws.
    assert (Hall : Forall (fun c => (sel_depth c <= length (flat_sel c))%nat /\ (sel_width c <= length (flat_sel c))%nat) sels).
    { rewrite Forall_forall in *. intros x Hx. exact (IH x Hx (Ws x Hx)). }
    destruct (sels_list_sizes sels Hall) as [S1 [S2 S3]]. pose proof (optset_len sels) as So.
    destruct (args_sizes _ _ Wa) as [A1 A2]. destruct (dirs_sizes _ _ Wd) as [D1 D2].
    rewrite flat_sel_field. cbn [sel_depth sel_width]. rewrite !app_length.
    assert (Hh : (1 <= length (if str_eqb al n then [(Name, n)] else [(Name, al); P Colon; (Name, n)]))%nat) by (destruct (str_eqb al n); cbn [length]; lia).
    lia.
  - destruct Hw as [_ Wd]. destruct (dirs_sizes _ _ Wd) as [D1 D2]. cbn [sel_depth sel_width flat_sel length]. lia.
  - destruct Hw as [Wd [_ Ws]]. apply all_wok_Forall' in Ws.
    assert (Hall : Forall (fun c => (sel_depth c <= length (flat_sel c))%nat /\ (sel_width c <= length (flat_sel c))%nat) sels).
    { rewrite Forall_forall in *. intros x Hx. exact (IH x Hx (Ws x Hx)). }
    destruct (sels_list_sizes sels Hall) as [S1 [S2 S3]]. destruct (dirs_sizes _ _ Wd) as [D1 D2].
    rewrite flat_sel_inline. cbn [sel_depth sel_width]. cbn [length]. rewrite !app_length. unfold flat_selset. cbn [length]. rewrite app_length. cbn [length]. lia.
Qed.

Lemma selset_sizes : forall sels, Forall sel_wok sels ->
  (sels_depth sels <= length (flat_selset sels))%nat /\ (sels_width sels <= length (flat_selset sels))%nat.
Proof.
  intros sels Hw.
  assert (Hall : Forall (fun c => (sel_depth c <= length (flat_sel c))%nat /\ (sel_width c <= length (flat_sel c))%nat) sels).
  { rewrite Forall_forall in *. intros x Hx. exact (sel_sizes x (Hw x Hx)). }
  destruct (sels_list_sizes sels Hall) as [S1 [S2 S3]]. unfold sels_depth, sels_width, flat_selset. cbn [length]. rewrite app_length. cbn [length]. lia.
Qed.

Lemma qdef_sizes : forall d x, qdef_wok d x ->
  (1 <= length (flat_qdef x))%nat /\ (qdef_depth x <= length (flat_qdef x))%nat /\ (qdef_width x <= length (flat_qdef x))%nat.
Proof.
  intros d [o|f|] Hw; [| |destruct Hw].
  - destruct Hw as [_ [Wv [Wd [_ Ws]]]]. destruct (vardefs_sizes d _ Wv) as [V1 V2]. destruct (dirs_sizes _ _ Wd) as [D1 D2]. destruct (selset_sizes _ Ws) as [S1 S2].
    unfold qdef_depth, qdef_width, op_depth, op_width, flat_qdef, flat_op. cbn [length]. rewrite !app_length. lia.
  - destruct Hw as [_ [_ [Wv [Wd [_ Ws]]]]]. destruct (vardefs_sizes d _ Wv) as [V1 V2]. destruct (dirs_sizes _ _ Wd) as [D1 D2]. destruct (selset_sizes _ Ws) as [S1 S2].
    unfold qdef_depth, qdef_width, frag_depth, frag_width, flat_qdef, flat_frag. cbn [length]. rewrite !app_length. cbn [length]. rewrite !app_length. lia.
Qed.

Theorem doc_sizes : forall d q, doc_wok d q ->
  (doc_depth q <= length (flat_doc q))%nat /\ (doc_width q <= length (flat_doc q))%nat.
Proof.
  intros d q [Hw _]. rewrite Forall_forall in Hw. unfold doc_depth, doc_width, flat_doc.
  pose proof (flat_map_max _ _ qdef_depth flat_qdef (doc_defs q) (fun x Hx => proj1 (proj2 (qdef_sizes d x (Hw x Hx))))) as H1.
  pose proof (flat_map_max _ _ qdef_width flat_qdef (doc_defs q) (fun x Hx => proj2 (proj2 (qdef_sizes d x (Hw x Hx))))) as H2.
  pose proof (flat_map_count _ _ flat_qdef (doc_defs q) (fun x Hx => proj1 (qdef_sizes d x (Hw x Hx)))) as H3.
  lia.
Qed.

(* the entry point as it is: any text whose tokens are those of a document of the grammar *)
Theorem parseQuery_complete_entry : forall d q input,
  doc_wok d q -> toks d input (flat_doc q) ->
  exists q', parseQuery d 0 input = POk q' /\ erase_qdoc q' = erase_qdoc q.
Proof.
  intros d q input Hw Ht. destruct (doc_sizes d q Hw) as [S1 S2]. pose proof (toks_len d input _ Ht) as Hl.
  destruct (parseQuery_complete d q input (query_fuel input) Hw Ht ltac:(unfold query_fuel; lia) ltac:(unfold query_fuel; lia)) as [q' [s [E Eq]]].
  exists q'. split; [unfold parseQuery; rewrite E; reflexivity|exact Eq].
Qed.

