(* ParseSchemaComplete.v — the type-system parser over token sequences: every type-system document,
   written as the token sequence of the grammar (items in source order), is parsed back as those items
   (positions erased), by every production.  Built on TokenStream.v and the value, type and directive
   productions of ParseComplete.v. *)
From Coq Require Import List NArith ZArith Lia Bool.
From GQL.model Require Import Base Utf8 Lexer Ast Parser Prog ParseQuery ParseSchema.
From GQL.proofs Require Import StrFacts ProgFacts ParserTotal TypeRoundtrip ValueRoundtrip TokenStream JsonRoundtrip ParseComplete.
Import ListNotations.
Open Scope N_scope.

(* ------------------------------------------------------------------ *)
(* erasing positions                                                    *)
Definition erase_argdef (a : argdef) : argdef :=
  mkArgDef a.(ad_desc) a.(ad_name) (option_map erase_value a.(ad_default)) (erase_type a.(ad_type)) (map erase_dir a.(ad_dirs)) pos0.
Definition erase_fielddef (x : fielddef) : fielddef :=
  mkFieldDef x.(fd_desc) x.(fd_name) (map erase_argdef x.(fd_args)) (option_map erase_value x.(fd_default)) (erase_type x.(fd_type))
             (map erase_dir x.(fd_dirs)) pos0.
Definition erase_enumval (e : enumval) : enumval := mkEnumVal e.(ev_desc) e.(ev_name) (map erase_dir e.(ev_dirs)) pos0.
Definition erase_def (x : definition) : definition :=
  mkDef x.(df_kind) x.(df_desc) x.(df_name) (map erase_dir x.(df_dirs)) x.(df_ifaces) (map erase_fielddef x.(df_fields)) x.(df_types)
        (map erase_enumval x.(df_enums)) pos0 x.(df_builtin).
Definition erase_dirdef (x : dirdef) : dirdef :=
  mkDirDef x.(dd_desc) x.(dd_name) (map erase_argdef x.(dd_args)) x.(dd_locs) x.(dd_repeatable) pos0.
Definition erase_optypedef (x : optypedef) : optypedef := mkOpTypeDef x.(ot_op) x.(ot_type) pos0.
Definition erase_schemadef (x : schemadef) : schemadef :=
  mkSchemaDef x.(sd_desc) (map erase_dir x.(sd_dirs)) (map erase_optypedef x.(sd_ops)) pos0.

(* ------------------------------------------------------------------ *)
(* the grammar as token sequences                                       *)
Section DK.
(* how each description is written: as a quoted string or as a block string *)
Variable dk : str -> kind.
Hypothesis dk_ok : forall s, dk s = String_ \/ dk s = BlockString.

Definition flat_desc (desc : str) : list tk := match desc with [] => [] | _ => [(dk desc, desc)] end.
Definition flat_default (dv : option value) : list tk := match dv with Some v => P Equals :: flat_value v | None => [] end.
Definition flat_argdef (a : argdef) : list tk :=
  flat_desc a.(ad_desc) ++ (Name, a.(ad_name)) :: P Colon :: flat_type a.(ad_type) ++ flat_default a.(ad_default) ++ flat_dirs a.(ad_dirs).
Definition flat_argdefs (l : list argdef) : list tk :=
  match l with [] => [] | _ => P ParenL :: flat_map flat_argdef l ++ [P ParenR] end.
Definition flat_fielddef (x : fielddef) : list tk :=
  flat_desc x.(fd_desc) ++ (Name, x.(fd_name)) :: flat_argdefs x.(fd_args) ++ P Colon :: flat_type x.(fd_type) ++ flat_dirs x.(fd_dirs).
Definition flat_inputvalue (x : fielddef) : list tk :=
  flat_desc x.(fd_desc) ++ (Name, x.(fd_name)) :: P Colon :: flat_type x.(fd_type) ++ flat_default x.(fd_default) ++ flat_dirs x.(fd_dirs).
Definition flat_enumval (e : enumval) : list tk := flat_desc e.(ev_desc) ++ (Name, e.(ev_name)) :: flat_dirs e.(ev_dirs).
Definition flat_block {A} (f : A -> list tk) (l : list A) : list tk :=
  match l with [] => [] | _ => P BraceL :: flat_map f l ++ [P BraceR] end.

(* what may follow an argument definition, a field definition, an input value or an enum value *)
Definition mfol (k : kind) : Prop := k = Name \/ k = String_ \/ k = BlockString \/ k = ParenR \/ k = BraceR.

Lemma mfol_facts : forall k, mfol k -> k <> Bang /\ k <> Equals /\ k <> At /\ k <> ParenL /\ k <> Colon /\ k <> Amp.
Proof. intros k [-> | [-> | [-> | [-> | ->]]]]; repeat split; discriminate. Qed.

Section Productions.
  Variable d : dev.
  Variable F : nat.

  (* ---- descriptions ---- *)
  Lemma parse_desc : forall desc s rest, fk rest <> String_ -> fk rest <> BlockString -> stream d s (flat_desc desc ++ rest) ->
    exists b0 s1, run d parseDescription F s = ((desc, b0), s1) /\ stream d s1 rest.
  Proof.
    intros desc s rest H1 H2 Hs. unfold parseDescription. cbn [run]. destruct desc as [|c tl].
    - cbn [flat_desc app] in Hs. destruct (peek_stream d s _ Hs) as [t [s1 [E [Hk [Hs1 _]]]]]. rewrite E.
      assert (E1 : kind_eqb (tkind t) BlockString = false) by (apply kind_eqb_neq; congruence).
      assert (E2 : kind_eqb (tkind t) String_ = false) by (apply kind_eqb_neq; congruence).
      rewrite E1, E2. cbn [orb run]. exists false, s1. auto.
    - cbn [flat_desc app] in Hs. destruct (peek_stream d s _ Hs) as [t [s1 [E [Hk [Hs1 _]]]]]. rewrite E. cbn [fk] in Hk. rewrite Hk.
      assert (Eb : kind_eqb (dk (c :: tl)) BlockString || kind_eqb (dk (c :: tl)) String_ = true) by (destruct (dk_ok (c :: tl)) as [-> | ->]; reflexivity).
      rewrite Eb. cbn [run].
      destruct (next_stream d s1 _ _ _ Hs1) as [t2 [s2 [E2 [_ [Hv Hs2]]]]]. rewrite E2. cbn [run]. rewrite Hv. exists true, s2. auto.
  Qed.

  (* ---- `for p.skip(sep) && p.err == nil { item }` ---- *)
  Section Sep.
    Variables (A E : Type).
    Variable sep : kind.
    Variable item : prog A.
    Variable etoks : E -> list tk.
    Variable R : E -> A -> Prop.
    Variable okE : E -> Prop.
    Hypothesis item_ok : forall e s rest, okE e -> stream d s (etoks e ++ rest) -> exists x s1, run d item F s = (x, s1) /\ R e x /\ stream d s1 rest.

    Definition sbody : prog (option A) :=
      has <- skip sep ;; e <- HasErr ;; if has && negb e then (x <- item ;; Ret (Some x)) else Ret None.

    Lemma sep_iter : forall es, Forall okE es -> forall n s acc rest, (length es < n)%nat -> fk rest <> sep ->
      stream d s (flat_map (fun e => (sep, []) :: etoks e) es ++ rest) ->
      exists xs s1, iter n (run d sbody F) s acc = (rev acc ++ xs, s1) /\ Forall2 R es xs /\ stream d s1 rest.
    Proof.
      intros es Hok. induction Hok as [|e tl He Htl IH]; intros n s acc rest Hn Hr Hs.
      - destruct n as [|n]; [cbn in Hn; lia|]. cbn [iter]. cbn [flat_map app] in Hs.
        assert (Hstep : exists s1, run d sbody F s = (None, s1) /\ stream d s1 rest).
        { unfold sbody. cbn [run]. destruct (s_skip_no d F sep s rest Hs Hr) as [s1 [E1 H1]]. rewrite E1.
          rewrite (stream_noerr d s1 _ H1). cbn [andb run]. exists s1. auto. }
        destruct Hstep as [s1 [E1 H1]]. rewrite E1. exists [], s1. rewrite app_nil_r. auto.
      - destruct n as [|n]; [cbn in Hn; lia|]. cbn [iter]. cbn [flat_map app] in Hs. rewrite <- app_assoc in Hs.
        assert (Hstep : exists x s2, run d sbody F s = (Some x, s2) /\ R e x /\ stream d s2 (flat_map (fun e => (sep, []) :: etoks e) tl ++ rest)).
        { unfold sbody. cbn [run]. destruct (s_skip_yes d F sep s [] _ Hs) as [s1 [E1 H1]]. rewrite E1.
          rewrite (stream_noerr d s1 _ H1). cbn [andb negb run].
          destruct (item_ok e s1 _ He H1) as [x [s2 [E2 [Rx H2]]]]. rewrite E2. cbn [run]. exists x, s2. auto. }
        destruct Hstep as [x [s2 [E2 [Rx H2]]]]. rewrite E2.
        destruct (IH n s2 (x :: acc) rest ltac:(cbn in Hn; lia) Hr H2) as [xs [s3 [I1 [I2 I3]]]].
        exists (x :: xs), s3. split; [rewrite I1; cbn [rev]; rewrite <- app_assoc; reflexivity|]. split; [constructor; assumption|exact I3].
    Qed.

    Lemma sep_stream : forall es, Forall okE es -> forall s rest, (length es < F)%nat -> fk rest <> sep ->
      stream d s (flat_map (fun e => (sep, []) :: etoks e) es ++ rest) ->
      exists xs s1, run d (sep_loop sep item) F s = (xs, s1) /\ Forall2 R es xs /\ stream d s1 rest.
    Proof.
      intros es Hok s rest Hn Hr Hs. destruct (sep_iter es Hok F s [] rest Hn Hr Hs) as [xs [s1 [I1 [I2 I3]]]].
      exists xs, s1. split; [exact I1|auto].
    Qed.
  End Sep.

  Lemma names_sep : forall sep (l : list str) s rest, (length l < F)%nat -> fk rest <> sep ->
    stream d s (flat_map (fun n => (sep, []) :: [(Name, n)]) l ++ rest) ->
    exists s1, run d (sep_loop sep parseName) F s = (l, s1) /\ stream d s1 rest.
  Proof.
    intros sep l s rest Hn Hr Hs.
    assert (Hitem : forall (e : str) s0 r, True -> stream d s0 ([(Name, e)] ++ r) -> exists x s1, run d parseName F s0 = (x, s1) /\ x = e /\ stream d s1 r)
      by (intros e s0 r _ H0; destruct (s_parseName d F s0 e r H0) as [s1 [E1 H1]]; exists e, s1; auto).
    destruct (sep_stream _ _ sep parseName (fun n : str => [(Name, n)]) (fun n x => x = n) (fun _ => True) Hitem l
                ltac:(apply Forall_forall; intros; exact I) s rest Hn Hr Hs)
      as [xs [s1 [E1 [R1 H1]]]].
    assert (xs = l) by (clear - R1; induction R1 as [|a x l l' E _ IH]; [reflexivity|]; subst; reflexivity). subst xs. exists s1. auto.
  Qed.

  (* ---- argument definitions, field definitions, input values, enum values ---- *)
  Definition default_ok (fuel : nat) (dv : option value) : Prop :=
    match dv with
    | Some v => vt_ok v /\ (value_depth v <= fuel)%nat /\ (value_width v < F)%nat /\ has_var v = false
    | None => True
    end.
  Definition cdirs_ok (fuel : nat) (l : list directive) : Prop := Forall (dir_ok F true fuel) l /\ (length l < F)%nat.
  Definition argdef_ok (fuel : nat) (a : argdef) : Prop :=
    (type_depth' a.(ad_type) <= fuel)%nat /\ default_ok fuel a.(ad_default) /\ cdirs_ok fuel a.(ad_dirs).

  Lemma default_fk : forall dv X, fk (flat_default dv ++ X) = Equals \/ fk (flat_default dv ++ X) = fk X.
  Proof. intros [v|] X; [left|right]; reflexivity. Qed.

  (* name : type default? directives — the tail shared by argument definitions and input values *)
  Lemma parse_typed_tail : forall fuel t dv dirs s rest,
    (type_depth' t <= fuel)%nat -> default_ok fuel dv -> cdirs_ok fuel dirs -> mfol (fk rest) ->
    stream d s (P Colon :: flat_type t ++ flat_default dv ++ flat_dirs dirs ++ rest) ->
    forall (A : Type) (K : type_ -> option value -> list directive -> A),
    exists t' dv' dirs' s1,
      run d (_ <- expect Colon ;; t0 <- parseTypeReference fuel ;; hasdef <- skip Equals ;;
             dv0 <- (if hasdef then x <- parseValueLiteral fuel true ;; Ret (Some x) else Ret None) ;;
             dirs0 <- parseDirectives fuel true ;; Ret (K t0 dv0 dirs0)) F s = (K t' dv' dirs', s1)
      /\ erase_type t' = erase_type t /\ option_map erase_value dv' = option_map erase_value dv
      /\ map erase_dir dirs' = map erase_dir dirs /\ stream d s1 rest.
  Proof.
    intros fuel t dv dirs s rest Ht Hdv [Hd Hnd] Hr Hs A K. destruct (mfol_facts _ Hr) as [R1 [R2 [R3 [R4 [R5 R6]]]]]. cbn [run].
    destruct (s_expect d F Colon s [] _ Hs) as [tc [s1 [E1 [_ [_ H1]]]]]. rewrite E1.
    assert (Hnb : fk (flat_default dv ++ flat_dirs dirs ++ rest) <> Bang).
    { destruct (default_fk dv (flat_dirs dirs ++ rest)) as [-> | ->]; [discriminate|]. destruct (dirs_tail_fk dirs rest) as [-> | ->]; [discriminate|exact R1]. }
    destruct (parse_type d F t fuel s1 _ Ht Hnb H1) as [t' [s2 [E2 [Et H2]]]]. rewrite E2.
    destruct dv as [v|].
    - cbn [flat_default app] in H2. destruct Hdv as [V1 [V2 [V3 V4]]].
      destruct (s_skip_yes d F Equals s2 [] _ H2) as [s3 [E3 H3]]. rewrite E3. cbn [run].
      destruct (parse_value d F v V1 fuel true s3 _ V2 V3 (fun _ => V4) H3) as [v' [s4 [E4 [Ev H4]]]]. rewrite E4. cbn [run].
      destruct (parse_directives d F fuel true dirs s4 rest Hd Hnd R3 R4 H4) as [l' [s5 [E5 [El H5]]]]. rewrite E5. cbn [run].
      exists t', (Some v'), l', s5. cbn [option_map]. rewrite Ev. auto 6.
    - cbn [flat_default app] in H2.
      assert (Hne : fk (flat_dirs dirs ++ rest) <> Equals) by (destruct (dirs_tail_fk dirs rest) as [-> | ->]; [discriminate|exact R2]).
      destruct (s_skip_no d F Equals s2 _ H2 Hne) as [s3 [E3 H3]]. rewrite E3. cbn [run].
      destruct (parse_directives d F fuel true dirs s3 rest Hd Hnd R3 R4 H3) as [l' [s5 [E5 [El H5]]]]. rewrite E5. cbn [run].
      exists t', None, l', s5. auto 6.
  Qed.

  Lemma parse_argdef : forall fuel a s rest, argdef_ok fuel a -> mfol (fk rest) -> stream d s (flat_argdef a ++ rest) ->
    exists a' s1, run d (parseArgumentDef fuel) F s = (a', s1) /\ erase_argdef a' = erase_argdef a /\ stream d s1 rest.
  Proof.
    intros fuel [desc n dv t dirs p] s rest [Ht [Hdv Hd]] Hr Hs. cbn [ad_desc ad_name ad_default ad_type ad_dirs] in *.
    unfold flat_argdef in Hs. cbn [ad_desc ad_name ad_default ad_type ad_dirs] in Hs. rewrite <- !app_assoc in Hs. cbn [app] in Hs. rewrite <- !app_assoc in Hs.
    unfold parseArgumentDef. cbn [run].
    destruct (s_peekPos d F s _ Hs) as [pp [s1 [E1 H1]]]. rewrite E1.
    match type of H1 with stream _ _ (_ ++ ?r) => destruct (parse_desc desc s1 r) as [b0 [s2 [E2 H2]]]; [cbn; discriminate|cbn; discriminate|exact H1|] end. rewrite E2. cbv beta iota. cbn [run].
    destruct (peek_stream d s2 _ H2) as [t3 [s3 [E3 [_ [H3 _]]]]]. rewrite E3.
    destruct (s_parseName d F s3 _ _ H3) as [s4 [E4 H4]]. rewrite E4.
    destruct (parse_typed_tail fuel t dv dirs s4 rest Ht Hdv Hd Hr H4 _ (fun t0 dv0 dirs0 => mkArgDef desc n dv0 t0 dirs0 pp)) as [t' [dv' [dirs' [s5 [E5 [Et [Ev [Ed H5]]]]]]]].
    exists (mkArgDef desc n dv' t' dirs' pp), s5. split; [exact E5|]. split; [|exact H5].
    unfold erase_argdef. cbn [ad_desc ad_name ad_default ad_type ad_dirs]. rewrite Et, Ev, Ed. reflexivity.
  Qed.

  Lemma mfol_name : forall X n, mfol (fk ((Name, n) :: X)). Proof. intros. left. reflexivity. Qed.

  (* the first token of a member: its name or its description *)
  Definition sfirst (k : kind) : Prop := k = Name \/ k = String_ \/ k = BlockString.
  Lemma sfirst_facts : forall k, sfirst k -> k <> ParenR /\ k <> BraceR /\ mfol k.
  Proof. intros k [-> | [-> | ->]]; (split; [discriminate|split; [discriminate|]]); [left|right; left|right; right; left]; reflexivity. Qed.
  Lemma desc_first : forall desc n X, sfirst (fk (flat_desc desc ++ (Name, n) :: X)).
  Proof.
    intros [|c tl] n X; [left; reflexivity|]. cbn [flat_desc app fk]. destruct (dk_ok (c :: tl)) as [E|E]; rewrite E; [right; left|right; right]; reflexivity.
  Qed.

  Lemma parse_argdefs : forall fuel l s rest, Forall (argdef_ok fuel) l -> (length l < F)%nat -> fk rest <> ParenL ->
    stream d s (flat_argdefs l ++ rest) ->
    exists l' s1, run d (parseArgumentDefs fuel) F s = (l', s1) /\ map erase_argdef l' = map erase_argdef l /\ stream d s1 rest.
  Proof.
    intros fuel l s rest Hl Hn Hr Hs. unfold parseArgumentDefs. destruct l as [|a tl].
    - cbn [flat_argdefs app] in Hs. destruct (some_absent d F _ ParenR (parseArgumentDef fuel) ParenL s rest Hs Hr) as [s1 [E1 H1]]. exists [], s1. auto.
    - remember (a :: tl) as l eqn:El.
      assert (Hs' : stream d s (P ParenL :: flat_map flat_argdef l ++ P ParenR :: rest)).
      { subst l. unfold flat_argdefs in Hs. cbn [app] in Hs. rewrite <- app_assoc in Hs. exact Hs. }
      assert (Hel : Forall (elem_spec d F _ _ ParenR (parseArgumentDef fuel) flat_argdef (fun a x => erase_argdef x = erase_argdef a) mfol) l).
      { apply Forall_forall. intros x Hin. rewrite Forall_forall in Hl. split.
        - intro r. unfold flat_argdef. rewrite <- app_assoc. cbn [app].
          match goal with |- context [fk (flat_desc ?de ++ (Name, ?n) :: ?X)] => destruct (sfirst_facts _ (desc_first de n X)) as [A1 [_ A3]] end. split; assumption.
        - intros s0 r Hs0 Hf. exact (parse_argdef fuel x s0 r (Hl x Hin) Hf Hs0). }
      destruct (some_stream d F _ _ ParenR (parseArgumentDef fuel) flat_argdef (fun a x => erase_argdef x = erase_argdef a) mfol
                  (or_intror (or_intror (or_intror (or_introl eq_refl)))) ParenL l ltac:(subst l; discriminate) Hel s rest Hn Hs') as [xs [s1 [E1 [R1 H1]]]].
      exists xs, s1. split; [exact E1|]. split; [exact (Forall2_map_eq _ _ _ erase_argdef erase_argdef l xs R1)|exact H1].
  Qed.

  Definition fielddef_ok (fuel : nat) (x : fielddef) : Prop :=
    Forall (argdef_ok fuel) x.(fd_args) /\ (length x.(fd_args) < F)%nat /\ (type_depth' x.(fd_type) <= fuel)%nat
    /\ cdirs_ok fuel x.(fd_dirs) /\ x.(fd_default) = None.

  Lemma parse_fielddef : forall fuel x s rest, fielddef_ok fuel x -> mfol (fk rest) -> stream d s (flat_fielddef x ++ rest) ->
    exists x' s1, run d (parseFieldDefinition fuel) F s = (x', s1) /\ erase_fielddef x' = erase_fielddef x /\ stream d s1 rest.
  Proof.
    intros fuel [desc n args dv t dirs p] s rest [Ha [Hna [Ht [[Hd Hnd] Hdv]]]] Hr Hs. cbn [fd_desc fd_name fd_args fd_default fd_type fd_dirs] in *. subst dv.
    destruct (mfol_facts _ Hr) as [R1 [R2 [R3 [R4 [R5 R6]]]]].
    unfold flat_fielddef in Hs. cbn [fd_desc fd_name fd_args fd_default fd_type fd_dirs] in Hs. rewrite <- !app_assoc in Hs. cbn [app] in Hs. rewrite <- !app_assoc in Hs. cbn [app] in Hs. rewrite <- ?app_assoc in Hs.
    unfold parseFieldDefinition. cbn [run].
    destruct (s_peekPos d F s _ Hs) as [pp [s1 [E1 H1]]]. rewrite E1.
    match type of H1 with stream _ _ (_ ++ ?r) => destruct (parse_desc desc s1 r) as [b0 [s2 [E2 H2]]]; [cbn; discriminate|cbn; discriminate|exact H1|] end.
    rewrite E2. cbv beta iota. cbn [run].
    destruct (peek_stream d s2 _ H2) as [t3 [s3 [E3 [_ [H3 _]]]]]. rewrite E3.
    destruct (s_parseName d F s3 _ _ H3) as [s4 [E4 H4]]. rewrite E4.
    match type of H4 with stream _ _ (_ ++ ?r) => destruct (parse_argdefs fuel args s4 r Ha Hna) as [args' [s5 [E5 [Ea H5]]]]; [cbn; discriminate|exact H4|] end. rewrite E5.
    destruct (s_expect d F Colon s5 [] _ H5) as [tc [s6 [E6 [_ [_ H6]]]]]. rewrite E6.
    assert (Hnb : fk (flat_dirs dirs ++ rest) <> Bang) by (destruct (dirs_tail_fk dirs rest) as [-> | ->]; [discriminate|exact R1]).
    destruct (parse_type d F t fuel s6 _ Ht Hnb H6) as [t' [s7 [E7 [Et H7]]]]. rewrite E7.
    destruct (parse_directives d F fuel true dirs s7 rest Hd Hnd R3 R4 H7) as [l' [s8 [E8 [El H8]]]]. rewrite E8. cbn [run].
    eexists. exists s8. split; [reflexivity|]. split; [|exact H8].
    unfold erase_fielddef. cbn [fd_desc fd_name fd_args fd_default fd_type fd_dirs option_map]. rewrite Ea, Et, El. reflexivity.
  Qed.

  Definition inputvalue_ok (fuel : nat) (x : fielddef) : Prop :=
    x.(fd_args) = [] /\ (type_depth' x.(fd_type) <= fuel)%nat /\ default_ok fuel x.(fd_default) /\ cdirs_ok fuel x.(fd_dirs).

  Lemma parse_inputvalue : forall fuel x s rest, inputvalue_ok fuel x -> mfol (fk rest) -> stream d s (flat_inputvalue x ++ rest) ->
    exists x' s1, run d (parseInputValueDef fuel) F s = (x', s1) /\ erase_fielddef x' = erase_fielddef x /\ stream d s1 rest.
  Proof.
    intros fuel [desc n args dv t dirs p] s rest [Ha [Ht [Hdv Hd]]] Hr Hs. cbn [fd_desc fd_name fd_args fd_default fd_type fd_dirs] in *. subst args.
    unfold flat_inputvalue in Hs. cbn [fd_desc fd_name fd_args fd_default fd_type fd_dirs] in Hs. rewrite <- !app_assoc in Hs. cbn [app] in Hs. rewrite <- !app_assoc in Hs.
    unfold parseInputValueDef. cbn [run].
    destruct (s_peekPos d F s _ Hs) as [pp [s1 [E1 H1]]]. rewrite E1.
    match type of H1 with stream _ _ (_ ++ ?r) => destruct (parse_desc desc s1 r) as [b0 [s2 [E2 H2]]]; [cbn; discriminate|cbn; discriminate|exact H1|] end.
    rewrite E2. cbv beta iota. cbn [run].
    destruct (peek_stream d s2 _ H2) as [t3 [s3 [E3 [_ [H3 _]]]]]. rewrite E3.
    destruct (s_parseName d F s3 _ _ H3) as [s4 [E4 H4]]. rewrite E4.
    destruct (parse_typed_tail fuel t dv dirs s4 rest Ht Hdv Hd Hr H4 _ (fun t0 dv0 dirs0 => mkFieldDef desc n [] dv0 t0 dirs0 pp)) as [t' [dv' [dirs' [s5 [E5 [Et [Ev [Ed H5]]]]]]]].
    exists (mkFieldDef desc n [] dv' t' dirs' pp), s5. split; [exact E5|]. split; [|exact H5].
    unfold erase_fielddef. cbn [fd_desc fd_name fd_args fd_default fd_type fd_dirs map]. rewrite Et, Ev, Ed. reflexivity.
  Qed.

  Lemma parse_enumval : forall fuel e s rest, cdirs_ok fuel e.(ev_dirs) -> mfol (fk rest) -> stream d s (flat_enumval e ++ rest) ->
    exists e' s1, run d (parseEnumValueDefinition fuel) F s = (e', s1) /\ erase_enumval e' = erase_enumval e /\ stream d s1 rest.
  Proof.
    intros fuel [desc n dirs p] s rest [Hd Hnd] Hr Hs. cbn [ev_dirs] in *. destruct (mfol_facts _ Hr) as [R1 [R2 [R3 [R4 [R5 R6]]]]].
    unfold flat_enumval in Hs. cbn [ev_desc ev_name ev_dirs] in Hs. rewrite <- !app_assoc in Hs. cbn [app] in Hs.
    unfold parseEnumValueDefinition. cbn [run].
    destruct (s_peekPos d F s _ Hs) as [pp [s1 [E1 H1]]]. rewrite E1.
    match type of H1 with stream _ _ (_ ++ ?r) => destruct (parse_desc desc s1 r) as [b0 [s2 [E2 H2]]]; [cbn; discriminate|cbn; discriminate|exact H1|] end.
    rewrite E2. cbv beta iota. cbn [run].
    destruct (peek_stream d s2 _ H2) as [t3 [s3 [E3 [_ [H3 _]]]]]. rewrite E3.
    destruct (s_parseName d F s3 _ _ H3) as [s4 [E4 H4]]. rewrite E4.
    destruct (parse_directives d F fuel true dirs s4 rest Hd Hnd R3 R4 H4) as [l' [s8 [E8 [El H8]]]]. rewrite E8. cbn [run].
    eexists. exists s8. split; [reflexivity|]. split; [|exact H8]. unfold erase_enumval. cbn [ev_desc ev_name ev_dirs]. rewrite El. reflexivity.
  Qed.

  (* `{ member+ }`, absent when there is no member *)
  Lemma parse_block : forall (A : Type) (cb : prog A) (flat : A -> list tk) (er : A -> A) (ok : A -> Prop),
    (forall x r, sfirst (fk (flat x ++ r))) ->
    (forall x s rest, ok x -> mfol (fk rest) -> stream d s (flat x ++ rest) -> exists x' s1, run d cb F s = (x', s1) /\ er x' = er x /\ stream d s1 rest) ->
    forall l s rest, Forall ok l -> (length l < F)%nat -> fk rest <> BraceL -> stream d s (flat_block flat l ++ rest) ->
    exists l' s1, run d (some BraceL BraceR cb) F s = (l', s1) /\ map er l' = map er l /\ stream d s1 rest.
  Proof.
    intros A cb flat er ok Hfirst Hcb l s rest Hl Hn Hr Hs. destruct l as [|a tl].
    - cbn [flat_block app] in Hs. destruct (some_absent d F _ BraceR cb BraceL s rest Hs Hr) as [s1 [E1 H1]]. exists [], s1. auto.
    - remember (a :: tl) as l eqn:El.
      assert (Hs' : stream d s (P BraceL :: flat_map flat l ++ P BraceR :: rest)).
      { subst l. unfold flat_block in Hs. cbn [app] in Hs. rewrite <- app_assoc in Hs. exact Hs. }
      assert (Hel : Forall (elem_spec d F _ _ BraceR cb flat (fun a x => er x = er a) mfol) l).
      { apply Forall_forall. intros x Hin. rewrite Forall_forall in Hl. split.
        - intro r. destruct (sfirst_facts _ (Hfirst x r)) as [_ [A2 A3]]. split; assumption.
        - intros s0 r Hs0 Hf. exact (Hcb x s0 r (Hl x Hin) Hf Hs0). }
      destruct (some_stream d F _ _ BraceR cb flat (fun a x => er x = er a) mfol
                  (or_intror (or_intror (or_intror (or_intror eq_refl)))) BraceL l ltac:(subst l; discriminate) Hel s rest Hn Hs') as [xs [s1 [E1 [R1 H1]]]].
      exists xs, s1. split; [exact E1|]. split; [exact (Forall2_map_eq _ _ _ er er l xs R1)|exact H1].
  Qed.

  (* ---- type definitions and extensions ---- *)
  Definition fval (ts : list tk) : str := match ts with [] => [] | (_, v) :: _ => v end.
  (* what may follow a definition: the end, a keyword or a description — but not the word `implements` *)
  Definition dfol (rest : list tk) : Prop :=
    (fk rest = Name \/ fk rest = String_ \/ fk rest = BlockString \/ fk rest = EOF) /\ str_eqb (fval rest) (b "implements") = false.

  (* what peek returns: kind and text of the next token, the end-of-input token having no text *)
  Lemma peek_val : forall s ts, stream d s ts ->
    exists t s1, peek d s = (t, s1) /\ tkind t = fk ts /\ tval t = fval ts /\ stream d s1 ts.
  Proof.
    intros s ts H. destruct (peek_stream d s ts H) as [t [s1 [E [Hk [H1 Hv]]]]]. exists t, s1.
    split; [exact E|]. split; [exact Hk|]. split; [|exact H1]. destruct ts as [|[k v] ts]; exact Hv.
  Qed.

  Definition kw_of (k : dkind) : str :=
    match k with KScalar => b "scalar" | KObject => b "type" | KInterface => b "interface" | KUnion => b "union" | KEnum => b "enum" | KInputObject => b "input" end.

  Definition flat_implements (l : list str) : list tk :=
    match l with [] => [] | i0 :: tl => (Name, b "implements") :: (Name, i0) :: flat_map (fun i => (Amp, []) :: [(Name, i)]) tl end.
  Definition flat_members (l : list str) : list tk :=
    match l with [] => [] | m0 :: tl => P Equals :: (Name, m0) :: flat_map (fun m => (Pipe, []) :: [(Name, m)]) tl end.
  Definition flat_defbody (x : definition) : list tk :=
    match x.(df_kind) with
    | KScalar => flat_dirs x.(df_dirs)
    | KObject | KInterface => flat_implements x.(df_ifaces) ++ flat_dirs x.(df_dirs) ++ flat_block flat_fielddef x.(df_fields)
    | KUnion => flat_dirs x.(df_dirs) ++ flat_members x.(df_types)
    | KEnum => flat_dirs x.(df_dirs) ++ flat_block flat_enumval x.(df_enums)
    | KInputObject => flat_dirs x.(df_dirs) ++ flat_block flat_inputvalue x.(df_fields)
    end.

  Lemma parse_implements : forall l s rest, (length l < F)%nat ->
    (l = [] -> str_eqb (fval rest) (b "implements") = false) -> fk rest <> Amp ->
    stream d s (flat_implements l ++ rest) ->
    exists s1, run d (parseImplementsInterfaces d) F s = (l, s1) /\ stream d s1 rest.
  Proof.
    intros l s rest Hn Hnil Hr Hs. unfold parseImplementsInterfaces. cbn [run]. destruct l as [|i0 tl].
    - cbn [flat_implements app] in Hs. destruct (peek_val s _ Hs) as [t [s1 [E [Hk [Hv H1]]]]]. rewrite E.
      unfold tok_is_implements. rewrite Hv, (Hnil eq_refl). cbn [andb run]. exists s1. auto.
    - cbn [flat_implements app] in Hs. destruct (peek_val s _ Hs) as [t [s1 [E [Hk [Hv H1]]]]]. rewrite E.
      unfold tok_is_implements. cbn [fk fval] in Hk, Hv. rewrite Hv, Hk, str_eqb_refl. cbn [kind_eqb kind_id N.eqb Pos.eqb]. rewrite orb_true_r. cbn [andb run].
      destruct (next_stream d s1 _ _ _ H1) as [t2 [s2 [E2 [_ [_ H2]]]]]. rewrite E2.
      destruct (s_skip_no d F Amp s2 _ H2 ltac:(cbn; discriminate)) as [s3 [E3 H3]]. rewrite E3.
      destruct (s_parseName d F s3 _ _ H3) as [s4 [E4 H4]]. rewrite E4.
      destruct (names_sep Amp tl s4 rest ltac:(cbn in Hn; lia) Hr H4) as [s5 [E5 H5]]. rewrite E5. cbn [run]. exists s5. auto.
  Qed.

  Lemma parse_members : forall l s rest, (length l < F)%nat -> fk rest <> Equals -> fk rest <> Pipe ->
    stream d s (flat_members l ++ rest) ->
    exists s1, run d parseUnionMemberTypes F s = (l, s1) /\ stream d s1 rest.
  Proof.
    intros l s rest Hn Hr1 Hr2 Hs. unfold parseUnionMemberTypes. cbn [run]. destruct l as [|m0 tl].
    - cbn [flat_members app] in Hs. destruct (s_skip_no d F Equals s _ Hs Hr1) as [s1 [E1 H1]]. rewrite E1. cbn [run]. exists s1. auto.
    - cbn [flat_members app] in Hs. destruct (s_skip_yes d F Equals s [] _ Hs) as [s1 [E1 H1]]. rewrite E1. cbn [run].
      destruct (s_skip_no d F Pipe s1 _ H1 ltac:(cbn; discriminate)) as [s2 [E2 H2]]. rewrite E2.
      destruct (s_parseName d F s2 _ _ H2) as [s3 [E3 H3]]. rewrite E3.
      destruct (names_sep Pipe tl s3 rest ltac:(cbn in Hn; lia) Hr2 H3) as [s4 [E4 H4]]. rewrite E4. cbn [run]. exists s4. auto.
  Qed.

  Lemma nil_map_eq : forall (A B : Type) (f : A -> B) (a c : list A), map f a = map f c -> nil_ a = nil_ c.
  Proof. intros A B f [|x a] [|y c] H; try reflexivity; discriminate. Qed.

  Lemma dirs_weaken : forall fuel b0 l, Forall (dir_ok F true fuel) l -> Forall (dir_ok F b0 fuel) l.
  Proof.
    intros fuel b0 l H. rewrite Forall_forall in *. intros x Hx. destruct (H x Hx) as [Ha Hn]. split; [|exact Hn].
    rewrite Forall_forall in *. intros a Hin. destruct (Ha a Hin) as [A1 [A2 [A3 A4]]]. repeat split; try assumption.
    intro Hb. destruct b0; [exact (A4 eq_refl)|discriminate].
  Qed.

  Lemma dfol_facts : forall rest, dfol rest ->
    fk rest <> At /\ fk rest <> ParenL /\ fk rest <> BraceL /\ fk rest <> Equals /\ fk rest <> Pipe /\ fk rest <> Amp.
  Proof. intros rest [[H | [H | [H | H]]] _]; rewrite H; repeat split; discriminate. Qed.

  Lemma fval_dirs : forall dirs X, flat_dirs dirs = [] /\ fval (flat_dirs dirs ++ X) = fval X \/ fval (flat_dirs dirs ++ X) = [] /\ fk (flat_dirs dirs ++ X) = At.
  Proof. intros [|x tl] X; [left|right]; split; reflexivity. Qed.
  Lemma fval_block : forall (A : Type) (f : A -> list tk) l X, fval (flat_block f l ++ X) = fval X /\ fk (flat_block f l ++ X) = fk X \/ fval (flat_block f l ++ X) = [] /\ fk (flat_block f l ++ X) = BraceL.
  Proof. intros A f [|x tl] X; [left|right]; split; reflexivity. Qed.

  (* which definitions the grammar describes *)
  Definition def_ok (fuel : nat) (ext : bool) (x : definition) : Prop :=
    cdirs_ok fuel x.(df_dirs) /\ x.(df_builtin) = false
    /\ match x.(df_kind) with
       | KScalar => x.(df_ifaces) = [] /\ x.(df_fields) = [] /\ x.(df_types) = [] /\ x.(df_enums) = []
                    /\ (ext = true -> x.(df_dirs) <> [])
       | KObject => Forall (fielddef_ok fuel) x.(df_fields) /\ (length x.(df_fields) < F)%nat /\ (length x.(df_ifaces) < F)%nat
                    /\ x.(df_types) = [] /\ x.(df_enums) = []
                    /\ (ext = true -> x.(df_ifaces) <> [] \/ x.(df_dirs) <> [] \/ x.(df_fields) <> [])
       | KInterface => Forall (fielddef_ok fuel) x.(df_fields) /\ (length x.(df_fields) < F)%nat /\ (length x.(df_ifaces) < F)%nat
                    /\ x.(df_types) = [] /\ x.(df_enums) = []
                    /\ (ext = true -> (d F_S4 = true -> x.(df_ifaces) = []) /\ (x.(df_ifaces) <> [] \/ x.(df_dirs) <> [] \/ x.(df_fields) <> []))
       | KUnion => x.(df_ifaces) = [] /\ x.(df_fields) = [] /\ x.(df_enums) = [] /\ (length x.(df_types) < F)%nat
                    /\ (ext = true -> x.(df_dirs) <> [] \/ x.(df_types) <> [])
       | KEnum => x.(df_ifaces) = [] /\ x.(df_fields) = [] /\ x.(df_types) = []
                    /\ Forall (fun e => cdirs_ok fuel e.(ev_dirs)) x.(df_enums) /\ (length x.(df_enums) < F)%nat
                    /\ (ext = true -> x.(df_dirs) <> [] \/ x.(df_enums) <> [])
       | KInputObject => x.(df_ifaces) = [] /\ x.(df_types) = [] /\ x.(df_enums) = []
                    /\ Forall (inputvalue_ok fuel) x.(df_fields) /\ (length x.(df_fields) < F)%nat
                    /\ (ext = true -> x.(df_dirs) <> [] \/ x.(df_fields) <> [])
       end.

  Lemma finish_ok : forall (ext empty : bool) (x : definition) s ts, stream d s ts -> (ext = true -> empty = false) ->
    run d (if ext && empty then unexpectedError ;;; Ret x else Ret x) F s = (x, s).
  Proof. intros ext empty x s ts Hs H. destruct ext; [rewrite (H eq_refl)|]; reflexivity. Qed.

  Lemma fielddef_first : forall x r, sfirst (fk (flat_fielddef x ++ r)).
  Proof. intros x r. unfold flat_fielddef. rewrite <- app_assoc. cbn [app]. apply desc_first. Qed.
  Lemma inputvalue_first : forall x r, sfirst (fk (flat_inputvalue x ++ r)).
  Proof. intros x r. unfold flat_inputvalue. rewrite <- app_assoc. cbn [app]. apply desc_first. Qed.
  Lemma enumval_first : forall x r, sfirst (fk (flat_enumval x ++ r)).
  Proof. intros x r. unfold flat_enumval. rewrite <- app_assoc. cbn [app]. apply desc_first. Qed.

  Lemma nonnil : forall (A : Type) (l : list A), l <> [] -> nil_ l = false.
  Proof. intros A [|x l] H; [congruence|reflexivity]. Qed.

  Theorem parse_typedef : forall fuel ext desc x s rest, def_ok fuel ext x -> dfol rest ->
    stream d s ((Name, kw_of x.(df_kind)) :: (Name, x.(df_name)) :: flat_defbody x ++ rest) ->
    exists x' s1, run d (parseTypeDef d fuel x.(df_kind) (kw_of x.(df_kind)) ext desc) F s = (x', s1)
                  /\ erase_def x' = erase_def (mkDef x.(df_kind) desc x.(df_name) x.(df_dirs) x.(df_ifaces) x.(df_fields) x.(df_types) x.(df_enums) x.(df_pos) false)
                  /\ stream d s1 rest.
  Proof.
    intros fuel ext desc [k dsc n dirs ifs flds tys vals p bi] s rest [[Hd Hnd] [Hbi Hk]] Hr Hs.
    cbn [df_kind df_desc df_name df_dirs df_ifaces df_fields df_types df_enums df_pos df_builtin] in *.
    destruct (dfol_facts rest Hr) as [R1 [R2 [R3 [R4 [R5 R6]]]]]. destruct Hr as [Hrk Hrv].
    unfold parseTypeDef. cbn [run].
    destruct (s_expectKeyword d F s _ _ Hs) as [t1 [s1 [E1 H1]]]. rewrite E1.
    destruct (s_peekPos d F s1 _ H1) as [pp [s2 [E2 H2]]]. rewrite E2.
    destruct (s_parseName d F s2 _ _ H2) as [s3 [E3 H3]]. rewrite E3.
    unfold flat_defbody in H3. cbn [df_kind df_dirs df_ifaces df_fields df_types df_enums] in H3.
    destruct k.
    - (* scalar *)
      destruct Hk as [-> [-> [-> [-> Hext]]]].
      destruct (parse_directives d F fuel true dirs s3 rest Hd Hnd R1 R2 H3) as [l' [s4 [E4 [El H4]]]]. cbn [run]. rewrite E4.
      rewrite (finish_ok ext (nil_ l') _ s4 rest H4); [|intro He; rewrite (nil_map_eq _ _ erase_dir l' dirs El); apply nonnil; exact (Hext He)].
      eexists. exists s4. split; [reflexivity|]. split; [|exact H4]. unfold erase_def. cbn [df_kind df_desc df_name df_dirs df_ifaces df_fields df_types df_enums df_builtin map]. rewrite El. reflexivity.
    - (* object *)
      destruct Hk as [Hf [Hnf [Hni [-> [-> Hext]]]]]. rewrite <- !app_assoc in H3.
      set (X2 := flat_block flat_fielddef flds ++ rest) in *. set (X1 := flat_dirs dirs ++ X2) in *.
      assert (F2 : fval X2 = fval rest /\ fk X2 = fk rest \/ fval X2 = [] /\ fk X2 = BraceL) by apply fval_block.
      assert (G2 : fk X2 <> At /\ fk X2 <> ParenL /\ fk X2 <> Amp /\ str_eqb (fval X2) (b "implements") = false).
      { destruct F2 as [[-> ->]|[-> ->]]; repeat split; try assumption; try discriminate; reflexivity. }
      assert (G1 : fk X1 <> Amp /\ str_eqb (fval X1) (b "implements") = false).
      { destruct (fval_dirs dirs X2) as [[_ E]|[E1' E2']]; unfold X1.
        - destruct (dirs_tail_fk dirs X2) as [Ek|Ek]; rewrite Ek, E; [split; [discriminate|tauto]|tauto].
        - rewrite E1', E2'. split; [discriminate|reflexivity]. }
      cbn [run].
      destruct (parse_implements ifs s3 X1 Hni (fun _ => proj2 G1) (proj1 G1) H3) as [s4 [E4 H4]]. rewrite E4.
      destruct (parse_directives d F fuel true dirs s4 X2 Hd Hnd (proj1 G2) (proj1 (proj2 G2)) H4) as [l' [s5 [E5 [El H5]]]]. rewrite E5.
      destruct (parse_block _ (parseFieldDefinition fuel) flat_fielddef erase_fielddef (fielddef_ok fuel) fielddef_first (parse_fielddef fuel) flds s5 rest Hf Hnf R3 H5) as [f' [s6 [E6 [Ef H6]]]].
      unfold parseFieldsDefinition. rewrite E6.
      rewrite (finish_ok ext _ _ s6 rest H6).
      + eexists. exists s6. split; [reflexivity|]. split; [|exact H6]. unfold erase_def. cbn [df_kind df_desc df_name df_dirs df_ifaces df_fields df_types df_enums df_builtin map]. rewrite El, Ef. reflexivity.
      + intro He. rewrite (nil_map_eq _ _ erase_dir l' dirs El), (nil_map_eq _ _ erase_fielddef f' flds Ef).
        destruct (Hext He) as [H|[H|H]]; rewrite (nonnil _ _ H); rewrite ?andb_false_r; reflexivity.
    - (* interface *)
      destruct Hk as [Hf [Hnf [Hni [-> [-> Hext]]]]]. rewrite <- !app_assoc in H3.
      set (X2 := flat_block flat_fielddef flds ++ rest) in *. set (X1 := flat_dirs dirs ++ X2) in *.
      assert (F2 : fval X2 = fval rest /\ fk X2 = fk rest \/ fval X2 = [] /\ fk X2 = BraceL) by apply fval_block.
      assert (G2 : fk X2 <> At /\ fk X2 <> ParenL /\ fk X2 <> Amp /\ str_eqb (fval X2) (b "implements") = false).
      { destruct F2 as [[-> ->]|[-> ->]]; repeat split; try assumption; try discriminate; reflexivity. }
      assert (G1 : fk X1 <> Amp /\ str_eqb (fval X1) (b "implements") = false).
      { destruct (fval_dirs dirs X2) as [[_ E]|[E1' E2']]; unfold X1.
        - destruct (dirs_tail_fk dirs X2) as [Ek|Ek]; rewrite Ek, E; [split; [discriminate|tauto]|tauto].
        - rewrite E1', E2'. split; [discriminate|reflexivity]. }
      cbn [run].
      assert (Hifs : exists s4, run d (if ext && d F_S4 then Ret [] else parseImplementsInterfaces d) F s3 = (ifs, s4) /\ stream d s4 X1).
      { destruct (ext && d F_S4) eqn:Ex.
        - apply andb_true_iff in Ex. destruct Ex as [-> Ex]. destruct (Hext eq_refl) as [Hn0 _]. rewrite (Hn0 Ex) in *. cbn [run flat_implements app] in *. exists s3. auto.
        - exact (parse_implements ifs s3 X1 Hni (fun _ => proj2 G1) (proj1 G1) H3). }
      destruct Hifs as [s4 [E4 H4]]. rewrite E4.
      destruct (parse_directives d F fuel true dirs s4 X2 Hd Hnd (proj1 G2) (proj1 (proj2 G2)) H4) as [l' [s5 [E5 [El H5]]]]. rewrite E5.
      destruct (parse_block _ (parseFieldDefinition fuel) flat_fielddef erase_fielddef (fielddef_ok fuel) fielddef_first (parse_fielddef fuel) flds s5 rest Hf Hnf R3 H5) as [f' [s6 [E6 [Ef H6]]]].
      unfold parseFieldsDefinition. rewrite E6.
      rewrite (finish_ok ext _ _ s6 rest H6).
      + eexists. exists s6. split; [reflexivity|]. split; [|exact H6]. unfold erase_def. cbn [df_kind df_desc df_name df_dirs df_ifaces df_fields df_types df_enums df_builtin map]. rewrite El, Ef. reflexivity.
      + intro He. rewrite (nil_map_eq _ _ erase_dir l' dirs El), (nil_map_eq _ _ erase_fielddef f' flds Ef).
        destruct (proj2 (Hext He)) as [H|[H|H]]; rewrite (nonnil _ _ H); rewrite ?andb_false_r; reflexivity.
    - (* union *)
      destruct Hk as [-> [-> [-> [Hnt Hext]]]]. rewrite <- !app_assoc in H3.
      assert (Hm : fk (flat_members tys ++ rest) <> At /\ fk (flat_members tys ++ rest) <> ParenL).
      { destruct tys; cbn [flat_members app fk]; [split; assumption|split; discriminate]. }
      cbn [run].
      destruct (parse_directives d F fuel true dirs s3 _ Hd Hnd (proj1 Hm) (proj2 Hm) H3) as [l' [s4 [E4 [El H4]]]]. rewrite E4.
      destruct (parse_members tys s4 rest Hnt R4 R5 H4) as [s5 [E5 H5]]. rewrite E5.
      rewrite (finish_ok ext _ _ s5 rest H5).
      + eexists. exists s5. split; [reflexivity|]. split; [|exact H5]. unfold erase_def. cbn [df_kind df_desc df_name df_dirs df_ifaces df_fields df_types df_enums df_builtin map]. rewrite El. reflexivity.
      + intro He. rewrite (nil_map_eq _ _ erase_dir l' dirs El). destruct (Hext He) as [H|H]; rewrite (nonnil _ _ H); rewrite ?andb_false_r; reflexivity.
    - (* enum *)
      destruct Hk as [-> [-> [-> [Hv [Hnv Hext]]]]]. rewrite <- !app_assoc in H3.
      set (X2 := flat_block flat_enumval vals ++ rest) in *.
      assert (G2 : fk X2 <> At /\ fk X2 <> ParenL).
      { destruct (fval_block _ flat_enumval vals rest) as [[_ E]|[_ E]]; unfold X2; rewrite E; split; try assumption; discriminate. }
      cbn [run].
      destruct (parse_directives d F fuel true dirs s3 X2 Hd Hnd (proj1 G2) (proj2 G2) H3) as [l' [s4 [E4 [El H4]]]]. rewrite E4.
      destruct (parse_block _ (parseEnumValueDefinition fuel) flat_enumval erase_enumval (fun e => cdirs_ok fuel (ev_dirs e)) enumval_first (parse_enumval fuel) vals s4 rest Hv Hnv R3 H4) as [v' [s5 [E5 [Ev H5]]]].
      unfold parseEnumValuesDefinition. rewrite E5.
      rewrite (finish_ok ext _ _ s5 rest H5).
      + eexists. exists s5. split; [reflexivity|]. split; [|exact H5]. unfold erase_def. cbn [df_kind df_desc df_name df_dirs df_ifaces df_fields df_types df_enums df_builtin map]. rewrite El, Ev. reflexivity.
      + intro He. rewrite (nil_map_eq _ _ erase_dir l' dirs El), (nil_map_eq _ _ erase_enumval v' vals Ev).
        destruct (Hext He) as [H|H]; rewrite (nonnil _ _ H); rewrite ?andb_false_r; reflexivity.
    - (* input object *)
      destruct Hk as [-> [-> [-> [Hf [Hnf Hext]]]]]. rewrite <- !app_assoc in H3.
      set (X2 := flat_block flat_inputvalue flds ++ rest) in *.
      assert (G2 : fk X2 <> At /\ fk X2 <> ParenL).
      { destruct (fval_block _ flat_inputvalue flds rest) as [[_ E]|[_ E]]; unfold X2; rewrite E; split; try assumption; discriminate. }
      cbn [run].
      destruct (parse_directives d F fuel (negb (ext && d F_S5)) dirs s3 X2 (dirs_weaken fuel _ dirs Hd) Hnd (proj1 G2) (proj2 G2) H3) as [l' [s4 [E4 [El H4]]]]. rewrite E4.
      destruct (parse_block _ (parseInputValueDef fuel) flat_inputvalue erase_fielddef (inputvalue_ok fuel) inputvalue_first (parse_inputvalue fuel) flds s4 rest Hf Hnf R3 H4) as [f' [s5 [E5 [Ef H5]]]].
      unfold parseInputFieldsDefinition. rewrite E5.
      rewrite (finish_ok ext _ _ s5 rest H5).
      + eexists. exists s5. split; [reflexivity|]. split; [|exact H5]. unfold erase_def. cbn [df_kind df_desc df_name df_dirs df_ifaces df_fields df_types df_enums df_builtin map]. rewrite El, Ef. reflexivity.
      + intro He. rewrite (nil_map_eq _ _ erase_dir l' dirs El), (nil_map_eq _ _ erase_fielddef f' flds Ef).
        destruct (Hext He) as [H|H]; rewrite (nonnil _ _ H); rewrite ?andb_false_r; reflexivity.
  Qed.

  (* ---- schema definitions and extensions ---- *)
  Definition flat_optype (x : optypedef) : list tk := [(Name, optype_kw x.(ot_op)); P Colon; (Name, x.(ot_type))].
  Definition flat_schemabody (x : schemadef) : list tk := (Name, b "schema") :: flat_dirs x.(sd_dirs) ++ flat_block flat_optype x.(sd_ops).

  Lemma parse_optype : forall x s rest, x.(ot_op) <> OpNone -> mfol (fk rest) -> stream d s (flat_optype x ++ rest) ->
    exists x' s1, run d (parseOperationTypeDefinition d) F s = (x', s1) /\ erase_optypedef x' = erase_optypedef x /\ stream d s1 rest.
  Proof.
    intros [op ty p] s rest Hop _ Hs. cbn [ot_op] in Hop. unfold flat_optype in Hs. cbn [ot_op ot_type app] in Hs.
    unfold parseOperationTypeDefinition, parseOperationType. cbn [run].
    destruct (s_peekPos d F s _ Hs) as [pp [s1 [E1 H1]]]. rewrite E1.
    destruct (next_stream d s1 _ _ _ H1) as [t2 [s2 [E2 [Hk2 [Hv2 H2]]]]]. rewrite E2, Hk2, Hv2.
    cbn [kind_eqb kind_id N.eqb Pos.eqb]. rewrite orb_true_r. cbn [andb].
    assert (Hop' : exists K : optype,
              (if str_eqb (optype_kw op) (b "query") then Ret OpQuery
               else if str_eqb (optype_kw op) (b "mutation") then Ret OpMutation
               else if str_eqb (optype_kw op) (b "subscription") then Ret OpSubscription
               else ErrorAt t2 ;;; Ret OpNone) = Ret K /\ K = op).
    { exists op. destruct op; [split; reflexivity|split; reflexivity|split; reflexivity|congruence]. }
    destruct Hop' as [K [EK ->]]. rewrite EK. cbn [run].
    destruct (s_expect d F Colon s2 [] _ H2) as [tc [s3 [E3 [_ [_ H3]]]]]. rewrite E3.
    destruct (s_parseName d F s3 _ _ H3) as [s4 [E4 H4]]. rewrite E4. cbn [run].
    eexists. exists s4. split; [reflexivity|]. split; [reflexivity|exact H4].
  Qed.

  Definition schemadef_ok (fuel : nat) (ext : bool) (x : schemadef) : Prop :=
    cdirs_ok fuel x.(sd_dirs) /\ Forall (fun o => o.(ot_op) <> OpNone) x.(sd_ops) /\ (length x.(sd_ops) < F)%nat
    /\ (if ext then x.(sd_desc) = [] /\ (x.(sd_dirs) <> [] \/ x.(sd_ops) <> []) else x.(sd_ops) <> [] \/ d F_S1 = true).

  Lemma optype_first : forall x r, sfirst (fk (flat_optype x ++ r)).
  Proof. intros x r. left. reflexivity. Qed.

  Lemma parse_schemadef : forall fuel desc x s rest, schemadef_ok fuel false x -> dfol rest -> stream d s (flat_schemabody x ++ rest) ->
    exists x' s1, run d (parseSchemaDefinition d fuel desc) F s = (x', s1)
                  /\ erase_schemadef x' = erase_schemadef (mkSchemaDef desc x.(sd_dirs) x.(sd_ops) x.(sd_pos)) /\ stream d s1 rest.
  Proof.
    intros fuel desc [dsc dirs ops p] s rest [[Hd Hnd] [Ho [Hno Hne]]] Hr Hs. cbn [sd_desc sd_dirs sd_ops sd_pos] in *.
    destruct (dfol_facts rest Hr) as [R1 [R2 [R3 [R4 [R5 R6]]]]].
    unfold flat_schemabody in Hs. cbn [sd_dirs sd_ops app] in Hs. rewrite <- !app_assoc in Hs.
    set (X2 := flat_block flat_optype ops ++ rest) in *.
    assert (G2 : fk X2 <> At /\ fk X2 <> ParenL /\ (ops <> [] -> fk X2 = BraceL) /\ (ops = [] -> X2 = rest)).
    { unfold X2. destruct ops; cbn [flat_block app fk]; repeat split; try assumption; try discriminate; congruence. }
    unfold parseSchemaDefinition. cbn [run].
    destruct (s_expectKeyword d F s _ _ Hs) as [t1 [s1 [E1 H1]]]. rewrite E1.
    destruct (s_peekPos d F s1 _ H1) as [pp [s2 [E2 H2]]]. rewrite E2.
    destruct (parse_directives d F fuel true dirs s2 X2 Hd Hnd (proj1 G2) (proj1 (proj2 G2)) H2) as [l' [s3 [E3 [El H3]]]]. rewrite E3.
    destruct (peek_stream d s3 _ H3) as [t4 [s4 [E4 [Hk4 [H4 _]]]]]. rewrite E4.
    assert (Hcond : negb (d F_S1) && negb (kind_eqb (tkind t4) BraceL) = false).
    { destruct ops as [|o0 otl].
      - destruct Hne as [Hne|Hne]; [congruence|]. rewrite Hne. reflexivity.
      - rewrite Hk4, (proj1 (proj2 (proj2 G2)) ltac:(discriminate)). cbn [kind_eqb kind_id N.eqb Pos.eqb negb]. apply andb_false_r. }
    rewrite Hcond.
    destruct (parse_block _ (parseOperationTypeDefinition d) flat_optype erase_optypedef (fun o => ot_op o <> OpNone) optype_first parse_optype ops s4 rest Ho Hno R3 H4) as [o' [s5 [E5 [Eo H5]]]].
    cbn [run]. rewrite E5. cbn [run]. eexists. exists s5. split; [reflexivity|]. split; [|exact H5].
    unfold erase_schemadef. cbn [sd_desc sd_dirs sd_ops]. rewrite El, Eo. reflexivity.
  Qed.

  Lemma parse_schemaext : forall fuel x s rest, schemadef_ok fuel true x -> dfol rest -> stream d s (flat_schemabody x ++ rest) ->
    exists x' s1, run d (parseSchemaExtension d fuel) F s = (x', s1) /\ erase_schemadef x' = erase_schemadef x /\ stream d s1 rest.
  Proof.
    intros fuel [dsc dirs ops p] s rest [[Hd Hnd] [Ho [Hno [Hdsc Hne]]]] Hr Hs. cbn [sd_desc sd_dirs sd_ops sd_pos] in *. subst dsc.
    destruct (dfol_facts rest Hr) as [R1 [R2 [R3 [R4 [R5 R6]]]]].
    unfold flat_schemabody in Hs. cbn [sd_dirs sd_ops app] in Hs. rewrite <- !app_assoc in Hs.
    set (X2 := flat_block flat_optype ops ++ rest) in *.
    assert (G2 : fk X2 <> At /\ fk X2 <> ParenL).
    { unfold X2. destruct ops; cbn [flat_block app fk]; split; try assumption; discriminate. }
    unfold parseSchemaExtension. cbn [run].
    destruct (s_expectKeyword d F s _ _ Hs) as [t1 [s1 [E1 H1]]]. rewrite E1.
    destruct (s_peekPos d F s1 _ H1) as [pp [s2 [E2 H2]]]. rewrite E2.
    destruct (parse_directives d F fuel true dirs s2 X2 Hd Hnd (proj1 G2) (proj2 G2) H2) as [l' [s3 [E3 [El H3]]]]. rewrite E3.
    destruct (parse_block _ (parseOperationTypeDefinition d) flat_optype erase_optypedef (fun o => ot_op o <> OpNone) optype_first parse_optype ops s3 rest Ho Hno R3 H3) as [o' [s4 [E4 [Eo H4]]]].
    rewrite E4. cbv zeta.
    assert (Hnn : nil_ l' && nil_ o' = false).
    { rewrite (nil_map_eq _ _ erase_dir l' dirs El), (nil_map_eq _ _ erase_optypedef o' ops Eo). destruct Hne as [H|H]; rewrite (nonnil _ _ H); rewrite ?andb_false_r; reflexivity. }
    rewrite Hnn. cbn [run]. eexists. exists s4. split; [reflexivity|]. split; [|exact H4].
    unfold erase_schemadef. cbn [sd_desc sd_dirs sd_ops]. rewrite El, Eo. reflexivity.
  Qed.

  (* ---- directive definitions ---- *)
  Definition loc_ok (l : str) : Prop := existsb (str_eqb l) directive_locations = true.
  Definition flat_dirdefbody (x : dirdef) : list tk :=
    (Name, b "directive") :: P At :: (Name, x.(dd_name)) :: flat_argdefs x.(dd_args)
    ++ (if x.(dd_repeatable) then [(Name, b "repeatable")] else [])
    ++ (Name, b "on") :: match x.(dd_locs) with [] => [] | l0 :: tl => (Name, l0) :: flat_map (fun l => (Pipe, []) :: [(Name, l)]) tl end.
  Definition dirdef_ok (fuel : nat) (x : dirdef) : Prop :=
    Forall (argdef_ok fuel) x.(dd_args) /\ (length x.(dd_args) < F)%nat /\ x.(dd_locs) <> [] /\ Forall loc_ok x.(dd_locs) /\ (length x.(dd_locs) < F)%nat.

  Lemma parse_location : forall l s rest, loc_ok l -> stream d s ((Name, l) :: rest) ->
    exists s1, run d parseDirectiveLocation F s = (l, s1) /\ stream d s1 rest.
  Proof.
    intros l s rest Hl Hs. unfold parseDirectiveLocation. cbn [run].
    destruct (s_expect d F Name s l rest Hs) as [t [s1 [E1 [_ [Hv H1]]]]]. rewrite E1, Hv. unfold loc_ok in Hl. rewrite Hl. cbn [run]. exists s1. auto.
  Qed.

  Lemma parse_dirdef : forall fuel desc x s rest, dirdef_ok fuel x -> dfol rest -> stream d s (flat_dirdefbody x ++ rest) ->
    exists x' s1, run d (parseDirectiveDefinition fuel desc) F s = (x', s1)
                  /\ erase_dirdef x' = erase_dirdef (mkDirDef desc x.(dd_name) x.(dd_args) x.(dd_locs) x.(dd_repeatable) x.(dd_pos)) /\ stream d s1 rest.
  Proof.
    intros fuel desc [dsc n args locs rep p] s rest [Ha [Hna [Hne [Hl Hnl]]]] Hr Hs. cbn [dd_desc dd_name dd_args dd_locs dd_repeatable dd_pos] in *.
    destruct (dfol_facts rest Hr) as [R1 [R2 [R3 [R4 [R5 R6]]]]].
    destruct locs as [|l0 ltl]; [congruence|]. inversion Hl as [|l1 ltl1 Hl0 Hltl]; subst.
    unfold flat_dirdefbody in Hs. cbn [dd_name dd_args dd_locs dd_repeatable app] in Hs. rewrite <- !app_assoc in Hs. cbn [app] in Hs.
    unfold parseDirectiveDefinition. cbn [run].
    destruct (s_expectKeyword d F s _ _ Hs) as [t1 [s1 [E1 H1]]]. rewrite E1.
    destruct (s_expect d F At s1 [] _ H1) as [t2 [s2 [E2 [_ [_ H2]]]]]. rewrite E2.
    destruct (s_peekPos d F s2 _ H2) as [pp [s3 [E3 H3]]]. rewrite E3.
    destruct (s_parseName d F s3 _ _ H3) as [s4 [E4 H4]]. rewrite E4.
    match type of H4 with stream _ _ (_ ++ ?r) => destruct (parse_argdefs fuel args s4 r Ha Hna) as [args' [s5 [E5 [Ea H5]]]]; [destruct rep; cbn; discriminate|exact H4|] end.
    rewrite E5.
    destruct (peek_stream d s5 _ H5) as [t6 [s6 [E6 [Hk6 [H6 Hv6]]]]]. rewrite E6.
    assert (Hrep : exists s7, run d (if is_kw t6 (b "repeatable") then _ <- skip Name ;; Ret true else Ret false) F s6 = (rep, s7)
                    /\ stream d s7 ((Name, b "on") :: (Name, l0) :: flat_map (fun l => (Pipe, []) :: [(Name, l)]) ltl ++ rest)).
    { destruct rep; cbn [app fk] in *.
      - unfold is_kw. rewrite Hk6, Hv6, str_eqb_refl. cbn [kind_eqb kind_id N.eqb Pos.eqb andb]. cbn [run].
        destruct (s_skip_yes d F Name s6 _ _ H6) as [s7 [E7 H7]]. rewrite E7. cbn [run]. exists s7. auto.
      - unfold is_kw. rewrite Hv6. assert (str_eqb (b "on") (b "repeatable") = false) as -> by reflexivity. rewrite andb_false_r. cbn [run]. exists s6. auto. }
    destruct Hrep as [s7 [E7 H7]]. rewrite E7.
    destruct (s_expectKeyword d F s7 _ _ H7) as [t8 [s8 [E8 H8]]]. rewrite E8.
    destruct (s_skip_no d F Pipe s8 _ H8 ltac:(cbn; discriminate)) as [s9 [E9 H9]]. rewrite E9.
    destruct (parse_location l0 s9 _ Hl0 H9) as [s10 [E10 H10]]. rewrite E10.
    assert (Hitem : forall (e : str) s0 r, loc_ok e -> stream d s0 ([(Name, e)] ++ r) -> exists x s1, run d parseDirectiveLocation F s0 = (x, s1) /\ x = e /\ stream d s1 r)
      by (intros e s0 r He H0; destruct (parse_location e s0 r He H0) as [sx [Ex Hx]]; exists e, sx; auto).
    destruct (sep_stream _ _ Pipe parseDirectiveLocation (fun l : str => [(Name, l)]) (fun l x => x = l) loc_ok Hitem ltl Hltl s10 rest ltac:(cbn in Hnl; lia) R5 H10)
      as [xs [s11 [E11 [R11 H11]]]].
    assert (xs = ltl) by (clear - R11; induction R11 as [|a x l l' E _ IH]; [reflexivity|]; subst; reflexivity). subst xs.
    rewrite E11. cbn [run]. eexists. exists s11. split; [reflexivity|]. split; [|exact H11].
    unfold erase_dirdef. cbn [dd_desc dd_name dd_args dd_locs dd_repeatable]. rewrite Ea. reflexivity.
  Qed.

  (* ---- documents ---- *)
  Definition not_implements (desc : str) : Prop := str_eqb desc (b "implements") = false.
  Definition flat_item (it : sitem) : list tk :=
    match it with
    | IDef x => flat_desc x.(df_desc) ++ (Name, kw_of x.(df_kind)) :: (Name, x.(df_name)) :: flat_defbody x
    | IExt x => (Name, b "extend") :: (Name, kw_of x.(df_kind)) :: (Name, x.(df_name)) :: flat_defbody x
    | ISchema x => flat_desc x.(sd_desc) ++ flat_schemabody x
    | ISchemaExt x => (Name, b "extend") :: flat_schemabody x
    | IDir x => flat_desc x.(dd_desc) ++ flat_dirdefbody x
    | INone => []
    end.
  Definition item_ok (fuel : nat) (it : sitem) : Prop :=
    match it with
    | IDef x => def_ok fuel false x /\ not_implements x.(df_desc)
    | IExt x => def_ok fuel true x /\ x.(df_desc) = []
    | ISchema x => schemadef_ok fuel false x /\ not_implements x.(sd_desc)
    | ISchemaExt x => schemadef_ok fuel true x
    | IDir x => dirdef_ok fuel x /\ not_implements x.(dd_desc)
    | INone => False
    end.
  Definition erase_item (it : sitem) : sitem :=
    match it with
    | IDef x => IDef (erase_def x) | IExt x => IExt (erase_def x) | ISchema x => ISchema (erase_schemadef x)
    | ISchemaExt x => ISchemaExt (erase_schemadef x) | IDir x => IDir (erase_dirdef x) | INone => INone
    end.

  Lemma kw_keyword : forall k, type_keyword (kw_of k) = Some k. Proof. destruct k; reflexivity. Qed.
  Lemma kw_not_implements : forall k, str_eqb (kw_of k) (b "implements") = false. Proof. destruct k; reflexivity. Qed.

  Lemma item_dfol : forall fuel it X, item_ok fuel it -> dfol (flat_item it ++ X).
  Proof.
    assert (Hdk : forall de, de <> [] -> dk de = String_ \/ dk de = BlockString) by (intros de _; apply dk_ok).
    intros fuel it X Hok. unfold dfol. destruct it as [x|x|x|x|x|]; cbn [item_ok flat_item] in *; try contradiction.
    - destruct Hok as [_ Hd]. destruct (df_desc x) as [|c tl] eqn:E; cbn [flat_desc app fk fval]; [split; [left; reflexivity|apply kw_not_implements]|].
      split; [|exact Hd]. destruct (dk_ok (c :: tl)) as [E'|E']; rewrite E'; [right; left|right; right; left]; reflexivity.
    - split; [left; reflexivity|reflexivity].
    - destruct Hok as [_ Hd]. destruct (sd_desc x) as [|c tl] eqn:E; cbn [flat_desc flat_schemabody app fk fval]; [split; [left; reflexivity|reflexivity]|].
      split; [|exact Hd]. destruct (dk_ok (c :: tl)) as [E'|E']; rewrite E'; [right; left|right; right; left]; reflexivity.
    - split; [left; reflexivity|reflexivity].
    - destruct Hok as [_ Hd]. destruct (dd_desc x) as [|c tl] eqn:E; cbn [flat_desc flat_dirdefbody app fk fval]; [split; [left; reflexivity|reflexivity]|].
      split; [|exact Hd]. destruct (dk_ok (c :: tl)) as [E'|E']; rewrite E'; [right; left|right; right; left]; reflexivity.
  Qed.

  Lemma items_dfol : forall fuel l, Forall (item_ok fuel) l -> dfol (flat_map flat_item l).
  Proof.
    intros fuel [|it tl] H; [split; [right; right; right; reflexivity|reflexivity]|]. inversion H; subst. cbn [flat_map]. apply (item_dfol fuel); assumption.
  Qed.

  (* the head of one loop iteration: end-of-input test, description, keyword *)
  Lemma body_head : forall fuel desc kw X s, kw <> [] -> stream d s (flat_desc desc ++ (Name, kw) :: X) ->
    forall K : str -> bool -> token -> prog (option sitem),
    exists b0 tk s1, run d (parseSchemaDocument_body d fuel) F s
                     = run d (if negb (kind_eqb (tkind tk) Name) then unexpectedError ;;; Ret None else
                              match type_keyword (tval tk) with
                              | Some k => x <- parseTypeDef d fuel k (tval tk) false desc ;; Ret (Some (IDef x))
                              | None =>
                                if str_eqb (tval tk) (b "schema") then x <- parseSchemaDefinition d fuel desc ;; Ret (Some (ISchema x))
                                else if str_eqb (tval tk) (b "directive") then x <- parseDirectiveDefinition fuel desc ;; Ret (Some (IDir x))
                                else if str_eqb (tval tk) (b "extend") then
                                  let bad := if d F_S6 then negb (nil_ desc) else b0 in
                                  _ <- (if bad then pv <- Prev ;; ErrorAt pv else Ret tt) ;;
                                  _ <- expectKeyword (b "extend") ;;
                                  ek <- Peek ;;
                                  if str_eqb ek.(tval) (b "schema") then x <- parseSchemaExtension d fuel ;; Ret (Some (ISchemaExt x))
                                  else match type_keyword ek.(tval) with
                                       | Some k => x <- parseTypeDef d fuel k ek.(tval) true [] ;; Ret (Some (IExt x))
                                       | None => unexpectedError ;;; Ret (Some INone)
                                       end
                                else unexpectedError ;;; Ret None
                              end) F s1
                     /\ tkind tk = Name /\ tval tk = kw /\ (desc = [] -> b0 = false) /\ stream d s1 ((Name, kw) :: X).
  Proof.
    intros fuel desc kw X s Hkw Hs _. unfold parseSchemaDocument_body. cbn [run].
    destruct (peek_stream d s _ Hs) as [t0 [s0 [E0 [Hk0 [H0 _]]]]]. rewrite E0.
    assert (Hne : kind_eqb (tkind t0) EOF = false).
    { apply kind_eqb_neq. rewrite Hk0. destruct desc as [|c0 tl0]; cbn [flat_desc app fk]; [discriminate|]. destruct (dk_ok (c0 :: tl0)) as [E'|E']; rewrite E'; discriminate. }
    rewrite Hne. cbn [run]. rewrite (stream_noerr d s0 _ H0). cbn [run].
    destruct (peek_stream d s0 _ H0) as [t1 [s1 [E1 [Hk1 [H1 _]]]]]. rewrite E1.
    destruct desc as [|c tl].
    - cbn [flat_desc app fk] in *. rewrite Hk1. cbn [kind_eqb kind_id N.eqb Pos.eqb orb]. cbn [run].
      destruct (peek_stream d s1 _ H1) as [t2 [s2 [E2 [Hk2 [H2 Hv2]]]]]. rewrite E2.
      exists false, t2, s2. split; [reflexivity|]. auto.
    - cbn [flat_desc app fk] in *. rewrite Hk1.
      assert (Eb : kind_eqb (dk (c :: tl)) BlockString || kind_eqb (dk (c :: tl)) String_ = true) by (destruct (dk_ok (c :: tl)) as [E'|E']; rewrite E'; reflexivity).
      rewrite Eb.
      destruct (parse_desc (c :: tl) s1 ((Name, kw) :: X) ltac:(cbn; discriminate) ltac:(cbn; discriminate) H1) as [b0 [s2 [E2 H2]]].
      cbn [run]. rewrite E2. cbv beta iota. cbn [run].
      destruct (peek_stream d s2 _ H2) as [t3 [s3 [E3 [Hk3 [H3 Hv3]]]]]. rewrite E3.
      exists b0, t3, s3. split; [reflexivity|]. split; [exact Hk3|]. split; [exact Hv3|]. split; [discriminate|exact H3].
  Qed.

  Lemma kw_nonempty : forall k, kw_of k <> []. Proof. destruct k; discriminate. Qed.

  Lemma body_item : forall fuel it s rest, item_ok fuel it -> dfol rest -> stream d s (flat_item it ++ rest) ->
    exists it' s1, run d (parseSchemaDocument_body d fuel) F s = (Some it', s1) /\ erase_item it' = erase_item it /\ stream d s1 rest.
  Proof.
    intros fuel it s rest Hok Hr Hs. destruct it as [x|x|x|x|x|]; cbn [item_ok flat_item] in *; try contradiction.
    - (* a type definition *)
      destruct Hok as [Hx _]. rewrite <- app_assoc in Hs. cbn [app] in Hs.
      destruct (body_head fuel (df_desc x) (kw_of (df_kind x)) _ s (kw_nonempty _) Hs (fun _ _ _ => Ret None)) as [b0 [tk0 [s1 [E [Hk [Hv [_ H1]]]]]]].
      rewrite E, Hk, Hv. cbn [kind_eqb kind_id N.eqb Pos.eqb negb]. rewrite kw_keyword. cbn [run].
      destruct (parse_typedef fuel false (df_desc x) x s1 rest Hx Hr H1) as [x' [s2 [E2 [Ex H2]]]]. rewrite E2. cbn [run].
      exists (IDef x'), s2. split; [reflexivity|]. split; [|exact H2]. cbn [erase_item]. rewrite Ex.
      destruct Hx as [_ [Hbi _]]. destruct x; cbn in *; subst; reflexivity.
    - (* a type extension *)
      destruct Hok as [Hx Hdsc]. cbn [app] in Hs.
      destruct (body_head fuel [] (b "extend") _ s ltac:(discriminate) Hs (fun _ _ _ => Ret None)) as [b0 [tk0 [s1 [E [Hk [Hv [Hb H1]]]]]]].
      rewrite E, Hk, Hv, (Hb eq_refl). cbn [kind_eqb kind_id N.eqb Pos.eqb negb].
      assert (type_keyword (b "extend") = None) as -> by reflexivity.
      assert (str_eqb (b "extend") (b "schema") = false) as -> by reflexivity.
      assert (str_eqb (b "extend") (b "directive") = false) as -> by reflexivity.
      rewrite str_eqb_refl. cbv zeta. cbn [nil_ negb]. assert ((if d F_S6 then false else false) = false) as -> by (destruct (d F_S6); reflexivity).
      cbn [run].
      destruct (s_expectKeyword d F s1 _ _ H1) as [t2 [s2 [E2 H2]]]. rewrite E2.
      destruct (peek_stream d s2 _ H2) as [t3 [s3 [E3 [Hk3 [H3 Hv3]]]]]. rewrite E3. rewrite Hv3.
      assert (str_eqb (kw_of (df_kind x)) (b "schema") = false) as -> by (destruct (df_kind x); reflexivity).
      rewrite kw_keyword. cbn [run].
      destruct (parse_typedef fuel true [] x s3 rest Hx Hr H3) as [x' [s4 [E4 [Ex H4]]]]. rewrite E4. cbn [run].
      exists (IExt x'), s4. split; [reflexivity|]. split; [|exact H4]. cbn [erase_item]. rewrite Ex.
      destruct Hx as [_ [Hbi _]]. destruct x; cbn in *; subst; reflexivity.
    - (* a schema definition *)
      destruct Hok as [Hx _]. rewrite <- app_assoc in Hs. unfold flat_schemabody in Hs at 1. cbn [app] in Hs.
      destruct (body_head fuel (sd_desc x) (b "schema") _ s ltac:(discriminate) Hs (fun _ _ _ => Ret None)) as [b0 [tk0 [s1 [E [Hk [Hv [_ H1]]]]]]].
      rewrite E, Hk, Hv. cbn [kind_eqb kind_id N.eqb Pos.eqb negb].
      assert (type_keyword (b "schema") = None) as -> by reflexivity. rewrite str_eqb_refl. cbn [run].
      assert (H1' : stream d s1 (flat_schemabody x ++ rest)) by (unfold flat_schemabody; cbn [app]; exact H1).
      destruct (parse_schemadef fuel (sd_desc x) x s1 rest Hx Hr H1') as [x' [s2 [E2 [Ex H2]]]]. rewrite E2. cbn [run].
      exists (ISchema x'), s2. split; [reflexivity|]. split; [|exact H2]. cbn [erase_item]. rewrite Ex. destruct x; reflexivity.
    - (* a schema extension *)
      cbn [app] in Hs.
      destruct (body_head fuel [] (b "extend") _ s ltac:(discriminate) Hs (fun _ _ _ => Ret None)) as [b0 [tk0 [s1 [E [Hk [Hv [Hb H1]]]]]]].
      rewrite E, Hk, Hv, (Hb eq_refl). cbn [kind_eqb kind_id N.eqb Pos.eqb negb].
      assert (type_keyword (b "extend") = None) as -> by reflexivity.
      assert (str_eqb (b "extend") (b "schema") = false) as -> by reflexivity.
      assert (str_eqb (b "extend") (b "directive") = false) as -> by reflexivity.
      rewrite str_eqb_refl. cbv zeta. cbn [nil_ negb]. assert ((if d F_S6 then false else false) = false) as -> by (destruct (d F_S6); reflexivity).
      cbn [run].
      destruct (s_expectKeyword d F s1 _ _ H1) as [t2 [s2 [E2 H2]]]. rewrite E2.
      pose proof H2 as H2'. unfold flat_schemabody in H2'. cbn [app] in H2'.
      destruct (peek_stream d s2 _ H2') as [t3 [s3 [E3 [Hk3 [H3 Hv3]]]]]. rewrite E3. rewrite Hv3, str_eqb_refl. cbn [run].
      assert (H3' : stream d s3 (flat_schemabody x ++ rest)) by (unfold flat_schemabody; cbn [app]; exact H3).
      destruct (parse_schemaext fuel x s3 rest Hok Hr H3') as [x' [s4 [E4 [Ex H4]]]]. rewrite E4. cbn [run].
      exists (ISchemaExt x'), s4. split; [reflexivity|]. split; [|exact H4]. cbn [erase_item]. rewrite Ex. reflexivity.
    - (* a directive definition *)
      destruct Hok as [Hx _]. rewrite <- app_assoc in Hs. unfold flat_dirdefbody in Hs at 1. cbn [app] in Hs.
      destruct (body_head fuel (dd_desc x) (b "directive") _ s ltac:(discriminate) Hs (fun _ _ _ => Ret None)) as [b0 [tk0 [s1 [E [Hk [Hv [_ H1]]]]]]].
      rewrite E, Hk, Hv. cbn [kind_eqb kind_id N.eqb Pos.eqb negb].
      assert (type_keyword (b "directive") = None) as -> by reflexivity.
      assert (str_eqb (b "directive") (b "schema") = false) as -> by reflexivity. rewrite str_eqb_refl. cbn [run].
      assert (H1' : stream d s1 (flat_dirdefbody x ++ rest)) by (unfold flat_dirdefbody; cbn [app]; exact H1).
      destruct (parse_dirdef fuel (dd_desc x) x s1 rest Hx Hr H1') as [x' [s2 [E2 [Ex H2]]]]. rewrite E2. cbn [run].
      exists (IDir x'), s2. split; [reflexivity|]. split; [|exact H2]. cbn [erase_item]. rewrite Ex. destruct x; reflexivity.
  Qed.

  Lemma sbody_eof : forall fuel s, stream d s [] ->
    exists s1, run d (parseSchemaDocument_body d fuel) F s = (None, s1) /\ stream d s1 [].
  Proof.
    intros fuel s Hs. unfold parseSchemaDocument_body. cbn [run].
    destruct (peek_stream d s _ Hs) as [t [s1 [E1 [Hk [H1 _]]]]]. rewrite E1. cbn [fk] in Hk. rewrite Hk.
    cbn [kind_eqb kind_id N.eqb Pos.eqb]. cbn [run]. exists s1. auto.
  Qed.

  Lemma sdoc_iter : forall fuel items, Forall (item_ok fuel) items -> forall n s acc, (length items < n)%nat ->
    stream d s (flat_map flat_item items) ->
    exists l' s1, iter n (run d (parseSchemaDocument_body d fuel) F) s acc = (rev acc ++ l', s1)
                  /\ Forall2 (fun a x => erase_item x = erase_item a) items l' /\ stream d s1 [].
  Proof.
    intros fuel items Hok. induction Hok as [|it tl Hit Htl IH]; intros n s acc Hn Hs.
    - destruct n as [|n]; [cbn in Hn; lia|]. cbn [iter]. cbn [flat_map] in Hs.
      destruct (sbody_eof fuel s Hs) as [s1 [E1 H1]]. rewrite E1. exists [], s1. rewrite app_nil_r. auto.
    - destruct n as [|n]; [cbn in Hn; lia|]. cbn [iter]. cbn [flat_map] in Hs.
      destruct (body_item fuel it s _ Hit (items_dfol fuel tl Htl) Hs) as [it' [s1 [E1 [Ei H1]]]]. rewrite E1.
      destruct (IH n s1 (it' :: acc) ltac:(cbn in Hn; lia) H1) as [l' [s2 [I1 [I2 I3]]]].
      exists (it' :: l'), s2. split; [rewrite I1; cbn [rev]; rewrite <- app_assoc; reflexivity|]. split; [constructor; assumption|exact I3].
  Qed.
End Productions.

Definition erase_sdoc (x : sdoc) : sdoc :=
  mkSDoc (map erase_schemadef x.(s_schema)) (map erase_schemadef x.(s_schemaext)) (map erase_dirdef x.(s_dirs))
         (map erase_def x.(s_defs)) (map erase_def x.(s_exts)) None.

Lemma collect_erase : forall items l', Forall2 (fun a x => erase_item x = erase_item a) items l' ->
  forall doc doc', erase_sdoc doc' = erase_sdoc doc -> erase_sdoc (collect l' doc') = erase_sdoc (collect items doc).
Proof.
  intros items l' H. induction H as [|a x l l' E _ IH]; intros doc doc' Hd; [exact Hd|]. cbn [collect]. apply IH.
  unfold erase_sdoc in *. injection Hd as D1 D2 D3 D4 D5.
  destruct a as [a|a|a|a|a|], x as [x|x|x|x|x|]; cbn [erase_item] in E; try discriminate; cbn [s_schema s_schemaext s_dirs s_defs s_exts];
    rewrite ?map_app; cbn [map]; try (injection E as E'; rewrite E'); congruence.
Qed.

Definition sdoc_of (items : list sitem) : sdoc := collect items (mkSDoc [] [] [] [] [] None).

Lemma collect_nonempty : forall l doc, sdoc_empty doc = false -> sdoc_empty (collect l doc) = false.
Proof.
  induction l as [|it tl IH]; intros doc H; [exact H|]. cbn [collect]. apply IH.
  unfold sdoc_empty in *. destruct it; cbn [s_schema s_schemaext s_dirs s_defs s_exts]; try exact H;
    destruct (s_schema doc), (s_schemaext doc), (s_dirs doc), (s_defs doc), (s_exts doc); cbn in *; try reflexivity; try discriminate.
Qed.

Lemma collect_first : forall it tl doc, it <> INone -> sdoc_empty (collect (it :: tl) doc) = false.
Proof.
  intros it tl doc H. cbn [collect]. apply collect_nonempty. unfold sdoc_empty.
  destruct it; try congruence; cbn [s_schema s_schemaext s_dirs s_defs s_exts];
    destruct (s_schema doc), (s_schemaext doc), (s_dirs doc), (s_defs doc), (s_exts doc); reflexivity.
Qed.

Definition with_builtin (bi : bool) (x : sdoc) : sdoc :=
  mkSDoc x.(s_schema) x.(s_schemaext) x.(s_dirs) (map (set_builtin bi) x.(s_defs)) (map (set_builtin bi) x.(s_exts)) x.(s_pos).

Lemma erase_with_builtin : forall bi x y, erase_sdoc x = erase_sdoc y -> erase_sdoc (with_builtin bi x) = erase_sdoc (with_builtin bi y).
Proof.
  intros bi x y H. unfold erase_sdoc, with_builtin in *. cbn [s_schema s_schemaext s_dirs s_defs s_exts]. injection H as D1 D2 D3 D4 D5.
  rewrite D1, D2, D3. rewrite !map_map.
  assert (Hc : forall l1 l2, map erase_def l1 = map erase_def l2 -> map (fun z => erase_def (set_builtin bi z)) l1 = map (fun z => erase_def (set_builtin bi z)) l2).
  { induction l1 as [|a l1 IH]; intros [|c l2] Hm; try discriminate; [reflexivity|]. cbn [map] in *. pose proof (f_equal (@tl _) Hm) as Hl. pose proof (f_equal (hd (erase_def a)) Hm) as Ha. cbn [hd tl] in Ha, Hl. rewrite (IH _ Hl). f_equal.
    unfold erase_def, set_builtin in *. cbn [df_kind df_desc df_name df_dirs df_ifaces df_fields df_types df_enums df_pos df_builtin]. congruence. }
  rewrite (Hc _ _ D4), (Hc _ _ D5). reflexivity.
Qed.

Section Whole.
  Variable d : dev.
  Theorem parseSchema_complete : forall items input fuel ix bi,
    Forall (item_ok d fuel fuel) items -> (length items < fuel)%nat -> (items <> [] \/ d F_S7 = true) ->
    toks d input (flat_map flat_item items) ->
    exists doc' s, parseSchemaWith d fuel 0 ix bi input = (POk doc', s)
                   /\ erase_sdoc doc' = erase_sdoc (with_builtin bi (sdoc_of items)).
  Proof.
    intros items input fuel ix bi Hok Hn Hne Ht. unfold parseSchemaWith.
    assert (Hs : stream d (pst_init input 0 ix) (flat_map flat_item items)) by (apply (toks_stream d input); [exact Ht|repeat split]).
    unfold parseSchemaDocument. cbn [run].
    destruct (s_peekPos d fuel _ _ Hs) as [pp [s1 [E1 H1]]]. rewrite E1.
    destruct (sdoc_iter d fuel fuel items Hok fuel s1 [] Hn H1) as [l' [s2 [I1 [I2 I3]]]].
    match goal with |- context [iter fuel ?body s1 []] => change (iter fuel body s1 []) with (iter fuel (run d (parseSchemaDocument_body d fuel) fuel) s1 []) end.
    rewrite I1. cbn [rev app]. cbv beta iota zeta. cbn [run]. rewrite (stream_noerr d s2 _ I3).
    assert (Hemp : sdoc_empty (collect l' (mkSDoc [] [] [] [] [] (Some pp))) && negb (d F_S7) && negb false = false).
    { destruct items as [|it tl].
      - destruct Hne as [Hne|Hne]; [congruence|]. rewrite Hne. rewrite andb_false_r. reflexivity.
      - inversion I2 as [|a x l0 l0' E _]; subst. inversion Hok as [|a0 tl0 Ha _]; subst.
        rewrite collect_first; [reflexivity|]. intro Hx. subst x. destruct it; cbn in E; try discriminate. exact Ha. }
    rewrite Hemp. cbn [run]. pose proof (stream_noerr d s2 _ I3) as He. apply has_err_none in He. rewrite He.
    eexists. exists s2. split; [reflexivity|].
    apply (erase_with_builtin bi (collect l' (mkSDoc [] [] [] [] [] (Some pp))) (sdoc_of items)).
    unfold sdoc_of. apply (collect_erase items l' I2). reflexivity.
  Qed.
End Whole.
End DK.


