(* NumberGrammar.v — the number reader against the lexical grammar of the specification (C03):
     IntegerPart    ::  -? ( 0 | NonZeroDigit Digit* )
     FractionalPart ::  . Digit+
     ExponentPart   ::  (e|E) (+|-)? Digit+
     IntValue       ::  IntegerPart                       [not followed by Digit . NameStart]
     FloatValue     ::  IntegerPart (Frac | Exp | Frac Exp)   [not followed by Digit . NameStart]
   readNumber returns a token exactly for these texts, with the text as value, and stops there. *)
From Coq Require Import List NArith ZArith Lia Bool.
From GQL.model Require Import Base Utf8 Lexer.
Import ListNotations.
Open Scope N_scope.

Definition alldigits (ds : str) : Prop := forallb is_digit ds = true.
Definition nodigit_head (r : str) : Prop := match r with c :: _ => is_digit c = false | [] => True end.

Lemma take_digits_spec : forall l a r, take_digits l = (a, r) -> l = a ++ r /\ alldigits a /\ nodigit_head r.
Proof.
  induction l as [|c tl IH]; intros a r H; cbn [take_digits] in H.
  - inversion H; subst. repeat split.
  - destruct (is_digit c) eqn:E.
    + destruct (take_digits tl) as [a0 r0] eqn:Et. inversion H; subst. destruct (IH a0 r eq_refl) as [H1 [H2 H3]].
      split; [cbn; f_equal; exact H1|]. split; [unfold alldigits; cbn; rewrite E; exact H2|exact H3].
    + inversion H; subst. repeat split. exact E.
Qed.

Lemma take_digits_app : forall ds r, alldigits ds -> nodigit_head r -> take_digits (ds ++ r) = (ds, r).
Proof.
  induction ds as [|c ds IH]; intros r Hd Hr.
  - cbn [app]. destruct r as [|c r']; [reflexivity|]. cbn [take_digits]. cbn in Hr. rewrite Hr. reflexivity.
  - unfold alldigits in Hd. cbn in Hd. apply andb_true_iff in Hd as [Hc Hd]. cbn [app take_digits]. rewrite Hc, (IH r Hd Hr). reflexivity.
Qed.

(* ---- the grammar ---- *)
Inductive unsigned_int : str -> Prop :=
| ui_zero : unsigned_int [48]
| ui_nz : forall c ds, is_digit c = true -> c <> 48 -> alldigits ds -> unsigned_int (c :: ds).
Definition int_part (v : str) : Prop := unsigned_int v \/ exists u, v = 45 :: u /\ unsigned_int u.
Definition frac_part (f : str) : Prop := exists ds, f = 46 :: ds /\ ds <> [] /\ alldigits ds.
Definition exp_part (x : str) : Prop :=
  exists ec sg ds, x = ec :: sg ++ ds /\ (ec = 101 \/ ec = 69) /\ (sg = [] \/ sg = [45] \/ sg = [43]) /\ ds <> [] /\ alldigits ds.
Definition int_value (v : str) : Prop := int_part v.
Definition float_value (v : str) : Prop :=
  exists i f x, v = i ++ f ++ x /\ int_part i /\ (f = [] \/ frac_part f) /\ (x = [] \/ exp_part x) /\ (f <> [] \/ x <> []).
Definition follow_ok (r : str) : Prop :=
  match r with c :: _ => is_digit c = false /\ c <> 46 /\ is_name_start c = false | [] => True end.

(* ---- readNumber in three stages (the same code, cut at its two intermediate results) ---- *)
Definition num_tail3 (d : dev) (start ln ls : Z) (v3 : str) (l8 : str) (e8 : Z) (fl3 : bool) : res :=
  let bad_follow := match l8 with c :: _ => (c =? 46) || is_name_start c | [] => false end in
  if negb (d F_L1) && bad_follow then mk_err l8 start e8 ln ls 12
  else mk_tok (if fl3 then Float else Int) v3 l8 start e8 ln ls.

Definition num_tail2 (d : dev) (start ln ls : Z) (v2 : str) (l5 : str) (e5 : Z) (fl : bool) : res :=
  let '(ex, l6) := accept2 101 69 l5 in
  let exppart :=
    match ex with
    | Some ec =>
      let '(sg, l7) := accept2 45 43 l6 in
      let e7 := match sg with Some _ => (e5 + 2)%Z | None => (e5 + 1)%Z end in
      let '(ds, l8) := take_digits l7 in
      match ds with
      | [] => inr (mk_err l7 start e7 ln ls 11)
      | _ => inl (v2 ++ ec :: opt_cons sg ds, l8, (e7 + zlen ds)%Z, true)
      end
    | None => inl (v2, l5, e5, fl)
    end in
  match exppart with
  | inr r => r
  | inl (v3, l8, e8, fl3) => num_tail3 d start ln ls v3 l8 e8 fl3
  end.

Definition num_tail1 (d : dev) (start ln ls : Z) (v1 : str) (l3 : str) (e3 : Z) : res :=
  let '(dot, l4) := accept1 46 l3 in
  let fracpart :=
    if dot then
      let '(ds, l5) := take_digits l4 in
      match ds with
      | [] => inr (mk_err l4 start (e3 + 1)%Z ln ls 11)
      | _ => inl (v1 ++ 46 :: ds, l5, (e3 + 1 + zlen ds)%Z, true)
      end
    else inl (v1, l3, e3, false) in
  match fracpart with
  | inr r => r
  | inl (v2, l5, e5, fl) => num_tail2 d start ln ls v2 l5 e5 fl
  end.

Definition num_int (l : str) (start ln ls : Z) : (str * str * Z) + res :=
  let '(neg, l1) := accept1 45 l in
  let e1 := if neg then (start + 1)%Z else start in
  let sgn := if neg then [45] else [] in
  let '(z, l2) := accept1 48 l1 in
  if z then
    let '(ds, l3) := take_digits l2 in
    match ds with
    | [] => inl (sgn ++ [48], l2, (e1 + 1)%Z)
    | _ => inr (mk_err l2 start (e1 + 1)%Z ln ls 10)
    end
  else
    let '(ds, l3) := take_digits l1 in
    match ds with
    | [] => inr (mk_err l1 start e1 ln ls 11)
    | _ => inl (sgn ++ ds, l3, (e1 + zlen ds)%Z)
    end.

Lemma readNumber_stages : forall d l start ln ls,
  readNumber d l start ln ls =
  match num_int l start ln ls with
  | inr r => r
  | inl (v1, l3, e3) => num_tail1 d start ln ls v1 l3 e3
  end.
Proof.
  intros. unfold readNumber, num_int, num_tail1, num_tail2, num_tail3.
  destruct (accept1 45 l) as [neg l1]. destruct (accept1 48 l1) as [z l2].
  destruct z.
  - destruct (take_digits l2) as [ds l3]. destruct ds; reflexivity.
  - destruct (take_digits l1) as [ds l3]. destruct ds; reflexivity.
Qed.

(* ---- character facts ---- *)
Lemma digit_range : forall c, is_digit c = true <-> 48 <= c <= 57.
Proof. intro c. unfold is_digit, in_range. rewrite andb_true_iff, !N.leb_le. tauto. Qed.

Lemma digit_not : forall c k, is_digit c = true -> (k < 48 \/ 57 < k) -> (c =? k) = false.
Proof. intros c k H Hk. apply digit_range in H. apply N.eqb_neq. lia. Qed.

Lemma nondigit_const : forall k, (k < 48 \/ 57 < k) -> is_digit k = false.
Proof. intros k Hk. destruct (is_digit k) eqn:E; [apply digit_range in E; lia|reflexivity]. Qed.

Lemma digit_not_name_start : forall c, is_digit c = true -> is_name_start c = false.
Proof.
  intros c H. apply digit_range in H. unfold is_name_start, is_letter, is_lower, is_upper, in_range.
  repeat match goal with |- context [?a <=? ?b] => destruct (N.leb_spec a b) end; cbn; try lia;
  destruct (N.eqb_spec c 95); try reflexivity; lia.
Qed.

(* ---- completeness: every text of the grammar is read as one token ---- *)
Lemma num_int_complete : forall i t start ln ls, int_part i -> nodigit_head t ->
  num_int (i ++ t) start ln ls = inl (i, t, (start + zlen i)%Z).
Proof.
  intros i t start ln ls Hi Ht. unfold num_int.
  pose proof (take_digits_app [] t eq_refl Ht) as Htd0. cbn [app] in Htd0.
  destruct Hi as [Hu|[u [-> Hu]]]; inversion Hu as [|c ds Hc Hnz Hds]; subst.
  - (* 0 *) cbn [app accept1]. change (48 =? 45) with false. cbv zeta iota. cbn [accept1]. change (48 =? 48) with true. cbv iota.
    rewrite Htd0. reflexivity.
  - (* d ds *) cbn [app accept1]. rewrite (digit_not c 45 Hc) by lia.
    assert (E : (c =? 48) = false) by (apply N.eqb_neq; exact Hnz). cbv zeta iota. cbn [accept1]. rewrite E.
    change (c :: ds ++ t) with ((c :: ds) ++ t).
    rewrite (take_digits_app (c :: ds) t); [| |exact Ht]; [|unfold alldigits; cbn [forallb]; rewrite Hc; exact Hds]. reflexivity.
  - (* -0 *) cbn [app accept1]. change (45 =? 45) with true. cbv zeta iota. cbn [accept1]. change (48 =? 48) with true. cbv iota.
    rewrite Htd0. cbn [app]. do 2 f_equal. unfold zlen. cbn [length]. lia.
  - (* -d ds *) cbn [app accept1]. change (45 =? 45) with true. cbv zeta iota. cbn [accept1].
    assert (E : (c =? 48) = false) by (apply N.eqb_neq; exact Hnz). rewrite E.
    change (c :: ds ++ t) with ((c :: ds) ++ t).
    rewrite (take_digits_app (c :: ds) t); [| |exact Ht]; [|unfold alldigits; cbn [forallb]; rewrite Hc; exact Hds].
    cbn [app]. do 2 f_equal. unfold zlen. cbn [length]. lia.
Qed.

Lemma follow_nodigit : forall r, follow_ok r -> nodigit_head r.
Proof. intros [|c r] H; [exact I|]. cbn in *. tauto. Qed.

Lemma tail3_complete : forall d start ln ls v rest e fl, d F_L1 = false -> follow_ok rest ->
  num_tail3 d start ln ls v rest e fl = mk_tok (if fl then Float else Int) v rest start e ln ls.
Proof.
  intros d start ln ls v rest e fl Hd Hr. unfold num_tail3. rewrite Hd. cbn [negb andb].
  destruct rest as [|c r]; [reflexivity|]. cbn in Hr. destruct Hr as [_ [H46 Hn]].
  assert (E : (c =? 46) = false) by (apply N.eqb_neq; exact H46). rewrite E, Hn. reflexivity.
Qed.

Lemma exp_head : forall x t, exp_part x -> exists ec r, x ++ t = ec :: r /\ (ec = 101 \/ ec = 69).
Proof. intros x t [ec [sg [ds [-> [He _]]]]]. exists ec, ((sg ++ ds) ++ t). split; [reflexivity|exact He]. Qed.

Lemma tail2_complete : forall d start ln ls v x rest e fl, d F_L1 = false ->
  (x = [] \/ exp_part x) -> follow_ok rest ->
  num_tail2 d start ln ls v (x ++ rest) e fl
  = mk_tok (if (match x with [] => fl | _ => true end) then Float else Int) (v ++ x) rest start (e + zlen x)%Z ln ls.
Proof.
  intros d start ln ls v x rest e fl Hd Hx Hr. unfold num_tail2.
  destruct Hx as [->|[ec [sg [ds [-> [Hec [Hsg [Hne Hds]]]]]]]].
  - cbn [app].
    assert (Ha : accept2 101 69 rest = (None, rest)).
    { destruct rest as [|c r]; [reflexivity|]. cbn in Hr. destruct Hr as [_ [_ Hn]]. cbn [accept2].
      assert (E1 : (c =? 101) = false) by (apply N.eqb_neq; intro; subst; discriminate).
      assert (E2 : (c =? 69) = false) by (apply N.eqb_neq; intro; subst; discriminate).
      rewrite E1, E2. reflexivity. }
    rewrite Ha. rewrite tail3_complete by assumption. rewrite app_nil_r. unfold zlen. cbn. rewrite Z.add_0_r. reflexivity.
  - cbn [app].
    assert (Ha : accept2 101 69 (ec :: (sg ++ ds) ++ rest) = (Some ec, (sg ++ ds) ++ rest))
      by (cbn [accept2]; destruct Hec as [-> | ->]; reflexivity).
    rewrite Ha.
    assert (Hdig0 : exists d0 ds', ds = d0 :: ds' /\ is_digit d0 = true).
    { destruct ds as [|d0 ds']; [contradiction|]. exists d0, ds'. split; [reflexivity|]. unfold alldigits in Hds. cbn in Hds. apply andb_true_iff in Hds. tauto. }
    destruct Hdig0 as [d0 [ds' [Eds Hd0]]].
    assert (Hsgn : accept2 45 43 ((sg ++ ds) ++ rest) = (match sg with [] => None | c :: _ => Some c end, ds ++ rest)).
    { destruct Hsg as [->|[->| ->]]; cbn [app accept2]; try reflexivity.
      subst ds. cbn [app accept2]. rewrite (digit_not d0 45 Hd0), (digit_not d0 43 Hd0) by lia. reflexivity. }
    rewrite Hsgn. rewrite (take_digits_app ds rest Hds (follow_nodigit _ Hr)).
    rewrite Eds at 1. rewrite tail3_complete by assumption.
    f_equal.
    + rewrite <- ?Eds. destruct Hsg as [->|[->| ->]]; cbn [opt_cons app]; rewrite <- ?app_assoc; reflexivity.
    + rewrite <- ?Eds. unfold zlen. destruct Hsg as [->|[->| ->]]; cbn [app length]; rewrite ?app_length; cbn [length]; lia.
Qed.

Lemma tail1_complete : forall d start ln ls v f x rest e, d F_L1 = false ->
  (f = [] \/ frac_part f) -> (x = [] \/ exp_part x) -> follow_ok rest ->
  num_tail1 d start ln ls v (f ++ x ++ rest) e
  = mk_tok (if (match f, x with [], [] => false | _, _ => true end) then Float else Int) (v ++ f ++ x) rest start (e + zlen (f ++ x))%Z ln ls.
Proof.
  intros d start ln ls v f x rest e Hd Hf Hx Hr. unfold num_tail1.
  assert (Hxr : nodigit_head (x ++ rest)).
  { destruct Hx as [->|Hx]; [exact (follow_nodigit _ Hr)|]. destruct (exp_head x rest Hx) as [ec [r [-> Hec]]].
    cbn. destruct Hec as [-> | ->]; reflexivity. }
  destruct Hf as [->|[ds [-> [Hne Hds]]]].
  - cbn [app].
    assert (Ha : accept1 46 (x ++ rest) = (false, x ++ rest)).
    { destruct Hx as [->|Hx].
      - cbn [app]. destruct rest as [|c r]; [reflexivity|]. cbn in Hr. destruct Hr as [_ [H46 _]]. cbn [accept1].
        assert (E : (c =? 46) = false) by (apply N.eqb_neq; exact H46). rewrite E. reflexivity.
      - destruct (exp_head x rest Hx) as [ec [r [-> Hec]]]. cbn [accept1]. destruct Hec as [-> | ->]; reflexivity. }
    rewrite Ha. rewrite tail2_complete by assumption. destruct x; reflexivity.
  - cbn [app accept1]. change (46 =? 46) with true. cbv iota.
    rewrite (take_digits_app ds (x ++ rest) Hds Hxr).
    destruct ds as [|d0 ds']; [contradiction|].
    rewrite tail2_complete by assumption.
    f_equal.
    + destruct x; reflexivity.
    + rewrite <- app_assoc. reflexivity.
    + unfold zlen. cbn [length app]. rewrite ?app_length. cbn [length]. lia.
Qed.

Theorem int_value_read : forall d v rest start ln ls, d F_L1 = false -> int_value v -> follow_ok rest ->
  readNumber d (v ++ rest) start ln ls = mk_tok Int v rest start (start + zlen v)%Z ln ls.
Proof.
  intros d v rest start ln ls Hd Hv Hr. rewrite readNumber_stages.
  rewrite (num_int_complete v rest start ln ls Hv (follow_nodigit _ Hr)).
  pose proof (tail1_complete d start ln ls v [] [] rest (start + zlen v)%Z Hd (or_introl eq_refl) (or_introl eq_refl) Hr) as H.
  cbn [app] in H. rewrite H. rewrite app_nil_r. unfold zlen at 2. cbn. rewrite Z.add_0_r. reflexivity.
Qed.

Theorem float_value_read : forall d v rest start ln ls, d F_L1 = false -> float_value v -> follow_ok rest ->
  readNumber d (v ++ rest) start ln ls = mk_tok Float v rest start (start + zlen v)%Z ln ls.
Proof.
  intros d v rest start ln ls Hd [i [f [x [-> [Hi [Hf [Hx Hne]]]]]]] Hr. rewrite readNumber_stages.
  assert (Ht : nodigit_head (f ++ x ++ rest)).
  { destruct Hf as [->|[ds [-> _]]]; [|reflexivity]. cbn [app].
    destruct Hx as [->|Hx]; [exact (follow_nodigit _ Hr)|]. destruct (exp_head x rest Hx) as [ec [r [-> Hec]]].
    cbn. destruct Hec as [-> | ->]; reflexivity. }
  rewrite <- !app_assoc. rewrite (num_int_complete i (f ++ x ++ rest) start ln ls Hi Ht).
  rewrite (tail1_complete d start ln ls i f x rest _ Hd Hf Hx Hr).
  f_equal.
  - destruct f; [destruct x; [destruct Hne; congruence|reflexivity]|reflexivity].
  - unfold zlen. rewrite !app_length. lia.
Qed.

(* ---- soundness: a token is returned only for a text of the grammar ---- *)
Lemma accept1_spec : forall c l bb l', accept1 c l = (bb, l') -> if bb then l = c :: l' else l' = l /\ (forall t, l <> c :: t).
Proof.
  intros c l bb l' H. unfold accept1 in H. destruct l as [|x tl]; [inversion H; subst; split; [reflexivity|discriminate]|].
  destruct (x =? c) eqn:E; inversion H; subst.
  - apply N.eqb_eq in E. subst. reflexivity.
  - split; [reflexivity|]. intros t Ht. inversion Ht; subst. rewrite N.eqb_refl in E. discriminate.
Qed.

Lemma accept2_spec : forall c1 c2 l o l', accept2 c1 c2 l = (o, l') ->
  match o with Some x => l = x :: l' /\ (x = c1 \/ x = c2) | None => l' = l /\ (forall t, l <> c1 :: t) /\ (forall t, l <> c2 :: t) end.
Proof.
  intros c1 c2 l o l' H. unfold accept2 in H. destruct l as [|x tl]; [inversion H; subst; repeat split; discriminate|].
  destruct ((x =? c1) || (x =? c2)) eqn:E; inversion H; subst.
  - split; [reflexivity|]. apply orb_true_iff in E as [E|E]; apply N.eqb_eq in E; auto.
  - apply orb_false_iff in E as [E1 E2]. repeat split; intros t Ht; inversion Ht; subst; rewrite N.eqb_refl in *; discriminate.
Qed.

Lemma alldigits_cons : forall c ds, alldigits (c :: ds) -> is_digit c = true /\ alldigits ds.
Proof. intros c ds H. unfold alldigits in *. cbn in H. apply andb_true_iff in H. exact H. Qed.

Lemma num_int_sound : forall l start ln ls v1 l3 e3, num_int l start ln ls = inl (v1, l3, e3) ->
  l = v1 ++ l3 /\ int_part v1 /\ nodigit_head l3.
Proof.
  intros l start ln ls v1 l3 e3 H. unfold num_int in H.
  destruct (accept1 45 l) as [neg l1] eqn:E1. pose proof (accept1_spec _ _ _ _ E1) as S1.
  destruct (accept1 48 l1) as [z l2] eqn:E2. pose proof (accept1_spec _ _ _ _ E2) as S2.
  assert (Hmk : forall u, unsigned_int u -> int_part ((if neg then [45] else []) ++ u))
    by (intros u Hu; destruct neg; [right; exists u; split; [reflexivity|exact Hu]|left; exact Hu]).
  assert (Hl : l = (if neg then [45] else []) ++ l1) by (destruct neg; [exact S1|destruct S1 as [-> _]; reflexivity]).
  destruct z.
  - destruct (take_digits l2) as [ds l3'] eqn:Et. destruct (take_digits_spec _ _ _ Et) as [T1 [T2 T3]].
    destruct ds; [|discriminate]. inversion H; subst v1 l3 e3. cbn [app] in T1. subst l3'.
    split; [rewrite Hl, S2, <- app_assoc; reflexivity|]. split; [apply Hmk; constructor|exact T3].
  - destruct (take_digits l1) as [ds l3'] eqn:Et. destruct (take_digits_spec _ _ _ Et) as [T1 [T2 T3]].
    destruct ds as [|c ds]; [discriminate|]. inversion H; subst v1 l3 e3.
    split; [rewrite Hl, T1, <- app_assoc; reflexivity|]. split; [|exact T3]. apply Hmk.
    destruct (alldigits_cons _ _ T2) as [Hc Hds]. constructor; [exact Hc| |exact Hds].
    intro E. subst c. destruct S2 as [_ S2]. apply (S2 (ds ++ l3')). rewrite T1. reflexivity.
Qed.

Definition follow2 (r : str) : Prop := match r with c :: _ => c <> 46 /\ is_name_start c = false | [] => True end.

Lemma tail3_sound : forall d start ln ls v l8 e fl t s', d F_L1 = false ->
  num_tail3 d start ln ls v l8 e fl = (t, None, s') ->
  tval t = v /\ tkind t = (if fl then Float else Int) /\ rest s' = l8 /\ follow2 l8.
Proof.
  intros d start ln ls v l8 e fl t s' Hd H. unfold num_tail3 in H. rewrite Hd in H. cbn [negb andb] in H.
  destruct l8 as [|c r].
  - unfold mk_tok in H. inversion H; subst. repeat split.
  - destruct ((c =? 46) || is_name_start c) eqn:E; [unfold mk_err in H; inversion H|].
    unfold mk_tok in H. inversion H; subst. apply orb_false_iff in E as [E1 E2]. apply N.eqb_neq in E1. repeat split; assumption.
Qed.

Lemma tail2_sound : forall d start ln ls v2 l5 e5 fl t s', d F_L1 = false ->
  num_tail2 d start ln ls v2 l5 e5 fl = (t, None, s') -> nodigit_head l5 ->
  exists x, l5 = x ++ rest s' /\ (x = [] \/ exp_part x) /\ tval t = v2 ++ x
            /\ tkind t = (if (match x with [] => fl | _ => true end) then Float else Int)
            /\ follow2 (rest s') /\ nodigit_head (rest s').
Proof.
  intros d start ln ls v2 l5 e5 fl t s' Hd H Hnd. unfold num_tail2 in H.
  destruct (accept2 101 69 l5) as [ex l6] eqn:E1. pose proof (accept2_spec _ _ _ _ _ E1) as S1.
  destruct ex as [ec|].
  - destruct S1 as [S1 Hec].
    destruct (accept2 45 43 l6) as [sg l7] eqn:E2. pose proof (accept2_spec _ _ _ _ _ E2) as S2.
    destruct (take_digits l7) as [ds l8] eqn:Et. destruct (take_digits_spec _ _ _ Et) as [T1 [T2 T3]].
    destruct ds as [|c ds]; [unfold mk_err in H; destruct sg; inversion H|].
    destruct (tail3_sound _ _ _ _ _ _ _ _ _ _ Hd H) as [Hv [Hk [Hr Hf]]]. subst l8.
    exists (ec :: opt_cons sg (c :: ds)).
    assert (Hx : exp_part (ec :: opt_cons sg (c :: ds))).
    { exists ec, (match sg with Some x => [x] | None => [] end), (c :: ds).
      split; [destruct sg; reflexivity|]. split; [exact Hec|].
      split; [destruct sg as [x|]; [destruct S2 as [_ [-> | ->]]; auto|auto]|]. split; [discriminate|exact T2]. }
    split; [|split; [right; exact Hx|split; [exact Hv|split; [exact Hk|split; [exact Hf|exact T3]]]]].
    rewrite S1. cbn [app]. f_equal. destruct sg as [x|].
    + destruct S2 as [-> _]. cbn [opt_cons app]. f_equal. exact T1.
    + destruct S2 as [-> _]. cbn [opt_cons]. exact T1.
  - destruct S1 as [-> _].
    destruct (tail3_sound _ _ _ _ _ _ _ _ _ _ Hd H) as [Hv [Hk [Hr Hf]]].
    exists []. rewrite Hr. cbn [app]. rewrite app_nil_r. repeat split; auto.
Qed.

Lemma tail1_sound : forall d start ln ls v1 l3 e3 t s', d F_L1 = false ->
  num_tail1 d start ln ls v1 l3 e3 = (t, None, s') -> nodigit_head l3 ->
  exists f x, l3 = f ++ x ++ rest s' /\ (f = [] \/ frac_part f) /\ (x = [] \/ exp_part x) /\ tval t = v1 ++ f ++ x
              /\ tkind t = (if (match f, x with [], [] => false | _, _ => true end) then Float else Int)
              /\ follow2 (rest s') /\ nodigit_head (rest s').
Proof.
  intros d start ln ls v1 l3 e3 t s' Hd H Hnd. unfold num_tail1 in H.
  destruct (accept1 46 l3) as [dot l4] eqn:E1. pose proof (accept1_spec _ _ _ _ E1) as S1.
  destruct dot.
  - destruct (take_digits l4) as [ds l5] eqn:Et. destruct (take_digits_spec _ _ _ Et) as [T1 [T2 T3]].
    destruct ds as [|c ds]; [unfold mk_err in H; inversion H|].
    destruct (tail2_sound _ _ _ _ _ _ _ _ _ _ Hd H T3) as [x [Hl [Hx [Hv [Hk [Hf Hn]]]]]].
    exists (46 :: c :: ds), x.
    split; [rewrite S1, T1, Hl; reflexivity|].
    split; [right; exists (c :: ds); split; [reflexivity|split; [discriminate|exact T2]]|].
    split; [exact Hx|]. split; [rewrite Hv, <- app_assoc; reflexivity|].
    split; [rewrite Hk; destruct x; reflexivity|]. split; assumption.
  - destruct S1 as [-> _].
    destruct (tail2_sound _ _ _ _ _ _ _ _ _ _ Hd H Hnd) as [x [Hl [Hx [Hv [Hk [Hf Hn]]]]]].
    exists [], x. cbn [app]. split; [exact Hl|]. split; [left; reflexivity|]. split; [exact Hx|].
    split; [exact Hv|]. split; [rewrite Hk; destruct x; reflexivity|]. split; assumption.
Qed.

Theorem number_sound : forall d l start ln ls t s', d F_L1 = false ->
  readNumber d l start ln ls = (t, None, s') ->
  l = tval t ++ rest s' /\ follow_ok (rest s')
  /\ ((tkind t = Int /\ int_value (tval t)) \/ (tkind t = Float /\ float_value (tval t))).
Proof.
  intros d l start ln ls t s' Hd H. rewrite readNumber_stages in H.
  destruct (num_int l start ln ls) as [[[v1 l3] e3]|r] eqn:Ei.
  - destruct (num_int_sound _ _ _ _ _ _ _ Ei) as [Hl [Hi Hn]].
    destruct (tail1_sound _ _ _ _ _ _ _ _ _ Hd H Hn) as [f [x [Hl3 [Hf [Hx [Hv [Hk [Hfo Hnd]]]]]]]].
    split; [rewrite Hl, Hl3, Hv, <- !app_assoc; reflexivity|].
    split.
    + destruct (rest s') as [|c r]; [exact I|]. cbn in *. tauto.
    + destruct f as [|f0 f'].
      * destruct x as [|x0 x'].
        -- left. split; [exact Hk|]. rewrite Hv. cbn [app]. rewrite app_nil_r. exact Hi.
        -- right. split; [exact Hk|]. exists v1, [], (x0 :: x'). repeat split; auto. right. discriminate.
      * right. split; [exact Hk|]. exists v1, (f0 :: f'), x. repeat split; auto. left. discriminate.
  - (* an error outcome of the integer part is not a token *)
    subst r. unfold num_int in Ei.
    destruct (accept1 45 l) as [neg l1]. destruct (accept1 48 l1) as [z l2]. destruct z.
    + destruct (take_digits l2) as [ds l3]. destruct ds; [discriminate|]. unfold mk_err in Ei. inversion Ei.
    + destruct (take_digits l1) as [ds l3]. destruct ds; [|discriminate]. unfold mk_err in Ei. inversion Ei.
Qed.

(* ------------------------------------------------------------------ *)
(* Names:  Name :: NameStart NameContinue*   [not followed by NameContinue]   *)
Definition name_text (v : str) : Prop :=
  exists c tl, v = c :: tl /\ is_name_start c = true /\ forallb is_name_cont tl = true.
Definition noname_head (r : str) : Prop := match r with c :: _ => is_name_cont c = false | [] => True end.

Lemma take_name_spec : forall l a r, take_name l = (a, r) -> l = a ++ r /\ forallb is_name_cont a = true /\ noname_head r.
Proof.
  induction l as [|c tl IH]; intros a r H; cbn [take_name] in H.
  - inversion H; subst. repeat split.
  - destruct (is_name_cont c) eqn:E.
    + destruct (take_name tl) as [a0 r0] eqn:Et. inversion H; subst. destruct (IH a0 r eq_refl) as [H1 [H2 H3]].
      split; [cbn; f_equal; exact H1|]. split; [cbn; rewrite E; exact H2|exact H3].
    + inversion H; subst. repeat split. exact E.
Qed.

Lemma take_name_app : forall a r, forallb is_name_cont a = true -> noname_head r -> take_name (a ++ r) = (a, r).
Proof.
  induction a as [|c a IH]; intros r Ha Hr.
  - cbn [app]. destruct r as [|c r']; [reflexivity|]. cbn [take_name]. cbn in Hr. rewrite Hr. reflexivity.
  - cbn in Ha. apply andb_true_iff in Ha as [Hc Ha]. cbn [app take_name]. rewrite Hc, (IH r Ha Hr). reflexivity.
Qed.

Lemma range_facts : forall c, is_name_start c = true -> (65 <= c <= 90) \/ (97 <= c <= 122) \/ c = 95.
Proof.
  intros c H. unfold is_name_start, is_letter, is_lower, is_upper, in_range in H.
  apply orb_true_iff in H as [H|H]; [|apply N.eqb_eq in H; auto].
  apply orb_true_iff in H as [H|H]; apply andb_true_iff in H as [H1 H2]; apply N.leb_le in H1, H2; auto.
Qed.

(* what the dispatcher of ReadToken does with the first character of a name or a number *)
Lemma ws_stays : forall d c l e ln ls, 33 <= c -> c <> 44 -> c <> 239 -> ws d (c :: l) e ln ls = (c :: l, e, ln, ls).
Proof.
  intros d c l e ln ls H1 H2 H3. cbn [ws].
  assert (E : forall k, k <> c -> (c =? k) = false) by (intros k Hk; apply N.eqb_neq; congruence).
  rewrite (E 9), (E 32), (E 44), (E 10), (E 13), (E 239) by lia. reflexivity.
Qed.

Lemma punct_none : forall c, (forall k, In k [33; 36; 38; 40; 41; 58; 61; 64; 91; 93; 123; 125; 124] -> c <> k) -> punct c = None.
Proof.
  intros c H. unfold punct.
  repeat match goal with |- context [c =? ?k] =>
    let E := fresh "E" in assert (E : (c =? k) = false) by (apply N.eqb_neq; apply H; cbn; tauto); rewrite E; clear E end.
  reflexivity.
Qed.

Theorem name_read : forall d v rst e ln ls, name_text v -> noname_head rst ->
  readToken d (mkLx (v ++ rst) e ln ls) = Some (mk_tok Name v rst e (e + zlen v)%Z ln ls).
Proof.
  intros d v rst e ln ls [c [tl [-> [Hc Htl]]]] Hr. unfold readToken. cbn [rest endR line lsr app].
  pose proof (range_facts c Hc) as Hrange.
  rewrite ws_stays by lia.
  rewrite punct_none by (intros k Hk; cbn in Hk; lia).
  assert (E46 : (c =? 46) = false) by (apply N.eqb_neq; lia). assert (E35 : (c =? 35) = false) by (apply N.eqb_neq; lia).
  rewrite E46, E35, Hc. rewrite (take_name_app tl rst Htl Hr).
  do 2 f_equal. unfold zlen. cbn [length]. lia.
Qed.

Theorem name_sound : forall d c l e ln ls t s', is_name_start c = true ->
  readToken d (mkLx (c :: l) e ln ls) = Some (t, None, s') ->
  tkind t = Name /\ name_text (tval t) /\ c :: l = tval t ++ rest s' /\ noname_head (rest s').
Proof.
  intros d c l e ln ls t s' Hc H. unfold readToken in H. cbn [rest endR line lsr] in H.
  pose proof (range_facts c Hc) as Hrange.
  rewrite ws_stays in H by lia.
  rewrite punct_none in H by (intros k Hk; cbn in Hk; lia).
  assert (E46 : (c =? 46) = false) by (apply N.eqb_neq; lia). assert (E35 : (c =? 35) = false) by (apply N.eqb_neq; lia).
  rewrite E46, E35, Hc in H. destruct (take_name l) as [body rst] eqn:Et.
  destruct (take_name_spec _ _ _ Et) as [T1 [T2 T3]]. unfold mk_tok in H. inversion H; subst. cbn [tkind tval rest].
  split; [reflexivity|]. split; [exists c, body; auto|]. split; [reflexivity|exact T3].
Qed.

(* numbers through ReadToken: the dispatcher hands a text starting with '-' or a digit to readNumber *)
Theorem number_dispatch : forall d c l e ln ls, (c = 45 \/ is_digit c = true) ->
  readToken d (mkLx (c :: l) e ln ls) = Some (readNumber d (c :: l) e ln ls).
Proof.
  intros d c l e ln ls Hc. unfold readToken. cbn [rest endR line lsr].
  assert (Hr : c = 45 \/ 48 <= c <= 57) by (destruct Hc as [->|Hc]; [auto|right; apply digit_range; exact Hc]).
  rewrite ws_stays by lia.
  rewrite punct_none by (intros k Hk; cbn in Hk; lia).
  assert (E46 : (c =? 46) = false) by (apply N.eqb_neq; lia). assert (E35 : (c =? 35) = false) by (apply N.eqb_neq; lia).
  assert (En : is_name_start c = false).
  { destruct (is_name_start c) eqn:E; [|reflexivity]. apply range_facts in E. lia. }
  assert (Ed : (c =? 45) || is_digit c = true) by (destruct Hc as [->|Hc]; [reflexivity|rewrite Hc; apply orb_true_r]).
  rewrite E46, E35, En, Ed. reflexivity.
Qed.
