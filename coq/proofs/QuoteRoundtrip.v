(* QuoteRoundtrip.v — a string printed by Value.String (quoteString) lexes back to the same
   bytes: "string values survive byte for byte" (C12), for every valid UTF-8 value. *)
From GQL.model Require Import Base Utf8 Lexer Format.
Open Scope N_scope.

(* valid UTF-8 in the sense of Go's decoder: the text splits into sequences that decode and
   re-encode to themselves *)
Inductive wf_utf8 : str -> Prop :=
| wf_nil : wf_utf8 []
| wf_cons : forall l r w, l <> [] -> decode_rune l = (r, w) -> encode_rune r = firstn w l ->
            wf_utf8 (skipn w l) -> wf_utf8 l.

Lemma decode_ascii : forall c tl, c < 128 -> decode_rune (c :: tl) = (c, 1%nat).
Proof. intros. unfold decode_rune. destruct (c <? 128) eqn:E; [reflexivity|]. apply N.ltb_ge in E. lia. Qed.

Ltac brk :=
  repeat match goal with
  | H : context [if ?c then _ else _] |- _ => destruct c eqn:?
  | H : context [match ?x with _ => _ end] |- _ => destruct x eqn:?
  | H : (_, _) = (_, _) |- _ => inversion H; subst; clear H
  end.

Lemma bool_facts : forall a c, in_range a c = fun x => (a <=? x) && (x <=? c).
Proof. reflexivity. Qed.

Ltac tolia :=
  unfold is_cont, in_range in *;
  repeat match goal with
  | H : (_ && _) = true |- _ => apply andb_true_iff in H; destruct H
  | H : (_ <? _) = true |- _ => apply N.ltb_lt in H
  | H : (_ <? _) = false |- _ => apply N.ltb_ge in H
  | H : (_ <=? _) = true |- _ => apply N.leb_le in H
  | H : (_ <=? _) = false |- _ => apply N.leb_gt in H
  | H : (_ =? _) = true |- _ => apply N.eqb_eq in H
  | H : (_ =? _) = false |- _ => apply N.eqb_neq in H
  end.

(* a sequence starting with a byte >= 128 that re-encodes to itself: its w >= 2 bytes are all
   >= 128, and decoding depends on those bytes only *)
Lemma high_seq : forall b0 tl r w,
  128 <= b0 -> decode_rune (b0 :: tl) = (r, w) -> encode_rune r = firstn w (b0 :: tl) ->
  exists pre suffix, b0 :: tl = pre ++ suffix /\ length pre = w /\ (2 <= w)%nat /\
    Forall (fun c => 128 <= c) pre /\ encode_rune r = pre /\
    forall more, decode_rune (pre ++ more) = (r, w).
Proof.
  intros b0 tl r w Hb Hd He. unfold decode_rune in Hd.
  destruct (b0 <? 128) eqn:E0; [apply N.ltb_lt in E0; lia|].
  destruct (b0 <? 194) eqn:E1.
  { inversion Hd; subst. unfold encode_rune, RuneError in He. simpl in He. discriminate. }
  destruct (b0 <? 224) eqn:E2.
  { destruct tl as [|b1 tl1]; [inversion Hd; subst; discriminate|].
    destruct (is_cont b1) eqn:Ec; [|inversion Hd; subst; discriminate].
    inversion Hd; subst. clear Hd. exists [b0; b1], tl1. simpl in He.
    repeat split; auto.
    - tolia. repeat constructor; lia.
    - intros. simpl. unfold decode_rune. rewrite E0, E1, E2, Ec. reflexivity. }
  destruct (b0 <? 240) eqn:E3.
  { destruct tl as [|b1 [|b2 tl2]]; try (inversion Hd; subst; discriminate).
    match type of Hd with (if ?c then _ else _) = _ => destruct c eqn:Ec end; [|inversion Hd; subst; discriminate].
    inversion Hd; subst. clear Hd. exists [b0; b1; b2], tl2. simpl in He.
    repeat split; auto.
    - apply andb_true_iff in Ec. destruct Ec as [Ea Eb].
      destruct (b0 =? 224); destruct (b0 =? 237); tolia; repeat constructor; lia.
    - intros. simpl. unfold decode_rune. rewrite E0, E1, E2, E3, Ec. reflexivity. }
  destruct (b0 <? 245) eqn:E4.
  { destruct tl as [|b1 [|b2 [|b3 tl3]]]; try (inversion Hd; subst; discriminate).
    match type of Hd with (if ?c then _ else _) = _ => destruct c eqn:Ec end; [|inversion Hd; subst; discriminate].
    inversion Hd; subst. clear Hd. exists [b0; b1; b2; b3], tl3. simpl in He.
    repeat split; auto.
    - apply andb_true_iff in Ec. destruct Ec as [Ea Ed]. apply andb_true_iff in Ea. destruct Ea as [Ea Eb].
      destruct (b0 =? 240); destruct (b0 =? 244); tolia; repeat constructor; lia.
    - intros. simpl. unfold decode_rune. rewrite E0, E1, E2, E3, E4, Ec. reflexivity. }
  inversion Hd; subst. discriminate.
Qed.

Lemma quote_body_app_high : forall x y, Forall (fun c => 128 <= c) x -> quote_body (x ++ y) = x ++ quote_body y.
Proof.
  induction 1 as [|c x Hc Hx IH]; [reflexivity|]. simpl.
  assert (E : forall k, k < 128 -> (c =? k) = false) by (intros; apply N.eqb_neq; lia).
  rewrite !E by lia. assert (E2 : (c <? 32) = false) by (apply N.ltb_ge; lia). rewrite E2.
  simpl. rewrite IH. reflexivity.
Qed.

Definition inv (raw : str) (buf : option str) (cur : str) : Prop :=
  match buf with Some bf => bf = rev cur | None => raw = rev cur end.

Lemma rev_append_rev' : forall (a c : str), rev_append a c = rev a ++ c.
Proof. intros. apply rev_append_rev. Qed.

Lemma hexval_hexdig : forall n, n < 16 -> hexval (hexdig n) = Some n.
Proof.
  intros n H. unfold hexdig, hexval, is_digit, in_range.
  destruct (n <? 10) eqn:E.
  - apply N.ltb_lt in E. assert (A : (48 <=? 48 + n) && (48 + n <=? 57) = true)
      by (apply andb_true_iff; split; apply N.leb_le; lia). rewrite A. f_equal. lia.
  - apply N.ltb_ge in E.
    assert (A : (48 <=? 87 + n) && (87 + n <=? 57) = false)
      by (apply andb_false_iff; right; apply N.leb_gt; lia). rewrite A.
    assert (B : (97 <=? 87 + n) && (87 + n <=? 102) = true)
      by (apply andb_true_iff; split; apply N.leb_le; lia). rewrite B. f_equal. lia.
Qed.

Section Loop.
  Variable d : dev.

  Definition str_tok (v : str) (start e' ln ls : Z) : token :=
    mkTok String_ v start e' ln ((if d F_P1 then start + 1 else start) - ls + 1)%Z.

  (* one step of the scanner on the image of one character *)
  Theorem readString_quote : forall v, wf_utf8 v ->
    forall fuel rest raw buf cur start e ln ls,
      inv raw buf cur -> (length (quote_body v ++ 34%N :: rest) < fuel)%nat ->
      exists e', readString_loop d fuel (quote_body v ++ 34 :: rest) raw buf start e ln ls
                 = Some (str_tok (cur ++ v) start e' ln ls, None, mkLx rest e' ln ls).
  Proof.
    induction 1 as [|l r w Hne Hdec Henc Hwf IH]; intros fuel rest raw buf cur start e ln ls Hinv Hf.
    - (* closing quote *)
      destruct fuel as [|f]; [simpl in Hf; lia|]. simpl quote_body. cbn [app readString_loop].
      change ((34 =? 10) || (34 =? 13)) with false. change ((34 <? 32) && negb (34 =? 9)) with false.
      change (34 =? 34) with true. cbv iota. eexists. unfold str_tok. rewrite app_nil_r.
      unfold inv in Hinv. destruct buf as [bf|]; subst; rewrite rev_involutive; reflexivity.
    - destruct l as [|c tl]; [congruence|].
      destruct fuel as [|f]; [simpl in Hf; lia|].
      destruct (c <? 128) eqn:Ec.
      + (* one ASCII character *)
        apply N.ltb_lt in Ec. rewrite decode_ascii in Hdec by auto. inversion Hdec; subst r w. clear Hdec.
        simpl skipn in *. simpl firstn in *.
        assert (Hstep : forall buf' raw' e2, inv raw' buf' (cur ++ [c]) ->
                  (length (quote_body tl ++ 34%N :: rest) < f)%nat ->
                  exists e', readString_loop d f (quote_body tl ++ 34 :: rest) raw' buf' start e2 ln ls
                             = Some (str_tok (cur ++ c :: tl) start e' ln ls, None, mkLx rest e' ln ls)).
        { intros. destruct (IH f rest raw' buf' (cur ++ [c]) start e2 ln ls H H0) as [e' He'].
          exists e'. rewrite He'. rewrite <- app_assoc. reflexivity. }
        assert (Hlen : forall (pre : str), (length (pre ++ quote_body tl ++ 34%N :: rest) < S f)%nat ->
                       (1 <= length pre)%nat -> (length (quote_body tl ++ 34%N :: rest) < f)%nat).
        { intros pre H1 H2. rewrite app_length in H1. lia. }
        assert (HinvS : forall x bf0, inv raw buf cur -> bf0 = match buf with Some bf => bf | None => raw end ->
                        inv x (Some (c :: bf0)) (cur ++ [c])).
        { intros x bf0 Hi Hb. unfold inv in *. rewrite rev_app_distr. simpl. f_equal.
          destruct buf; subst; auto. }
        simpl quote_body in *.
        (* which escape class *)
        destruct (c =? 34) eqn:E34.
        { apply N.eqb_eq in E34. subst c. cbn [app readString_loop] in *.
          change ((92 =? 10) || (92 =? 13)) with false. change ((92 <? 32) && negb (92 =? 9)) with false.
          change (92 =? 34) with false. change (92 =? 92) with true. cbv iota.
          change (34 =? 117) with false. cbv iota.
          change ((34 =? 34) || (34 =? 47) || (34 =? 92)) with true. cbv iota.
          apply Hstep; [eapply HinvS; eauto|]. simpl in Hf. rewrite app_length in *. simpl in *. lia. }
        destruct (c =? 92) eqn:E92.
        { apply N.eqb_eq in E92. subst c. cbn [app readString_loop] in *.
          change ((92 =? 10) || (92 =? 13)) with false. change ((92 <? 32) && negb (92 =? 9)) with false.
          change (92 =? 34) with false. change (92 =? 92) with true. cbv iota.
          change (92 =? 117) with false. cbv iota.
          change ((92 =? 34) || (92 =? 47) || (92 =? 92)) with true. cbv iota.
          apply Hstep; [eapply HinvS; eauto|]. simpl in Hf. rewrite app_length in *. simpl in *. lia. }
        destruct (c =? 10) eqn:E10.
        { apply N.eqb_eq in E10. subst c. cbn [app readString_loop] in *.
          change ((92 =? 10) || (92 =? 13)) with false. change ((92 <? 32) && negb (92 =? 9)) with false.
          change (92 =? 34) with false. change (92 =? 92) with true. cbv iota.
          change (110 =? 117) with false. cbv iota.
          change ((110 =? 34) || (110 =? 47) || (110 =? 92)) with false. cbv iota.
          change (110 =? 98) with false. change (110 =? 102) with false. change (110 =? 110) with true. cbv iota.
          apply Hstep; [eapply HinvS; eauto|]. simpl in Hf. rewrite app_length in *. simpl in *. lia. }
        destruct (c =? 13) eqn:E13.
        { apply N.eqb_eq in E13. subst c. cbn [app readString_loop] in *.
          change ((92 =? 10) || (92 =? 13)) with false. change ((92 <? 32) && negb (92 =? 9)) with false.
          change (92 =? 34) with false. change (92 =? 92) with true. cbv iota.
          change (114 =? 117) with false. cbv iota.
          change ((114 =? 34) || (114 =? 47) || (114 =? 92)) with false. cbv iota.
          change (114 =? 98) with false. change (114 =? 102) with false. change (114 =? 110) with false.
          change (114 =? 114) with true. cbv iota.
          apply Hstep; [eapply HinvS; eauto|]. simpl in Hf. rewrite app_length in *. simpl in *. lia. }
        destruct (c =? 9) eqn:E9.
        { apply N.eqb_eq in E9. subst c. cbn [app readString_loop] in *.
          change ((92 =? 10) || (92 =? 13)) with false. change ((92 <? 32) && negb (92 =? 9)) with false.
          change (92 =? 34) with false. change (92 =? 92) with true. cbv iota.
          change (116 =? 117) with false. cbv iota.
          change ((116 =? 34) || (116 =? 47) || (116 =? 92)) with false. cbv iota.
          change (116 =? 98) with false. change (116 =? 102) with false. change (116 =? 110) with false.
          change (116 =? 114) with false. change (116 =? 116) with true. cbv iota.
          apply Hstep; [eapply HinvS; eauto|]. simpl in Hf. rewrite app_length in *. simpl in *. lia. }
        destruct (c =? 8) eqn:E8.
        { apply N.eqb_eq in E8. subst c. cbn [app readString_loop] in *.
          change ((92 =? 10) || (92 =? 13)) with false. change ((92 <? 32) && negb (92 =? 9)) with false.
          change (92 =? 34) with false. change (92 =? 92) with true. cbv iota.
          change (98 =? 117) with false. cbv iota.
          change ((98 =? 34) || (98 =? 47) || (98 =? 92)) with false. cbv iota.
          change (98 =? 98) with true. cbv iota.
          apply Hstep; [eapply HinvS; eauto|]. simpl in Hf. rewrite app_length in *. simpl in *. lia. }
        destruct (c =? 12) eqn:E12.
        { apply N.eqb_eq in E12. subst c. cbn [app readString_loop] in *.
          change ((92 =? 10) || (92 =? 13)) with false. change ((92 <? 32) && negb (92 =? 9)) with false.
          change (92 =? 34) with false. change (92 =? 92) with true. cbv iota.
          change (102 =? 117) with false. cbv iota.
          change ((102 =? 34) || (102 =? 47) || (102 =? 92)) with false. cbv iota.
          change (102 =? 98) with false. change (102 =? 102) with true. cbv iota.
          apply Hstep; [eapply HinvS; eauto|]. simpl in Hf. rewrite app_length in *. simpl in *. lia. }
        destruct (c <? 32) eqn:E32.
        { (* \u00XY *)
          apply N.ltb_lt in E32. cbn [app readString_loop] in *.
          change ((92 =? 10) || (92 =? 13)) with false. change ((92 <? 32) && negb (92 =? 9)) with false.
          change (92 =? 34) with false. change (92 =? 92) with true. cbv iota.
          change (117 =? 117) with true. cbv iota.
          assert (Hq : exists x tl6, quote_body tl ++ 34 :: rest = x :: tl6).
          { destruct (quote_body tl); simpl; eauto. }
          destruct Hq as [x [tl6 Hq]]. rewrite Hq.
          unfold unhex4. change (hexval 48) with (Some 0).
          rewrite !hexval_hexdig by (try apply N.mod_lt; try (apply N.div_lt_upper_bound; lia); lia).
          assert (Hv : (((0 * 16 + 0) * 16 + c / 16) * 16 + c mod 16) = c).
          { pose proof (N.div_mod c 16). lia. }
          rewrite Hv. rewrite <- Hq.
          assert (He : encode_rune c = [c]) by (unfold encode_rune; destruct (c <? 128) eqn:E; [reflexivity|apply N.ltb_ge in E; lia]).
          rewrite He. simpl rev_append.
          apply Hstep; [eapply HinvS; eauto|]. simpl in Hf. rewrite app_length in *. simpl in *. lia. }
        (* plain character *)
        apply N.ltb_ge in E32. apply N.eqb_neq in E34, E92, E10, E13, E9, E8, E12.
        cbn [app readString_loop].
        assert (A1 : (c =? 10) || (c =? 13) = false) by (apply orb_false_iff; split; apply N.eqb_neq; auto). rewrite A1.
        assert (A2 : (c <? 32) && negb (c =? 9) = false) by (apply andb_false_iff; left; apply N.ltb_ge; auto). rewrite A2.
        assert (A3 : (c =? 34) = false) by (apply N.eqb_neq; auto). rewrite A3.
        assert (A4 : (c =? 92) = false) by (apply N.eqb_neq; auto). rewrite A4.
        assert (A5 : (if c <? 127 then (c, 1%nat) else decode_rune (c :: quote_body tl ++ 34%N :: rest)) = (c, 1%nat)).
        { destruct (c <? 127); [reflexivity|apply decode_ascii; auto]. }
        rewrite A5. simpl skipn. simpl firstn. simpl rev_append.
        assert (He : encode_rune c = [c]) by (unfold encode_rune; destruct (c <? 128) eqn:E; [reflexivity|apply N.ltb_ge in E; lia]).
        rewrite He. simpl rev_append.
        apply Hstep.
        * unfold inv in *. rewrite rev_app_distr. simpl. destruct buf; subst; reflexivity.
        * simpl in Hf. lia.
      + (* a multi-byte character *)
        apply N.ltb_ge in Ec.
        destruct (high_seq c tl r w Ec Hdec Henc) as [pre [suffix [Hl [Hlen [Hw [Hhigh [Hpre Hmore]]]]]]].
        assert (Hsk : skipn w (c :: tl) = suffix).
        { rewrite Hl, <- Hlen. rewrite skipn_app, skipn_all, Nat.sub_diag. reflexivity. }
        rewrite Hsk in *. rewrite Hl. rewrite quote_body_app_high by auto. rewrite <- app_assoc.
        set (more := quote_body suffix ++ 34 :: rest) in *.
        destruct pre as [|c0 pre']; [simpl in Hlen; lia|].
        assert (c0 = c) by (inversion Hl; auto). subst c0.
        cbn [app readString_loop].
        inversion Hhigh as [|? ? Hc0 Hrest]; subst.
        assert (A1 : (c =? 10) || (c =? 13) = false) by (apply orb_false_iff; split; apply N.eqb_neq; lia). rewrite A1.
        assert (A2 : (c <? 32) && negb (c =? 9) = false) by (apply andb_false_iff; left; apply N.ltb_ge; lia). rewrite A2.
        assert (A3 : (c =? 34) = false) by (apply N.eqb_neq; lia). rewrite A3.
        assert (A4 : (c =? 92) = false) by (apply N.eqb_neq; lia). rewrite A4.
        assert (A5 : (c <? 127) = false) by (apply N.ltb_ge; lia). rewrite A5.
        specialize (Hmore more). cbn [app] in Hmore. rewrite Hmore.
        assert (Hsk2 : skipn (length (c :: pre')) (c :: pre' ++ more) = more).
        { change (c :: pre' ++ more) with ((c :: pre') ++ more). rewrite skipn_app, skipn_all, Nat.sub_diag. reflexivity. }
        assert (Hfi : firstn (length (c :: pre')) (c :: pre' ++ more) = c :: pre').
        { change (c :: pre' ++ more) with ((c :: pre') ++ more). rewrite firstn_app, firstn_all, Nat.sub_diag. simpl. rewrite app_nil_r. reflexivity. }
        rewrite Hsk2, Hfi. rewrite Hpre.
        assert (Hinv' : inv (rev_append (c :: pre') raw)
                     (match buf with Some bf => Some (rev_append (c :: pre') bf) | None => None end)
                     (cur ++ c :: pre')).
        { unfold inv in *. destruct buf; subst; rewrite rev_append_rev, rev_app_distr; reflexivity. }
        assert (Hlen' : (length more < f)%nat).
        { rewrite Hl in Hf. rewrite quote_body_app_high in Hf by auto. rewrite <- app_assoc in Hf.
          fold more in Hf. rewrite app_length in Hf. simpl in Hf. lia. }
        destruct (IH f rest _ _ _ start (e + 1)%Z ln ls Hinv' Hlen') as [e' He'].
        exists e'. fold more in He'. rewrite He'. rewrite <- app_assoc.
        change (c :: pre' ++ skipn (length (c :: pre')) (c :: tl)) with ((c :: pre') ++ skipn (length (c :: pre')) (c :: tl)).
        rewrite <- Hl. reflexivity.
  Qed.
End Loop.

Lemma quote_body_head : forall v, match quote_body v with 34 :: _ => False | _ => True end.
Proof.
  destruct v as [|c tl]; simpl; auto.
  destruct (c =? 34) eqn:E34; [simpl; auto|].
  destruct (c =? 92); [simpl; auto|]. destruct (c =? 10); [simpl; auto|]. destruct (c =? 13); [simpl; auto|].
  destruct (c =? 9); [simpl; auto|]. destruct (c =? 8); [simpl; auto|]. destruct (c =? 12); [simpl; auto|].
  destruct (c <? 32); [simpl; auto|]. simpl. apply N.eqb_neq in E34.
  destruct c as [|p]; auto. repeat (destruct p as [p|p|]; auto).
Qed.

(* the printed string, followed by anything that does not turn its closing quote into a
   triple quote, is read back as one String token with value v *)
Theorem quote_lexes_back : forall d v rest e ln ls,
  wf_utf8 v -> (v = [] -> match rest with 34 :: _ => False | _ => True end) ->
  exists e', readToken d (mkLx (quoteString v ++ rest) e ln ls)
             = Some (str_tok d v e e' ln ls, None, mkLx rest e' ln ls).
Proof.
  intros d v rest e ln ls Hwf Hrest. unfold readToken, quoteString. cbn [Lexer.rest endR line lsr app].
  cbn [ws]. change ((34 =? 9) || (34 =? 32) || (34 =? 44)) with false. change (34 =? 10) with false.
  change (34 =? 13) with false. change (34 =? 239) with false. cbv iota.
  change (punct 34) with (@None kind). cbv iota.
  change (34 =? 46) with false. change (34 =? 35) with false. change (is_name_start 34) with false.
  change ((34 =? 45) || is_digit 34) with false. change (34 =? 34) with true. cbv iota.
  rewrite <- app_assoc. cbn [app].
  assert (Hloop : exists e', readString_loop d (S (length (quote_body v ++ 34 :: rest))) (quote_body v ++ 34 :: rest)
                     [] None e (e + 1)%Z ln ls = Some (str_tok d v e e' ln ls, None, mkLx rest e' ln ls)).
  { destruct (readString_quote d v Hwf (S (length (quote_body v ++ 34 :: rest))) rest [] None [] e (e + 1)%Z ln ls)
      as [e' He']; [reflexivity|lia|]. exists e'. exact He'. }
  pose proof (quote_body_head v) as Hh.
  destruct (quote_body v) as [|q0 qtl] eqn:Eq.
  - (* empty string *)
    assert (v = []) by (destruct v as [|c tl]; auto; simpl in Eq;
      repeat match type of Eq with context [if ?x then _ else _] => destruct x end; discriminate).
    specialize (Hrest H). cbn [app] in *. destruct rest as [|r0 rtl]; [exact Hloop|].
    destruct r0 as [|p]; [exact Hloop|]. repeat (destruct p as [p|p|]; try exact Hloop). contradiction.
  - cbn [app] in *. destruct q0 as [|p]; [exact Hloop|]. repeat (destruct p as [p|p|]; try exact Hloop). contradiction.
Qed.

(* an executable check of validity, for examples *)
Fixpoint utf8_okb (fuel : nat) (l : str) : bool :=
  match fuel with
  | O => false
  | S f => match l with
           | [] => true
           | _ => let '(r, w) := decode_rune l in
                  match w with O => false | _ => str_eqb (encode_rune r) (firstn w l) && utf8_okb f (skipn w l) end
           end
  end.
