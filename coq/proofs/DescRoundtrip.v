(* DescRoundtrip.v — a description printed by the formatter (WriteDescription) is read back by the
   lexer as one token whose value is the description, byte for byte (C13), for every valid UTF-8
   description, every white-space indent and every deviation setting.
   Part B: blockStringValue undoes the indentation the formatter adds.
   Part A: the block-string scanner copies the printed body into the token.
   Part C: what WriteDescription prints. *)
From Coq Require Import List NArith ZArith Lia Bool.
From GQL.model Require Import Base Utf8 Lexer Format.
From GQL.proofs Require Import QuoteRoundtrip LexPos.
Import ListNotations.
Open Scope N_scope.

(* ------------------------------------------------------------------ *)
(* Part B: lines                                                       *)

Definition nonl (x : str) : Prop := Forall (fun c => c <> 10) x.

Lemma split_aux_app_nonl : forall x l cur, nonl x -> split_nl_aux (x ++ l) cur = split_nl_aux l (rev x ++ cur).
Proof.
  induction x as [|c x IH]; intros l cur H; [reflexivity|].
  inversion H as [|c0 x0 Hc Hx]; subst. cbn [app split_nl_aux].
  destruct (c =? 10) eqn:E; [apply N.eqb_eq in E; contradiction|].
  rewrite IH by exact Hx. cbn [rev]. rewrite <- app_assoc. reflexivity.
Qed.

Lemma split_aux_nl : forall l cur, split_nl_aux (10 :: l) cur = rev cur :: split_nl_aux l [].
Proof. reflexivity. Qed.

Lemma split_aux_lines_nonl : forall l cur, nonl cur -> Forall nonl (split_nl_aux l cur).
Proof.
  induction l as [|c l IH]; intros cur H; cbn [split_nl_aux].
  - constructor; [|constructor]. unfold nonl. apply Forall_rev. exact H.
  - destruct (c =? 10) eqn:E.
    + constructor; [unfold nonl; apply Forall_rev; exact H|]. apply IH. constructor.
    + apply IH. constructor; [apply N.eqb_neq; exact E|exact H].
Qed.

Lemma split_aux_nonempty : forall l cur, split_nl_aux l cur <> [].
Proof. induction l as [|c l IH]; intros cur; cbn [split_nl_aux]; [discriminate|]. destruct (c =? 10); [discriminate|apply IH]. Qed.

Lemma join_split_aux : forall l cur, join_nl (split_nl_aux l cur) = rev cur ++ l.
Proof.
  induction l as [|c l IH]; intros cur; cbn [split_nl_aux].
  - cbn. rewrite app_nil_r. reflexivity.
  - destruct (c =? 10) eqn:E.
    + apply N.eqb_eq in E. subst c. specialize (IH []). cbn [rev app] in IH.
      destruct (split_nl_aux l []) as [|y ys] eqn:Es; [exfalso; eapply split_aux_nonempty; exact Es|].
      cbn [join_nl]. cbn [join_nl] in IH. rewrite IH. reflexivity.
    + rewrite IH. cbn [rev]. rewrite <- app_assoc. reflexivity.
Qed.

Lemma join_split : forall s, join_nl (split_nl s) = s.
Proof. intro s. unfold split_nl. rewrite join_split_aux. reflexivity. Qed.

(* the lines of the printed body *)
Lemma split_concat_lines : forall ind L t, nonl ind -> Forall nonl L ->
  split_nl_aux (concat (map (fun ln => ind ++ ln ++ [10]) L) ++ t) [] = map (fun ln => ind ++ ln) L ++ split_nl_aux t [].
Proof.
  intros ind L t Hi. induction L as [|ln L IH]; intros HL; [reflexivity|].
  inversion HL as [|x y Hln HL']; subst. cbn [map concat].
  rewrite <- !app_assoc. rewrite (app_assoc ind ln).
  rewrite split_aux_app_nonl by (unfold nonl in *; apply Forall_app; split; assumption).
  cbn [app]. rewrite split_aux_nl. rewrite app_nil_r, rev_involutive. cbn [app]. f_equal. apply IH. exact HL'.
Qed.

Lemma split_single : forall x, nonl x -> split_nl_aux x [] = [x].
Proof.
  intros x H. rewrite <- (app_nil_r x) at 1. rewrite split_aux_app_nonl by exact H. cbn. rewrite app_nil_r, rev_involutive. reflexivity.
Qed.

Definition body_of (ind s : str) : str := 10 :: concat (map (fun ln => ind ++ ln ++ [10]) (split_nl s)) ++ ind.

Lemma split_body : forall ind s, nonl ind ->
  split_nl (body_of ind s) = [] :: map (fun ln => ind ++ ln) (split_nl s) ++ [ind].
Proof.
  intros ind s Hi. unfold body_of, split_nl at 1. rewrite split_aux_nl. cbn [rev]. f_equal.
  rewrite split_concat_lines; [|exact Hi|apply split_aux_lines_nonl; constructor].
  rewrite split_single by exact Hi. reflexivity.
Qed.

(* ---- leading white space ---- *)
Open Scope Z_scope.

Lemma blank_nonl : forall x, blank x = true -> nonl x.
Proof.
  intros x H. unfold blank in H. rewrite forallb_forall in H. apply Forall_forall. intros c Hc E. subst c.
  specialize (H _ Hc). discriminate.
Qed.

Lemma lw_blank : forall l i, blank l = true -> leadingWhitespace_aux l i = MaxInt32.
Proof.
  induction l as [|c l IH]; intros i H; [reflexivity|]. cbn [blank forallb] in H. apply andb_true_iff in H as [Hc Hl].
  cbn [leadingWhitespace_aux]. unfold is_wsp in Hc. rewrite Hc. apply IH. exact Hl.
Qed.

Lemma lw_app_blank : forall ind l i, blank ind = true ->
  leadingWhitespace_aux (ind ++ l) i = leadingWhitespace_aux l (i + zlen ind).
Proof.
  induction ind as [|c ind IH]; intros l i H.
  - cbn. unfold zlen. cbn. rewrite Z.add_0_r. reflexivity.
  - cbn [blank forallb] in H. apply andb_true_iff in H as [Hc Hl]. cbn [app leadingWhitespace_aux].
    unfold is_wsp in Hc. rewrite Hc. rewrite IH by exact Hl. f_equal. unfold zlen. cbn [length]. lia.
Qed.

(* a line that is not blank: the index of its first non-blank character, below its length *)
Lemma lw_nonblank : forall l i, blank l = false ->
  i <= leadingWhitespace_aux l i < i + zlen l.
Proof.
  induction l as [|c l IH]; intros i H; [discriminate|]. cbn [blank forallb] in H. cbn [leadingWhitespace_aux].
  unfold zlen. cbn [length]. fold (is_wsp c). destruct (is_wsp c) eqn:Ec.
  - cbn [andb] in H. specialize (IH (i + 1) H). unfold zlen in IH. lia.
  - lia.
Qed.

Lemma lw_head : forall c l i, is_wsp c = false -> leadingWhitespace_aux (c :: l) i = i.
Proof. intros c l i H. cbn [leadingWhitespace_aux]. fold (is_wsp c). rewrite H. reflexivity. Qed.

(* ---- common indent ---- *)
Lemma ci_eq : forall K L ci, 0 <= K ->
  (forall ln, In ln L -> K <= leadingWhitespace ln) -> K <= ci ->
  (ci = K \/ exists ln, In ln L /\ leadingWhitespace ln = K /\ K < zlen ln) ->
  commonIndent_loop L ci = K.
Proof.
  intros K L. induction L as [|ln L IH]; intros ci HK Hall Hci Hw.
  - destruct Hw as [E|[ln [[] _]]]. exact E.
  - cbn [commonIndent_loop]. cbv zeta.
    assert (Hln : K <= leadingWhitespace ln) by (apply Hall; left; reflexivity).
    assert (Hall' : forall x, In x L -> K <= leadingWhitespace x) by (intros x Hx; apply Hall; right; exact Hx).
    destruct ((leadingWhitespace ln <? zlen ln) && (leadingWhitespace ln <? ci)) eqn:Ec.
    + apply andb_true_iff in Ec as [E1 E2]. apply Z.ltb_lt in E1, E2.
      destruct (leadingWhitespace ln =? 0) eqn:E0; [apply Z.eqb_eq in E0; lia|].
      apply IH; [exact HK|exact Hall'|exact Hln|].
      destruct Hw as [E|[x [[Ex|Hx] [Hlw Hz]]]]; [lia|subst x; left; exact Hlw|right; exists x; auto].
    + apply IH; [exact HK|exact Hall'|exact Hci|].
      destruct Hw as [E|[x [[Ex|Hx] [Hlw Hz]]]]; [left; exact E| |right; exists x; auto].
      subst x. left. apply andb_false_iff in Ec as [E1|E2]; [apply Z.ltb_ge in E1; lia|apply Z.ltb_ge in E2; lia].
Qed.

(* ---- the value of the printed body is the description ---- *)
Lemma strip_ind : forall ind ln, strip_indent (zlen ind) (ind ++ ln) = ln.
Proof.
  intros ind ln. unfold strip_indent, zlen. rewrite app_length.
  destruct (Z.of_nat (length ind + length ln) <? Z.of_nat (length ind)) eqn:E; [apply Z.ltb_lt in E; lia|].
  rewrite Nat2Z.id. rewrite skipn_app, skipn_all, Nat.sub_diag. reflexivity.
Qed.

Lemma drop_nonblank : forall x L, blank x = false -> zlen x < MaxInt32 -> drop_blank_front (x :: L) = x :: L.
Proof.
  intros x L H Hz. cbn [drop_blank_front]. unfold leadingWhitespace.
  pose proof (lw_nonblank x 0 H) as Hl. destruct (leadingWhitespace_aux x 0 =? MaxInt32) eqn:E; [apply Z.eqb_eq in E; lia|reflexivity].
Qed.

Lemma drop_blank1 : forall L, drop_blank_front ([] :: L) = drop_blank_front L.
Proof. reflexivity. Qed.

Theorem block_value_of_body : forall d ind s,
  blank ind = true -> blockStringSafe s = true -> zlen ind + zlen s < MaxInt32 ->
  blockStringValue d (body_of ind s) = s.
Proof.
  intros d ind s Hind Hsafe Hlen. unfold blockStringValue.
  rewrite split_body by (apply blank_nonl; exact Hind). cbv zeta.
  set (lines := split_nl s).
  assert (Hjoin : join_nl lines = s) by apply join_split.
  unfold blockStringSafe in Hsafe. fold lines in Hsafe.
  repeat (apply andb_true_iff in Hsafe; destruct Hsafe as [Hsafe ?]).
  match goal with H : existsb _ lines = true |- _ => rename H into Hex end.
  match goal with H : negb (blank (last lines [])) = true |- _ => rename H into Hlast end.
  match goal with H : negb (blank (hd [] lines)) = true |- _ => rename H into Hhd end.
  apply negb_true_iff in Hlast, Hhd.
  (* every line is shorter than the whole *)
  assert (Hshort : forall ln, In ln lines -> zlen ln <= zlen s).
  { rewrite <- Hjoin. clear. induction lines as [|x L IH]; intros ln [].
    - subst. destruct L as [|y L']; [cbn [join_nl]; lia|]. change (join_nl (ln :: y :: L')) with (ln ++ 10%N :: join_nl (y :: L')).
      unfold zlen. rewrite app_length. lia.
    - specialize (IH ln H). destruct L as [|y L']; [destruct H|]. change (join_nl (x :: y :: L')) with (x ++ 10%N :: join_nl (y :: L')).
      unfold zlen in *. rewrite app_length. cbn [length]. lia. }
  set (K := zlen ind). assert (HK : 0 <= K) by (unfold K, zlen; lia).
  (* the common indent is the formatter's indent *)
  assert (Hci : forall first, (first = [] \/ first = [[]]) ->
            commonIndent_loop (first ++ map (fun ln => ind ++ ln) lines ++ [ind]) MaxInt32 = K).
  { intros first Hf.
    assert (Hskip : commonIndent_loop (first ++ map (fun ln => ind ++ ln) lines ++ [ind]) MaxInt32
                    = commonIndent_loop (map (fun ln => ind ++ ln) lines ++ [ind]) MaxInt32)
      by (destruct Hf as [->| ->]; reflexivity).
    rewrite Hskip. apply ci_eq; [exact HK| |unfold K, zlen, MaxInt32 in *; lia|].
    - intros ln Hin. apply in_app_or in Hin. destruct Hin as [Hin|[<-|[]]].
      + apply in_map_iff in Hin. destruct Hin as [x [<- Hx]]. unfold leadingWhitespace. rewrite lw_app_blank by exact Hind. cbn [Z.add].
        destruct (blank x) eqn:Eb; [rewrite lw_blank by exact Eb; unfold K, MaxInt32, zlen in *; lia|].
        pose proof (lw_nonblank x (zlen ind) Eb). unfold K. lia.
      + unfold leadingWhitespace. rewrite lw_blank by exact Hind. unfold K, MaxInt32, zlen in *. lia.
    - right. apply existsb_exists in Hex. destruct Hex as [x [Hx Hc]]. destruct x as [|c x']; [discriminate|].
      apply andb_true_iff in Hc as [_ Hc]. apply negb_true_iff in Hc.
      exists (ind ++ c :: x'). split; [apply in_or_app; left; apply in_map_iff; exists (c :: x'); auto|].
      unfold leadingWhitespace. rewrite lw_app_blank by exact Hind. cbn [Z.add]. rewrite lw_head by exact Hc.
      split; [reflexivity|]. unfold K, zlen. rewrite app_length. cbn [length]. lia. }
  match goal with |- context [commonIndent_loop ?X MaxInt32] => assert (Hci' : commonIndent_loop X MaxInt32 = K) end.
  { destruct (d F_L2); [apply (Hci [[]]); right; reflexivity|apply (Hci []); left; reflexivity]. }
  rewrite Hci'.
  destruct (K =? MaxInt32) eqn:EK; [apply Z.eqb_eq in EK; unfold K, zlen, MaxInt32 in *; lia|].
  rewrite map_app, map_map. cbn [map].
  assert (Hstrip : map (fun x => strip_indent K (ind ++ x)) lines = lines)
    by (transitivity (map (fun x : str => x) lines); [apply map_ext; intro x; apply strip_ind|apply map_id]).
  rewrite Hstrip.
  assert (Hlast0 : strip_indent K ind = []) by (pose proof (strip_ind ind []) as H0; rewrite app_nil_r in H0; exact H0).
  rewrite Hlast0.
  destruct lines as [|h t] eqn:El; [exfalso; eapply split_aux_nonempty; exact El|].
  rewrite drop_blank1. cbn [hd] in Hhd.
  change ((h :: t) ++ [[]]) with (h :: (t ++ [[]])).
  rewrite drop_nonblank; [|exact Hhd|specialize (Hshort h (or_introl eq_refl)); unfold K, zlen, MaxInt32 in *; lia].
  change (h :: (t ++ [[]])) with ((h :: t) ++ [[]]). rewrite rev_app_distr. cbn [rev app]. rewrite drop_blank1.
  destruct (rev t ++ [h]) as [|y r] eqn:Er; [destruct (rev t); discriminate|].
  assert (Hy : y = last (h :: t) []).
  { assert (E : h :: t = rev r ++ [y]).
    { rewrite <- (rev_involutive (h :: t)). cbn [rev]. rewrite Er. reflexivity. }
    rewrite E. rewrite last_last. reflexivity. }
  rewrite drop_nonblank; [| rewrite Hy; exact Hlast|].
  - rewrite <- Er. rewrite <- Hjoin. f_equal. change (rev t ++ [h]) with (rev (h :: t)). apply rev_involutive.
  - assert (Hiny : In y (h :: t)) by (apply in_rev; cbn [rev]; rewrite Er; left; reflexivity).
    specialize (Hshort y Hiny). unfold K, zlen, MaxInt32 in *. lia.
Qed.

(* ------------------------------------------------------------------ *)
(* Part A: the block-string scanner copies the body                    *)
Open Scope N_scope.


Lemma h3_skip : forall x tl, x <> 34 -> has_3quotes (x :: tl) = has_3quotes tl.
Proof. intros x tl H. destruct x as [|p]; [reflexivity|]. repeat (destruct p as [p|p|]; try reflexivity). contradiction. Qed.

Lemma h3_three : forall tl, has_3quotes (34 :: 34 :: 34 :: tl) = true.
Proof. reflexivity. Qed.

Lemma h3_one : forall y tl, y <> 34 -> has_3quotes (34 :: y :: tl) = has_3quotes (y :: tl).
Proof. intros y tl H. destruct y as [|p]; [reflexivity|]. repeat (destruct p as [p|p|]; try reflexivity). contradiction. Qed.

Lemma h3_two : forall z tl, z <> 34 -> has_3quotes (34 :: 34 :: z :: tl) = has_3quotes (34 :: z :: tl).
Proof. intros z tl H. destruct z as [|p]; [reflexivity|]. repeat (destruct p as [p|p|]; try reflexivity). contradiction. Qed.

Lemma h3_cons : forall x l, has_3quotes l = true -> has_3quotes (x :: l) = true.
Proof.
  intros x l H. destruct (N.eq_dec x 34) as [->|Hx]; [|rewrite h3_skip by exact Hx; exact H].
  destruct l as [|y l']; [discriminate|].
  destruct (N.eq_dec y 34) as [->|Hy]; [|rewrite h3_one by exact Hy; exact H].
  destruct l' as [|z l'']; [discriminate|].
  destruct (N.eq_dec z 34) as [->|Hz]; [reflexivity|]. rewrite h3_two by exact Hz. exact H.
Qed.

Lemma h3_occurs : forall a c, has_3quotes (a ++ 34 :: 34 :: 34 :: c) = true.
Proof. induction a as [|x a IH]; intro c; [reflexivity|]. cbn [app]. apply h3_cons. apply IH. Qed.

(* a separator that is not a quote splits the search *)
Lemma h3_app_sep : forall a c l, c <> 34 -> has_3quotes (a ++ c :: l) = has_3quotes a || has_3quotes l.
Proof.
  induction a as [|x a IH]; intros c l Hc.
  - cbn [app]. rewrite h3_skip by exact Hc. reflexivity.
  - cbn [app]. destruct (N.eq_dec x 34) as [->|Hx]; [|rewrite !h3_skip by exact Hx; apply IH; exact Hc].
    destruct a as [|y a'].
    + cbn [app]. rewrite h3_one by exact Hc. rewrite h3_skip by exact Hc. reflexivity.
    + destruct (N.eq_dec y 34) as [->|Hy].
      * destruct a' as [|z a''].
        -- cbn [app]. rewrite h3_two by exact Hc. rewrite h3_one by exact Hc. rewrite h3_skip by exact Hc. reflexivity.
        -- destruct (N.eq_dec z 34) as [->|Hz]; [reflexivity|].
           cbn [app]. rewrite !h3_two by exact Hz. apply (IH c l Hc).
      * cbn [app]. rewrite !h3_one by exact Hy. apply (IH c l Hc).
Qed.

Lemma wsp_not_quote : forall c, is_wsp c = true -> c <> 34.
Proof. intros c H E. subst c. discriminate. Qed.

Lemma h3_blank_prefix : forall ind l, blank ind = true -> has_3quotes (ind ++ l) = has_3quotes l.
Proof.
  induction ind as [|c ind IH]; intros l H; [reflexivity|]. cbn [blank forallb] in H. apply andb_true_iff in H as [Hc Hi].
  cbn [app]. rewrite h3_skip by (apply wsp_not_quote; exact Hc). apply IH. exact Hi.
Qed.

Lemma h3_blank : forall ind, blank ind = true -> has_3quotes ind = false.
Proof. intros ind H. rewrite <- (app_nil_r ind). rewrite h3_blank_prefix by exact H. reflexivity. Qed.

Lemma h3_join : forall L, has_3quotes (join_nl L) = existsb has_3quotes L.
Proof.
  induction L as [|x L IH]; [reflexivity|]. destruct L as [|y L'].
  - cbn [join_nl existsb]. rewrite orb_false_r. reflexivity.
  - change (join_nl (x :: y :: L')) with (x ++ 10 :: join_nl (y :: L')). rewrite h3_app_sep by discriminate.
    rewrite IH. reflexivity.
Qed.

Lemma h3_body : forall ind s, blank ind = true -> has_3quotes (body_of ind s) = has_3quotes s.
Proof.
  intros ind s Hi. unfold body_of. rewrite h3_skip by discriminate.
  rewrite <- (join_split s) at 2. rewrite h3_join. generalize (split_nl s) as L.
  induction L as [|ln L IH]; [cbn; apply h3_blank; exact Hi|].
  cbn [map concat existsb]. rewrite <- !app_assoc. rewrite h3_blank_prefix by exact Hi.
  cbn [app]. rewrite h3_app_sep by discriminate. rewrite IH. reflexivity.
Qed.

(* no quote run of three starts anywhere in x, whatever follows, when x does not end in a quote *)
Lemma q3free : forall x a c tail, has_3quotes x = false -> x = a ++ c -> c <> [] -> last x 0 <> 34 ->
  (fst (count_quotes (c ++ tail)) < 3)%nat.
Proof.
  intros x a c tail Hh Hx Hc Hl.
  destruct (count_quotes (c ++ tail)) as [qc after] eqn:Eq. cbn [fst].
  destruct (3 <=? qc)%nat eqn:E3; [|apply Nat.leb_gt in E3; exact E3]. exfalso.
  destruct (count_quotes_three _ _ _ Eq E3) as [l3 El].
  (* the three quotes lie inside c, or c ends in a quote *)
  destruct c as [|c1 [|c2 [|c3 c']]]; [contradiction| | |].
  - cbn [app] in El. inversion El; subst. apply Hl. rewrite last_last. reflexivity.
  - cbn [app] in El. inversion El; subst. apply Hl. change (a ++ [34; 34]) with (a ++ [34] ++ [34]). rewrite app_assoc, last_last. reflexivity.
  - cbn [app] in El. inversion El; subst. rewrite h3_occurs in Hh. discriminate.
Qed.

Definition okb (c : N) : bool := negb (c <? 32) || (c =? 9) || (c =? 10).

Lemma count_quotes_nq : forall c l, c <> 34 -> count_quotes (c :: l) = (O, c :: l).
Proof. intros c l H. destruct c as [|p]; [reflexivity|]. repeat (destruct p as [p|p|]; try reflexivity). contradiction. Qed.

(* one round of the scanner on an ordinary character *)
Lemma rb_step : forall d f b0 l' buf start e ln ls sl sls,
  (fst (count_quotes (b0 :: l')) < 3)%nat -> okb b0 = true ->
  (b0 = 92 -> (fst (count_quotes l') < 3)%nat) ->
  readBlock_loop d (S f) (b0 :: l') buf start e ln ls sl sls =
    let '(ch, w) := if b0 <? 127 then (b0, 1%nat) else decode_rune (b0 :: l') in
    readBlock_loop d f (skipn w (b0 :: l')) (rev_append (encode_rune ch) buf) start (e + 1)%Z
                   (if b0 =? 10 then (ln + 1)%Z else ln) (if b0 =? 10 then (e + 1)%Z else ls) sl sls.
Proof.
  intros d f b0 l' buf start e ln ls sl sls Hq Hok H92.
  cbn [readBlock_loop]. destruct (count_quotes (b0 :: l')) as [qc after] eqn:Eq. cbn [fst] in Hq.
  apply Nat.leb_gt in Hq. rewrite Hq.
  assert (Hctl : (b0 <? 32) && negb (b0 =? 9) && negb (b0 =? 10) && negb (b0 =? 13) = false).
  { unfold okb in Hok. destruct (b0 <? 32) eqn:E32; [|reflexivity]. cbn [negb orb] in Hok.
    destruct (b0 =? 9); [reflexivity|]. destruct (b0 =? 10); [reflexivity|]. discriminate. }
  rewrite Hctl.
  assert (H13 : b0 <> 13) by (intro E; subst b0; discriminate).
  destruct (N.eq_dec b0 92) as [->|Hn92].
  - specialize (H92 eq_refl).
    destruct l' as [|y1 l1]; [reflexivity|].
    destruct (N.eq_dec y1 34) as [->|Hy1]; [|destruct y1 as [|p]; [reflexivity|]; repeat (destruct p as [p|p|]; try reflexivity); contradiction].
    destruct l1 as [|y2 l2]; [reflexivity|].
    destruct (N.eq_dec y2 34) as [->|Hy2]; [|destruct y2 as [|p]; [reflexivity|]; repeat (destruct p as [p|p|]; try reflexivity); contradiction].
    destruct l2 as [|y3 l3]; [reflexivity|].
    destruct (N.eq_dec y3 34) as [->|Hy3]; [|destruct y3 as [|p]; [reflexivity|]; repeat (destruct p as [p|p|]; try reflexivity); contradiction].
    exfalso. cbn [count_quotes] in H92. destruct (count_quotes l3) as [n r]. cbn [fst] in H92. lia.
  - destruct b0 as [|p]; [reflexivity|]. repeat (destruct p as [p|p|]; try reflexivity); contradiction.
Qed.

Lemma skipn_split : forall (w : nat) (l a c : str), skipn w l = a ++ c -> l = (firstn w l ++ a) ++ c.
Proof. intros w l a c H. rewrite <- app_assoc, <- H. symmetry. apply firstn_skipn. Qed.

Lemma last_app_ne : forall (p q : str) d0, q <> [] -> last (p ++ q) d0 = last q d0.
Proof.
  induction p as [|x p IH]; intros q d0 H; [reflexivity|]. cbn [app].
  destruct (p ++ q) as [|z t] eqn:E; [destruct p; [cbn in E; contradiction|discriminate]|].
  change (last (x :: z :: t) d0) with (last (z :: t) d0). rewrite <- E. apply IH. exact H.
Qed.

Lemma last_skipn : forall (w : nat) (l : str), skipn w l <> [] -> last (skipn w l) 0 = last l 0.
Proof.
  intros w l H. rewrite <- (firstn_skipn w l) at 2. symmetry. apply last_app_ne. exact H.
Qed.

Lemma scan : forall d x, wf_utf8 x -> forall tail fuel buf start e ln ls sl sls,
  forallb okb x = true -> has_3quotes x = false -> last x 0 <> 34 -> last x 0 <> 92 ->
  (length x < fuel)%nat ->
  exists fuel' e' ln' ls', (fuel - length x <= fuel')%nat /\
    readBlock_loop d fuel (x ++ tail) buf start e ln ls sl sls
    = readBlock_loop d fuel' tail (rev x ++ buf) start e' ln' ls' sl sls.
Proof.
  intros d x Hwf. induction Hwf as [|l r w Hne Hdec Henc Hwf IH]; intros tail fuel buf start e ln ls sl sls Hok Hh Hl34 Hl92 Hf.
  - exists fuel, e, ln, ls. split; [cbn; lia|reflexivity].
  - destruct l as [|b0 tl]; [contradiction|].
    destruct fuel as [|f]; [lia|].
    assert (Hok0 : okb b0 = true) by (cbn [forallb] in Hok; apply andb_true_iff in Hok; tauto).
    assert (Hq0 : (fst (count_quotes ((b0 :: tl) ++ tail)) < 3)%nat)
      by (eapply (q3free (b0 :: tl) []); [exact Hh|reflexivity|discriminate|exact Hl34]).
    assert (H92 : b0 = 92 -> (fst (count_quotes (tl ++ tail)) < 3)%nat).
    { intros ->. destruct tl as [|t0 tl']; [exfalso; apply Hl92; reflexivity|].
      eapply (q3free (92 :: t0 :: tl') [92]); [exact Hh|reflexivity|discriminate|exact Hl34]. }
    cbn [app]. rewrite rb_step; [|exact Hq0|exact Hok0|exact H92].
    (* the character read and its width are those of the well-formedness witness *)
    assert (Hstep : exists pre, b0 :: tl = pre ++ skipn w (b0 :: tl) /\ length pre = w /\ (1 <= w)%nat /\
              (if b0 <? 127 then (b0, 1%nat) else decode_rune (b0 :: tl ++ tail)) = (r, w) /\ encode_rune r = pre).
    { destruct (b0 <? 128) eqn:E128.
      - apply N.ltb_lt in E128. rewrite decode_ascii in Hdec by exact E128. inversion Hdec; subst r w.
        exists [b0]. split; [reflexivity|]. split; [reflexivity|]. split; [lia|]. split; [|exact Henc].
        destruct (b0 <? 127); [reflexivity|]. apply decode_ascii. exact E128.
      - apply N.ltb_ge in E128.
        destruct (high_seq b0 tl r w E128 Hdec Henc) as [pre [suf [Hsplit [Hlen [Hw2 [_ [Hencp Hmore]]]]]]].
        exists pre. assert (Hsk : skipn w (b0 :: tl) = suf) by (rewrite Hsplit, <- Hlen, skipn_app, skipn_all, Nat.sub_diag; reflexivity).
        rewrite Hsk. split; [exact Hsplit|]. split; [exact Hlen|]. split; [lia|]. split; [|exact Hencp].
        assert (E127 : (b0 <? 127) = false) by (apply N.ltb_ge; lia). rewrite E127.
        change (b0 :: tl ++ tail) with ((b0 :: tl) ++ tail). rewrite Hsplit, <- app_assoc. apply Hmore. }
    destruct Hstep as [pre [Hsplit [Hlen [Hw1 [Hchw Hencp]]]]].
    rewrite Hchw.
    assert (Hsk : skipn w (b0 :: tl ++ tail) = skipn w (b0 :: tl) ++ tail).
    { change (b0 :: tl ++ tail) with ((b0 :: tl) ++ tail). rewrite Hsplit at 1. rewrite <- app_assoc, <- Hlen, skipn_app, skipn_all, Nat.sub_diag. reflexivity. }
    rewrite Hsk. rewrite Hencp, rev_append_rev.
    remember (skipn w (b0 :: tl)) as x' eqn:Ex'.
    assert (Hlenx : (length x' + w = length (b0 :: tl))%nat) by (pose proof (f_equal (@length N) Hsplit) as HL; rewrite app_length in HL; lia).
    destruct x' as [|y0 x''].
    + (* that was the last character *)
      exists f. eexists. eexists. eexists. split; [cbn [length] in *; lia|].
      cbn [app]. rewrite Hsplit, app_nil_r. reflexivity.
    + assert (Hne' : y0 :: x'' <> []) by discriminate.
      assert (Hlast : last (y0 :: x'') 0 = last (b0 :: tl) 0) by (rewrite Hsplit; symmetry; apply last_app_ne; exact Hne').
      edestruct (IH tail f (rev pre ++ buf) start) as [fuel' [e' [ln' [ls' [Hfu Heq]]]]].
      * rewrite forallb_forall in *. intros c Hc. apply Hok. rewrite Hsplit. apply in_or_app. right. exact Hc.
      * destruct (has_3quotes (y0 :: x'')) eqn:E; [|reflexivity]. exfalso.
        rewrite Hsplit in Hh. clear - Hh E. induction pre as [|p0 pre IHp]; [cbn [app] in Hh; congruence|].
        cbn [app] in Hh. destruct (has_3quotes (pre ++ y0 :: x'')) eqn:E2; [rewrite (h3_cons p0 _ E2) in Hh; discriminate|apply IHp; reflexivity].
      * rewrite Hlast. exact Hl34.
      * rewrite Hlast. exact Hl92.
      * cbn [length] in *. lia.
      * exists fuel', e', ln', ls'. split; [cbn [length] in *; lia|].
        rewrite Heq. f_equal. rewrite Hsplit. rewrite rev_app_distr, <- app_assoc. reflexivity.
Qed.

(* ---- well-formed UTF-8 is closed under the operations the formatter performs ---- *)
Lemma wf_app : forall a, wf_utf8 a -> forall c, wf_utf8 c -> wf_utf8 (a ++ c).
Proof.
  intros a Ha. induction Ha as [|l r w Hne Hdec Henc Hwf IH]; intros c Hc; [exact Hc|].
  destruct l as [|b0 tl]; [contradiction|].
  assert (Hw : (w <= length (b0 :: tl))%nat /\ decode_rune ((b0 :: tl) ++ c) = (r, w)).
  { destruct (b0 <? 128) eqn:E128.
    - apply N.ltb_lt in E128. rewrite decode_ascii in Hdec by exact E128. inversion Hdec; subst r w.
      split; [cbn [length]; lia|]. cbn [app]. apply decode_ascii. exact E128.
    - apply N.ltb_ge in E128.
      destruct (high_seq b0 tl r w E128 Hdec Henc) as [pre [suf [Hsplit [Hlen [_ [_ [_ Hmore]]]]]]].
      split; [rewrite Hsplit, app_length; lia|]. rewrite Hsplit, <- app_assoc. apply Hmore. }
  destruct Hw as [Hw Hdec'].
  apply (wf_cons ((b0 :: tl) ++ c) r w); [discriminate|exact Hdec'| |].
  - rewrite firstn_app. replace (w - length (b0 :: tl))%nat with O by lia. rewrite firstn_O, app_nil_r. exact Henc.
  - rewrite skipn_app. replace (w - length (b0 :: tl))%nat with O by lia. cbn [skipn]. apply IH. exact Hc.
Qed.

Lemma wf_ascii1 : forall c, c < 128 -> encode_rune c = [c] -> wf_utf8 [c].
Proof. intros c H He. apply (wf_cons [c] c 1%nat); [discriminate|apply decode_ascii; exact H|exact He|constructor]. Qed.

Lemma encode_ascii : forall c, c < 128 -> encode_rune c = [c].
Proof. intros c H. unfold encode_rune. destruct (c <? 128) eqn:E; [reflexivity|apply N.ltb_ge in E; lia]. Qed.

Lemma wf_blank : forall ind, blank ind = true -> wf_utf8 ind.
Proof.
  induction ind as [|c ind IH]; intro H; [constructor|]. cbn [blank forallb] in H. apply andb_true_iff in H as [Hc Hi].
  change (c :: ind) with ([c] ++ ind). apply wf_app; [|apply IH; exact Hi].
  assert (c < 128) by (unfold is_wsp in Hc; apply orb_true_iff in Hc as [E|E]; apply N.eqb_eq in E; subst; reflexivity).
  apply wf_ascii1; [assumption|apply encode_ascii; assumption].
Qed.

Lemma wf_single_rune : forall pre r w, pre <> [] -> length pre = w ->
  (forall m, decode_rune (pre ++ m) = (r, w)) -> encode_rune r = pre -> wf_utf8 pre.
Proof.
  intros pre r w Hne Hlen Hd He. apply (wf_cons pre r w); [exact Hne| | |].
  - rewrite <- (app_nil_r pre) at 1. apply Hd.
  - rewrite <- Hlen, firstn_all. exact He.
  - rewrite <- Hlen, skipn_all. constructor.
Qed.

Lemma wf_lines : forall l, wf_utf8 l -> forall cur, wf_utf8 (rev cur) -> Forall wf_utf8 (split_nl_aux l cur).
Proof.
  intros l Hl. induction Hl as [|l r w Hne Hdec Henc Hwf IH]; intros cur Hcur.
  - cbn. constructor; [exact Hcur|constructor].
  - destruct l as [|b0 tl]; [contradiction|].
    destruct (b0 <? 128) eqn:E128.
    + apply N.ltb_lt in E128. rewrite decode_ascii in Hdec by exact E128. inversion Hdec; subst r w.
      cbn [skipn] in *. cbn [split_nl_aux]. destruct (b0 =? 10) eqn:E10.
      * constructor; [exact Hcur|]. apply IH. constructor.
      * apply IH. cbn [rev]. apply wf_app; [exact Hcur|]. apply wf_ascii1; [exact E128|exact Henc].
    + apply N.ltb_ge in E128.
      destruct (high_seq b0 tl r w E128 Hdec Henc) as [pre [suf [Hsplit [Hlen [Hw2 [Hhigh [Hencp Hmore]]]]]]].
      assert (Hsk : skipn w (b0 :: tl) = suf) by (rewrite Hsplit, <- Hlen, skipn_app, skipn_all, Nat.sub_diag; reflexivity).
      rewrite Hsk in *. rewrite Hsplit.
      rewrite split_aux_app_nonl.
      * apply IH. rewrite rev_app_distr, rev_involutive. apply wf_app; [exact Hcur|].
        apply (wf_single_rune pre r w); [destruct pre; [cbn in Hlen; lia|discriminate]|exact Hlen|exact Hmore|exact Hencp].
      * unfold nonl. eapply Forall_impl; [|exact Hhigh]. intros c Hc E. subst c. lia.
Qed.

Lemma wf_body : forall ind s, blank ind = true -> wf_utf8 s -> wf_utf8 (body_of ind s).
Proof.
  intros ind s Hi Hs. unfold body_of. change (10 :: ?x) with ([10] ++ x).
  apply wf_app; [apply wf_ascii1; [reflexivity|reflexivity]|].
  assert (HL : Forall wf_utf8 (split_nl s)) by (apply wf_lines; [exact Hs|constructor]).
  induction HL as [|ln L Hln HL IH]; [cbn; apply wf_blank; exact Hi|].
  cbn [map concat]. rewrite <- app_assoc. apply wf_app; [|exact IH].
  apply wf_app; [apply wf_blank; exact Hi|]. apply wf_app; [exact Hln|]. apply wf_ascii1; reflexivity.
Qed.

Lemma in_join : forall c ln L, In c ln -> In ln L -> In c (join_nl L).
Proof.
  intros c ln L Hc. induction L as [|x L IH]; intros [].
  - subst. destruct L as [|y L']; [exact Hc|]. change (join_nl (ln :: y :: L')) with (ln ++ 10 :: join_nl (y :: L')). apply in_or_app. left. exact Hc.
  - destruct L as [|y L']; [destruct H|]. change (join_nl (x :: y :: L')) with (x ++ 10 :: join_nl (y :: L')).
    apply in_or_app. right. right. apply IH. exact H.
Qed.

Lemma ok_body : forall ind s, blank ind = true -> forallb okb s = true -> forallb okb (body_of ind s) = true.
Proof.
  intros ind s Hi Hs. rewrite forallb_forall in *. intros c Hc. unfold body_of in Hc.
  assert (Hind : forall c, In c ind -> okb c = true).
  { intros c0 H0. unfold blank in Hi. rewrite forallb_forall in Hi. specialize (Hi _ H0). unfold is_wsp in Hi.
    apply orb_true_iff in Hi as [E|E]; apply N.eqb_eq in E; subst; reflexivity. }
  destruct Hc as [<-|Hc]; [reflexivity|]. apply in_app_or in Hc. destruct Hc as [Hc|Hc]; [|apply Hind; exact Hc].
  apply in_concat in Hc. destruct Hc as [seg [Hseg Hc]]. apply in_map_iff in Hseg. destruct Hseg as [ln [<- Hln]].
  apply in_app_or in Hc. destruct Hc as [Hc|Hc]; [apply Hind; exact Hc|].
  apply in_app_or in Hc. destruct Hc as [Hc|[<-|[]]]; [|reflexivity].
  apply Hs. rewrite <- (join_split s). eapply in_join; eassumption.
Qed.

Lemma last_body : forall ind s, blank ind = true ->
  last (body_of ind s) 0 = 10 \/ is_wsp (last (body_of ind s) 0) = true.
Proof.
  intros ind s Hi. unfold body_of.
  destruct ind as [|i0 ind'] eqn:Ei.
  - left. rewrite app_nil_r.
    destruct (split_nl s) as [|h t] eqn:El; [exfalso; eapply split_aux_nonempty; exact El|].
    destruct (exists_last (l := h :: t) ltac:(discriminate)) as [L [z ->]].
    assert (Hx : forall X : str, last (10 :: X ++ z ++ [10]) 0 = 10) by (intro X; rewrite app_assoc, app_comm_cons; apply last_last).
    rewrite map_app, concat_app. cbn [map concat app]. rewrite ?app_nil_r. apply Hx.
  - right. rewrite <- Ei in *. assert (Hne : ind <> []) by (rewrite Ei; discriminate).
    change (10 :: ?a ++ ind) with ((10 :: a) ++ ind). rewrite last_app_ne by exact Hne.
    unfold blank in Hi. rewrite forallb_forall in Hi. apply Hi.
    destruct (exists_last Hne) as [L [z ->]]. rewrite last_last. apply in_or_app. right. left. reflexivity.
Qed.

(* ---- the printed block string is read back as the description ---- *)
Theorem block_lexes_back : forall d ind s rst e ln ls,
  wf_utf8 s -> blank ind = true -> blockStringSafe s = true -> (zlen ind + zlen s < MaxInt32)%Z ->
  (forall r', rst <> 34 :: r') ->
  exists t lx', readToken d (mkLx (quotes3 ++ body_of ind s ++ quotes3 ++ rst) e ln ls) = Some (t, None, lx')
                /\ tkind t = BlockString /\ tval t = s /\ rest lx' = rst.
Proof.
  intros d ind s rst e ln ls Hwf Hind Hsafe Hlen Hrst.
  unfold readToken, quotes3. cbn [Lexer.rest endR line lsr app].
  cbn [ws]. change ((34 =? 9) || (34 =? 32) || (34 =? 44)) with false. change (34 =? 10) with false.
  change (34 =? 13) with false. change (34 =? 239) with false. cbv iota.
  change (punct 34) with (@None kind). cbv iota.
  change (34 =? 46) with false. change (34 =? 35) with false. change (is_name_start 34) with false.
  change ((34 =? 45) || is_digit 34) with false. change (34 =? 34) with true. cbv iota.
  set (tl3 := body_of ind s ++ 34 :: 34 :: 34 :: rst).
  assert (Hsafe' := Hsafe). unfold blockStringSafe in Hsafe'.
  repeat (apply andb_true_iff in Hsafe'; destruct Hsafe' as [Hsafe' ?]).
  match goal with H : forallb _ s = true |- _ => rename H into Hchars end.
  apply negb_true_iff in Hsafe'.
  pose proof (last_body ind s Hind) as Hlast.
  destruct (scan d (body_of ind s) (wf_body ind s Hind Hwf) (34 :: 34 :: 34 :: rst) (S (length tl3)) [] e (e + 3)%Z ln ls ln ls)
    as [fuel' [e' [ln' [ls' [Hfu Heq]]]]].
  - apply ok_body; [exact Hind|exact Hchars].
  - rewrite h3_body by exact Hind. exact Hsafe'.
  - destruct Hlast as [->| Hw]; [discriminate|]. intro E. rewrite E in Hw. discriminate.
  - destruct Hlast as [->| Hw]; [discriminate|]. intro E. rewrite E in Hw. discriminate.
  - unfold tl3. rewrite app_length. lia.
  - fold tl3 in Heq. rewrite Heq.
    destruct fuel' as [|f']; [unfold tl3 in Hfu; rewrite app_length in Hfu; cbn [length] in Hfu; lia|].
    cbn [readBlock_loop].
    assert (Hcq : count_quotes (34 :: 34 :: 34 :: rst) = (3%nat, rst)).
    { cbn [count_quotes]. destruct rst as [|c r']; [reflexivity|].
      rewrite count_quotes_nq by (intro E; subst c; eapply Hrst; reflexivity). reflexivity. }
    rewrite Hcq. cbn [Nat.leb]. rewrite app_nil_r, Nat.sub_diag.
    eexists. eexists. split; [reflexivity|]. cbn [tkind tval Lexer.rest].
    split; [reflexivity|]. split.
    + destruct (d F_L3); cbn [repeat app]; rewrite rev_involutive; apply block_value_of_body; assumption.
    + destruct (d F_L3); reflexivity.
Qed.

(* ------------------------------------------------------------------ *)
(* Part C: what WriteDescription prints                                *)
Section Desc.
  Variable o : fopts.
  Definition indent_of (f : fmt) : str := concat (repeat (fo_indent o) (isz f)).

  Lemma isz_pre : forall f, isz (pre o f) = isz f.
  Proof. intro f. unfold pre, writeIndent, emit. destruct (lineHead f); cbn; destruct (padNext f); reflexivity. Qed.

  (* one line written at the head of a line: the indentation, the text, a newline *)
  Lemma write_line : forall ln f, lineHead f = true -> padNext f = false ->
    out (WriteNewline (WriteString o ln f)) = 10 :: rev ln ++ rev (indent_of f) ++ out f
    /\ isz (WriteNewline (WriteString o ln f)) = isz f
    /\ lineHead (WriteNewline (WriteString o ln f)) = true
    /\ padNext (WriteNewline (WriteString o ln f)) = false.
  Proof.
    intros ln f Hl Hp. unfold WriteNewline, WriteString, pre, writeIndent, emit. rewrite Hl. cbn.
    rewrite !rev_append_rev. unfold indent_of. repeat split; reflexivity.
  Qed.

  Lemma write_lines : forall L f, lineHead f = true -> padNext f = false ->
    let f' := fold_left (fun acc ln => WriteNewline (WriteString o ln acc)) L f in
    out f' = rev (concat (map (fun ln => indent_of f ++ ln ++ [10]) L)) ++ out f
    /\ isz f' = isz f /\ lineHead f' = true /\ padNext f' = false.
  Proof.
    induction L as [|ln L IH]; intros f Hl Hp; cbv zeta.
    - cbn. repeat split; assumption.
    - cbn [fold_left]. destruct (write_line ln f Hl Hp) as [Ho [Hi [Hl' Hp']]].
      destruct (IH _ Hl' Hp') as [Ho2 [Hi2 [Hl2 Hp2]]]. cbv zeta in Ho2.
      assert (Hind : indent_of (WriteNewline (WriteString o ln f)) = indent_of f) by (unfold indent_of; rewrite Hi; reflexivity).
      rewrite Hind in Ho2.
      split; [|split; [congruence|split; assumption]].
      rewrite Ho2, Ho. cbn [map concat]. rewrite !rev_app_distr. cbn [rev app].
      repeat (rewrite <- app_assoc; cbn [app]). reflexivity.
  Qed.

  Lemma out_WriteString : forall x f, out (WriteString o x f) = rev x ++ out (pre o f).
  Proof. intros. unfold WriteString, emit. cbn. apply rev_append_rev. Qed.

  Lemma write_block : forall s f, s <> [] -> fo_nodesc o = false -> blockStringSafe s = true ->
    out (WriteDescription o s f) = rev (quotes3 ++ body_of (indent_of f) s ++ quotes3 ++ [10]) ++ out (pre o f).
  Proof.
    intros s f Hs Hn Hsafe. unfold WriteDescription. destruct s as [|c s']; [contradiction|].
    rewrite Hn, Hsafe. cbn [negb].
    set (f1 := WriteNewline (WriteString o quotes3 f)).
    assert (H1 : out f1 = 10 :: rev quotes3 ++ out (pre o f)) by (unfold f1, WriteNewline; cbn [out]; rewrite out_WriteString; reflexivity).
    assert (Hi1 : isz f1 = isz f) by (unfold f1, WriteNewline, WriteString, emit; cbn; apply isz_pre).
    destruct (write_lines (split_nl (c :: s')) f1 eq_refl eq_refl) as [Ho2 [Hi2 [Hl2 Hp2]]]. cbv zeta in Ho2.
    set (f2 := fold_left (fun acc ln => WriteNewline (WriteString o ln acc)) (split_nl (c :: s')) f1) in *.
    destruct (write_line quotes3 f2 Hl2 Hp2) as [Ho3 _].
    rewrite Ho3, Ho2, H1. unfold indent_of. rewrite Hi2, Hi1. unfold body_of.
    rewrite !rev_app_distr. cbn [rev app]. rewrite !rev_app_distr. cbn [rev app]. repeat (rewrite <- app_assoc; cbn [app]). reflexivity.
  Qed.

  Lemma write_quoted : forall s f, s <> [] -> fo_nodesc o = false -> blockStringSafe s = false ->
    out (WriteDescription o s f) = rev (quoteString s ++ [10]) ++ out (pre o f).
  Proof.
    intros s f Hs Hn Hsafe. unfold WriteDescription. destruct s as [|c s']; [contradiction|].
    rewrite Hn, Hsafe. cbn [negb]. unfold WriteNewline. cbn [out]. rewrite out_WriteString.
    rewrite rev_app_distr. reflexivity.
  Qed.

  Lemma blank_indent : forall f, blank (fo_indent o) = true -> blank (indent_of f) = true.
  Proof.
    intros f H. unfold indent_of, blank in *. induction (isz f) as [|n IH]; [reflexivity|].
    cbn [repeat concat]. rewrite forallb_app, H, IH. reflexivity.
  Qed.

  (* A description survives formatting: whatever the formatter state, the text it writes for a
     non-empty description s is one token followed by a newline, and the lexer reads that token
     back with value s. *)
  Theorem description_survives : forall d s f,
    s <> [] -> fo_nodesc o = false -> wf_utf8 s -> blank (fo_indent o) = true ->
    (zlen (indent_of f) + zlen s < MaxInt32)%Z ->
    exists text, out (WriteDescription o s f) = rev (text ++ [10]) ++ out (pre o f)
      /\ forall rst e ln ls, exists t lx',
           readToken d (mkLx (text ++ 10 :: rst) e ln ls) = Some (t, None, lx')
           /\ tval t = s /\ (tkind t = String_ \/ tkind t = BlockString) /\ rest lx' = 10 :: rst.
  Proof.
    intros d s f Hs Hn Hwf Hind Hlen. destruct (blockStringSafe s) eqn:Hsafe.
    - exists (quotes3 ++ body_of (indent_of f) s ++ quotes3). split.
      + rewrite write_block by assumption. rewrite <- !app_assoc. reflexivity.
      + intros rst e ln ls.
        destruct (block_lexes_back d (indent_of f) s (10 :: rst) e ln ls Hwf (blank_indent f Hind) Hsafe Hlen)
          as [t [lx' [Hr [Hk [Hv Hrest]]]]]; [intros r' E; discriminate|].
        exists t, lx'. rewrite <- !app_assoc. split; [exact Hr|]. split; [exact Hv|]. split; [right; exact Hk|exact Hrest].
    - exists (quoteString s). split; [apply write_quoted; assumption|].
      intros rst e ln ls.
      destruct (quote_lexes_back d s (10 :: rst) e ln ls Hwf) as [e' He']; [intro E; contradiction|].
      eexists. eexists. split; [exact He'|]. split; [reflexivity|]. split; [left; reflexivity|reflexivity].
  Qed.
End Desc.
