(* TypeRoundtrip.v — a type printed by Type.String is parsed back as the same type (C12, C13):
   names, list brackets and non-null marks survive; only positions differ.
   First a small "what the parser sees next" layer over the parser state, then the primitives
   peek/next and the derived operations skip/expect/peekPos/parseName on it, then the induction. *)
From Coq Require Import List NArith ZArith Lia Bool.
From GQL.model Require Import Base Utf8 Lexer Ast Parser Prog ParseQuery Format.
From GQL.proofs Require Import StrFacts ProgFacts NumberGrammar.
Import ListNotations.
Open Scope N_scope.

(* nothing peeked, no error, no limit, the lexer stands in front of txt *)
Definition fresh (s : pst) (txt : str) : Prop :=
  has_err s = false /\ peeked s = None /\ lim s = 0 /\ rest (plx s) = txt.
(* token t has been peeked (without error), the lexer stands behind it in front of txt *)
Definition holding (s : pst) (t : token) (txt : str) : Prop :=
  has_err s = false /\ peeked s = Some (t, None) /\ lim s = 0 /\ rest (plx s) = txt.
(* the next token is t, a proper token; behind it comes txt *)
Definition sees (d : dev) (s : pst) (t : token) (txt : str) : Prop :=
  kind_eqb (tkind t) Comment = false /\
  ((exists lx', has_err s = false /\ peeked s = None /\ lim s = 0 /\ readToken d (plx s) = Some (t, None, lx') /\ rest lx' = txt)
   \/ holding s t txt).

Lemma peek_sees : forall d s t txt, sees d s t txt ->
  fst (peek d s) = t /\ holding (snd (peek d s)) t txt /\ src (snd (peek d s)) = src s.
Proof.
  intros d s t txt [Hk [[lx' [He [Hp [Hl [Hr Hx]]]]]|[He [Hp [Hl Hx]]]]].
  - unfold peek. rewrite He, Hp. unfold read_peek. rewrite Hr. cbn [peeked]. rewrite Hk. cbn [peeked fst snd].
    split; [reflexivity|]. split; [|reflexivity]. unfold holding. cbn. unfold has_err in *. repeat split; assumption.
  - unfold peek. rewrite He, Hp. cbn. split; [reflexivity|]. split; [|reflexivity]. repeat split; assumption.
Qed.

Lemma next_sees : forall d s t txt, sees d s t txt ->
  fst (next d s) = t /\ fresh (snd (next d s)) txt /\ src (snd (next d s)) = src s.
Proof.
  intros d s t txt [Hk [[lx' [He [Hp [Hl [Hr Hx]]]]]|[He [Hp [Hl Hx]]]]].
  - unfold next. rewrite He, Hp, Hl. cbn [N.eqb negb andb]. rewrite Hr. cbv zeta. rewrite Hk. cbn.
    split; [reflexivity|]. split; [|reflexivity]. unfold fresh. cbn. repeat split; assumption.
  - unfold next. rewrite He, Hp. unfold next_peeked. rewrite Hl. cbn [N.eqb negb andb]. cbn.
    split; [reflexivity|]. split; [|reflexivity]. unfold fresh. cbn. repeat split; assumption.
Qed.

Lemma holding_sees : forall d s t txt, kind_eqb (tkind t) Comment = false -> holding s t txt -> sees d s t txt.
Proof. intros. split; [assumption|right; assumption]. Qed.

Lemma holding_noerr : forall s t txt, holding s t txt -> has_err s = false.
Proof. intros s t txt H. exact (proj1 H). Qed.
Lemma sees_noerr : forall d s t txt, sees d s t txt -> has_err s = false.
Proof. intros d s t txt [_ [[lx' [H _]]|[H _]]]; exact H. Qed.

(* ---- the derived operations ---- *)
Section Ops.
  Variable d : dev.
  Variable F : nat.

  Lemma run_skip_yes : forall k s t txt, sees d s t txt -> tkind t = k ->
    fst (run d (skip k) F s) = true /\ fresh (snd (run d (skip k) F s)) txt /\ src (snd (run d (skip k) F s)) = src s.
  Proof.
    intros k s t txt H Hk. unfold skip. cbn [run]. rewrite (sees_noerr _ _ _ _ H). cbn [run].
    destruct (peek_sees d s t txt H) as [P1 [P2 P3]]. destruct (peek d s) as [tok s1]. cbn [fst snd] in *. subst tok.
    assert (E : kind_eqb (tkind t) k = true) by (subst k; unfold kind_eqb; apply N.eqb_refl). rewrite E. cbn [run].
    pose proof (holding_sees d s1 t txt (proj1 H) P2) as H1.
    destruct (next_sees d s1 t txt H1) as [N1 [N2 N3]]. destruct (next d s1) as [t2 s2]. cbn [fst snd] in *.
    split; [reflexivity|]. split; [exact N2|congruence].
  Qed.

  Lemma run_skip_no : forall k s t txt, sees d s t txt -> tkind t <> k ->
    fst (run d (skip k) F s) = false /\ holding (snd (run d (skip k) F s)) t txt /\ src (snd (run d (skip k) F s)) = src s.
  Proof.
    intros k s t txt H Hk. unfold skip. cbn [run]. rewrite (sees_noerr _ _ _ _ H). cbn [run].
    destruct (peek_sees d s t txt H) as [P1 [P2 P3]]. destruct (peek d s) as [tok s1]. cbn [fst snd] in *. subst tok.
    assert (E : kind_eqb (tkind t) k = false).
    { unfold kind_eqb. apply N.eqb_neq. intro Hc. apply Hk. destruct (tkind t), k; cbn in Hc; congruence. }
    rewrite E. cbn [run fst snd]. auto.
  Qed.

  Lemma run_expect : forall k s t txt, sees d s t txt -> tkind t = k ->
    fst (run d (expect k) F s) = t /\ fresh (snd (run d (expect k) F s)) txt /\ src (snd (run d (expect k) F s)) = src s.
  Proof.
    intros k s t txt H Hk. unfold expect. cbn [run].
    destruct (peek_sees d s t txt H) as [P1 [P2 P3]]. destruct (peek d s) as [tok s1]. cbn [fst snd] in *. subst tok.
    assert (E : kind_eqb (tkind t) k = true) by (subst k; unfold kind_eqb; apply N.eqb_refl). rewrite E. cbn [run].
    pose proof (holding_sees d s1 t txt (proj1 H) P2) as H1.
    destruct (next_sees d s1 t txt H1) as [N1 [N2 N3]]. destruct (next d s1) as [t2 s2]. cbn [fst snd] in *.
    split; [exact N1|]. split; [exact N2|congruence].
  Qed.

  Lemma run_peekPos : forall s t txt, sees d s t txt ->
    fst (run d peekPos F s) = pos_of_tok (src s) t /\ holding (snd (run d peekPos F s)) t txt /\ src (snd (run d peekPos F s)) = src s.
  Proof.
    intros s t txt H. unfold peekPos. cbn [run]. rewrite (sees_noerr _ _ _ _ H). cbn [run].
    destruct (peek_sees d s t txt H) as [P1 [P2 P3]]. destruct (peek d s) as [tok s1]. cbn [fst snd] in *. subst tok.
    cbn [run fst snd]. rewrite P3. auto.
  Qed.

  Lemma run_parseName : forall s t txt, sees d s t txt -> tkind t = Name ->
    fst (run d parseName F s) = tval t /\ fresh (snd (run d parseName F s)) txt /\ src (snd (run d parseName F s)) = src s.
  Proof.
    intros s t txt H Hk. unfold parseName. cbn [run].
    destruct (run_expect Name s t txt H Hk) as [E1 [E2 E3]]. destruct (run d (expect Name) F s) as [tok s1]. cbn [fst snd] in *. subst tok.
    cbn [run fst snd]. auto.
  Qed.
End Ops.

(* ---- what a fresh state sees in front of a punctuator or a name ---- *)
Lemma fresh_punct : forall d s c k txt, fresh s (c :: txt) -> punct c = Some k -> 33 <= c -> c <> 44 -> c <> 239 ->
  exists t, sees d s t txt /\ tkind t = k /\ tval t = [].
Proof.
  intros d s c k txt [He [Hp [Hl Hr]]] Hk H1 H2 H3.
  exists (mkTok k [] (endR (plx s)) (endR (plx s) + 1)%Z (line (plx s)) (endR (plx s) - lsr (plx s) + 1)%Z).
  split; [|split; reflexivity]. split.
  - destruct k; try reflexivity. exfalso. unfold punct in Hk.
    repeat match type of Hk with (if ?c then _ else _) = _ => destruct c; [discriminate|] end. discriminate.
  - left. eexists. split; [exact He|]. split; [exact Hp|]. split; [exact Hl|].
    unfold readToken. rewrite Hr. rewrite ws_stays by assumption. rewrite Hk. unfold mk_tok. split; reflexivity.
Qed.

Lemma fresh_name : forall d s v txt, fresh s (v ++ txt) -> name_text v -> noname_head txt ->
  exists t, sees d s t txt /\ tkind t = Name /\ tval t = v.
Proof.
  intros d s v txt [He [Hp [Hl Hr]]] Hv Hn.
  pose proof (name_read d v txt (endR (plx s)) (line (plx s)) (lsr (plx s)) Hv Hn) as H.
  exists (mkTok Name v (endR (plx s)) (endR (plx s) + zlen v)%Z (line (plx s)) (endR (plx s) - lsr (plx s) + 1)%Z).
  split; [|split; reflexivity]. split; [reflexivity|]. left. eexists. split; [exact He|]. split; [exact Hp|]. split; [exact Hl|].
  assert (Es : plx s = mkLx (v ++ txt) (endR (plx s)) (line (plx s)) (lsr (plx s))) by (destruct (plx s); cbn in *; subst; reflexivity).
  rewrite Es at 1. rewrite H. unfold mk_tok. split; reflexivity.
Qed.

(* token t is what the lexer reads in front of txt (at some position), leaving txt1 *)
Definition heads (d : dev) (txt : str) (t : token) (txt1 : str) : Prop :=
  exists e ln ls lx', readToken d (mkLx txt e ln ls) = Some (t, None, lx') /\ rest lx' = txt1.
(* a state that stands in front of txt, possibly having looked at its first token already *)
Definition ready (d : dev) (s : pst) (txt : str) : Prop :=
  fresh s txt \/ exists t txt1, holding s t txt1 /\ kind_eqb (tkind t) Comment = false /\ heads d txt t txt1.

Lemma lx_eta : forall l : lx, l = mkLx (rest l) (endR l) (line l) (lsr l).
Proof. destruct l; reflexivity. Qed.

Lemma ready_sees : forall d s txt (P : token -> Prop) txt', ready d s txt ->
  (forall s0, fresh s0 txt -> exists t0, sees d s0 t0 txt' /\ P t0) ->
  exists t0, sees d s t0 txt' /\ P t0.
Proof.
  intros d s txt P txt' [Hf|[t [txt1 [Hh [Hk [e [ln [ls [lx' [Hr Hx]]]]]]]]]] H.
  - exact (H s Hf).
  - set (s0 := mkPst (mkLx txt e ln ls) None None tok0 0 0 0 0).
    assert (Hf0 : fresh s0 txt) by (repeat split).
    destruct (H s0 Hf0) as [t0 [[Hk0 [[lx0 [_ [_ [_ [Hr0 Hx0]]]]]|[_ [Hp0 _]]]] HP]]; [|discriminate].
    cbn [plx s0] in Hr0. rewrite Hr in Hr0. inversion Hr0; subst t0 lx0. rewrite Hx in Hx0. subst txt1.
    exists t. split; [apply holding_sees; [exact Hk|]|exact HP]. rewrite <- Hx0. exact Hh.
Qed.

Lemma ready_punct : forall d s c k txt, ready d s (c :: txt) -> punct c = Some k -> 33 <= c -> c <> 44 -> c <> 239 ->
  exists t, sees d s t txt /\ tkind t = k.
Proof.
  intros d s c k txt Hr Hk H1 H2 H3. apply (ready_sees d s (c :: txt) (fun t => tkind t = k) txt Hr).
  intros s0 Hs0. destruct (fresh_punct d s0 c k txt Hs0 Hk H1 H2 H3) as [t [X [Y Z]]]. exists t. auto.
Qed.

Lemma ready_name : forall d s v txt, ready d s (v ++ txt) -> name_text v -> noname_head txt ->
  exists t, sees d s t txt /\ tkind t = Name /\ tval t = v.
Proof.
  intros d s v txt Hr Hv Hn. apply (ready_sees d s (v ++ txt) (fun t => tkind t = Name /\ tval t = v) txt Hr).
  intros s0 Hs0. destruct (fresh_name d s0 v txt Hs0 Hv Hn) as [t [X [Y Z]]]. exists t. auto.
Qed.

Lemma peek_holding : forall d s t txt, holding s t txt -> peek d s = (t, s).
Proof. intros d s t txt [He [Hp _]]. unfold peek. rewrite He, Hp. reflexivity. Qed.

(* peekPos leaves the parser in front of the same text *)
Lemma ready_peekPos : forall d F s txt t txt', ready d s txt -> sees d s t txt' ->
  ready d (snd (run d peekPos F s)) txt.
Proof.
  intros d F s txt t txt' Hr Hs. unfold peekPos. cbn [run]. rewrite (sees_noerr _ _ _ _ Hs). cbn [run].
  destruct (peek_sees d s t txt' Hs) as [P1 [P2 P3]].
  assert (Hsnd : snd (let '(x, s1) := peek d s in let '(x0, s2) := (src s1, s1) in (pos_of_tok x0 x, s2)) = snd (peek d s))
    by (destruct (peek d s); reflexivity).
  rewrite Hsnd. right. exists t, txt'. split; [exact P2|]. split; [exact (proj1 Hs)|].
  destruct Hr as [[Hf1 [Hf2 [Hf3 Hf4]]]|[t1 [txt1 [Hh [Hk1 Hhd]]]]].
  - destruct Hs as [_ [[lx' [_ [_ [_ [Hrd Hx]]]]]|[_ [Hp _]]]]; [|congruence].
    exists (endR (plx s)), (line (plx s)), (lsr (plx s)), lx'. rewrite <- Hf4, <- lx_eta. auto.
  - destruct Hs as [_ [[lx' [_ [Hp _]]]|[_ [Hp [_ Hx]]]]]; [destruct Hh as [_ [Hp1 _]]; congruence|].
    destruct Hh as [_ [Hp1 [_ Hx1]]]. rewrite Hp in Hp1. inversion Hp1; subst t1. rewrite Hx in Hx1. subst txt1. exact Hhd.
Qed.

(* ---- types ---- *)
Fixpoint erase_type (t : type_) : type_ :=
  match t with
  | NamedT n nn _ => NamedT n nn pos0
  | ListT e nn _ => ListT (erase_type e) nn pos0
  end.
Fixpoint type_names_ok (t : type_) : Prop :=
  match t with NamedT n _ _ => name_text n | ListT e _ _ => type_names_ok e end.
Fixpoint type_depth (t : type_) : nat := match t with NamedT _ _ _ => 1 | ListT e _ _ => S (type_depth e) end.

(* what may follow a type: a proper token (satisfying Q) that is neither `!` nor glued to a name *)
Definition after_type (d : dev) (txt : str) (Q : token -> Prop) (txt' : str) : Prop :=
  noname_head txt /\ (forall tn, Q tn -> tkind tn <> Bang)
  /\ forall s, fresh s txt -> exists tn, sees d s tn txt' /\ Q tn.

(* the optional `!` behind a type *)
Lemma finish_bang : forall d F (nn : bool) s txt Q txt', after_type d txt Q txt' ->
  fresh s ((if nn then [33] else []) ++ txt) ->
  fst (run d (skip Bang) F s) = nn
  /\ (exists tn, sees d (snd (run d (skip Bang) F s)) tn txt' /\ Q tn)
  /\ src (snd (run d (skip Bang) F s)) = src s.
Proof.
  intros d F nn s txt Q txt' [Hnn [Hnb Hafter]] Hs. destruct nn.
  - destruct (fresh_punct d s 33 Bang txt Hs eq_refl) as [tb [Hb [Kb _]]]; [lia|discriminate|discriminate|].
    destruct (run_skip_yes d F Bang s tb txt Hb Kb) as [D1 [D2 D3]].
    split; [exact D1|]. split; [exact (Hafter _ D2)|exact D3].
  - cbn [app] in Hs. destruct (Hafter s Hs) as [tn [Hn HQ]].
    destruct (run_skip_no d F Bang s tn txt' Hn (Hnb tn HQ)) as [D1 [D2 D3]].
    split; [exact D1|]. split; [exists tn; split; [apply holding_sees; [exact (proj1 Hn)|exact D2]|exact HQ]|exact D3].
Qed.

Theorem type_roundtrip : forall d F t, type_names_ok t -> forall fuel s txt Q txt',
  (type_depth t <= fuel)%nat -> ready d s (type_string t ++ txt) -> after_type d txt Q txt' ->
  erase_type (fst (run d (parseTypeReference fuel) F s)) = erase_type t
  /\ (exists tn, sees d (snd (run d (parseTypeReference fuel) F s)) tn txt' /\ Q tn)
  /\ src (snd (run d (parseTypeReference fuel) F s)) = src s.
Proof.
  intros d F. induction t as [n nn p|e IH nn p]; intros Hok fuel s txt Q txt' Hf Hs Hafter;
    (destruct fuel as [|f]; [cbn in Hf; lia|]); cbn [parseTypeReference run].
  - (* a named type *)
    cbn [type_string] in Hs. rewrite <- app_assoc in Hs. cbn [type_names_ok] in Hok.
    assert (Hbang : noname_head ((if nn then [33] else []) ++ txt)) by (destruct nn; [reflexivity|exact (proj1 Hafter)]).
    destruct (ready_name d s n _ Hs Hok Hbang) as [t0 [H0 [K0 V0]]].
    destruct (run_skip_no d F BracketL s t0 _ H0 ltac:(rewrite K0; discriminate)) as [A1 [A2 A3]].
    destruct (run d (skip BracketL) F s) as [b1 s1]. cbn [fst snd] in A1, A2, A3. subst b1. cbv beta iota. cbn [run].
    pose proof (holding_sees d s1 t0 _ (proj1 H0) A2) as H1.
    destruct (run_peekPos d F s1 t0 _ H1) as [B1 [B2 B3]]. destruct (run d peekPos F s1) as [pp s2]. cbn [fst snd] in B1, B2, B3. cbv beta iota. cbn [run].
    pose proof (holding_sees d s2 t0 _ (proj1 H0) B2) as H2.
    destruct (run_parseName d F s2 t0 _ H2 K0) as [C1 [C2 C3]]. destruct (run d parseName F s2) as [nm s3]. cbn [fst snd] in C1, C2, C3. cbv beta iota. cbn [run].
    destruct (finish_bang d F nn s3 txt Q txt' Hafter C2) as [D1 [D2 D3]].
    destruct (run d (skip Bang) F s3) as [b4 s4]. cbn [fst snd] in D1, D2, D3. cbv beta iota.
    cbn [run fst snd erase_type]. split; [congruence|]. split; [exact D2|congruence].
  - (* a list type *)
    cbn [type_string] in Hs. cbn [app] in Hs. cbn [type_names_ok] in Hok. cbn [type_depth] in Hf.
    destruct (ready_punct d s 91 BracketL _ Hs eq_refl) as [tl [Hl Kl]]; [lia|discriminate|discriminate|].
    destruct (run_skip_yes d F BracketL s tl _ Hl Kl) as [A1 [A2 A3]].
    destruct (run d (skip BracketL) F s) as [b1 s1]. cbn [fst snd] in A1, A2, A3. subst b1. cbv beta iota. cbn [run].
    rewrite <- app_assoc in A2. cbn [app] in A2.
    set (tail := (if nn then [33] else []) ++ txt) in *.
    (* the position of the element type, then the element type followed by `]` *)
    assert (Hin : after_type d (93 :: tail) (fun tc => tkind tc = BracketR) tail).
    { split; [reflexivity|]. split; [intros tn E; rewrite E; discriminate|].
      intros s0 Hs0. destruct (fresh_punct d s0 93 BracketR tail Hs0 eq_refl) as [tc [Hc [Kc _]]]; [lia|discriminate|discriminate|].
      exists tc. split; assumption. }
    (* peekPos looks at the first token of the element type without consuming it *)
    assert (Hr1 : ready d s1 (type_string e ++ 93 :: tail)) by (left; exact A2).
    assert (Hfirst : exists t1 txt1, sees d s1 t1 txt1).
    { destruct e as [n1 nn1 p1|e1 nn1 p1]; cbn [type_string type_names_ok] in *.
      - rewrite <- app_assoc in Hr1. destruct (ready_name d s1 n1 _ Hr1 Hok) as [t1 [H1 _]]; [destruct nn1; [reflexivity|reflexivity]|].
        eexists; eexists; exact H1.
      - cbn [app] in Hr1. destruct (ready_punct d s1 91 BracketL _ Hr1 eq_refl) as [t1 [H1 _]]; [lia|discriminate|discriminate|].
        eexists; eexists; exact H1. }
    destruct Hfirst as [t1 [txt1 H1]].
    pose proof (ready_peekPos d F s1 _ t1 txt1 Hr1 H1) as Hr2.
    destruct (run_peekPos d F s1 t1 txt1 H1) as [B1 [_ B3]].
    destruct (run d peekPos F s1) as [pp s2]. cbn [fst snd] in B1, B3, Hr2. cbv beta iota. cbn [run].
    destruct (IH Hok f s2 (93 :: tail) (fun tc => tkind tc = BracketR) tail ltac:(lia) Hr2 Hin) as [E1 [[tc [Hc Kc]] E3]].
    destruct (run d (parseTypeReference f) F s2) as [et s3]. cbn [fst snd] in E1, Hc, E3. cbv beta iota. cbn [run].
    destruct (run_expect d F BracketR s3 tc tail Hc Kc) as [G1 [G2 G3]].
    destruct (run d (expect BracketR) F s3) as [tk s4]. cbn [fst snd] in G1, G2, G3. cbv beta iota. cbn [run].
    destruct (finish_bang d F nn s4 txt Q txt' Hafter G2) as [D1 [D2 D3]].
    destruct (run d (skip Bang) F s4) as [b5 s5]. cbn [fst snd] in D1, D2, D3. cbv beta iota.
    cbn [run fst snd erase_type]. split; [congruence|]. split; [exact D2|congruence].
Qed.

(* from a fresh parser on the printed type followed by an end of input or any token that may follow *)
Corollary type_roundtrip_eof : forall d t, type_names_ok t ->
  forall F fuel limit_src input_src,
  (type_depth t <= fuel)%nat -> limit_src = 0%N ->
  erase_type (fst (run d (parseTypeReference fuel) F (pst_init (type_string t) limit_src input_src))) = erase_type t
  /\ has_err (snd (run d (parseTypeReference fuel) F (pst_init (type_string t) limit_src input_src))) = false.
Proof.
  intros d t Hok F fuel L ix Hf ->.
  assert (Hafter : after_type d [] (fun tn => tkind tn = EOF) []).
  { split; [exact I|]. split; [intros tn E; rewrite E; discriminate|].
    intros s [He [Hp [Hl Hr]]].
    exists (mkTok EOF [] (endR (plx s)) (endR (plx s)) (line (plx s)) (endR (plx s) - lsr (plx s) + 1)%Z). split; [|reflexivity].
    split; [reflexivity|]. left. eexists. split; [exact He|]. split; [exact Hp|]. split; [exact Hl|].
    unfold readToken. rewrite Hr. cbn [ws]. unfold mk_tok. split; reflexivity. }
  destruct (type_roundtrip d F t Hok fuel (pst_init (type_string t) 0 ix) [] (fun tn => tkind tn = EOF) [] Hf) as [E1 [[tn [Hs _]] _]].
  - left. rewrite app_nil_r. repeat split.
  - exact Hafter.
  - split; [exact E1|exact (sees_noerr _ _ _ _ Hs)].
Qed.
