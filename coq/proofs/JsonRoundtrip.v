(* JsonRoundtrip.v — decode (encode d) = erase d for every executable document (C19). *)
From GQL.model Require Import Base Lexer Ast Json.
Open Scope Z_scope.

(* what JSON does not carry: positions *)
Fixpoint erase_value (v : value) : value :=
  match v with
  | mkValue k raw ch _ => mkValue k raw (map (fun c => let '(n, _, cv) := c in (n, None, erase_value cv)) ch) pos0
  end.
Fixpoint erase_type (t : type_) : type_ :=
  match t with
  | NamedT n nn _ => NamedT n nn pos0
  | ListT e nn _ => ListT (erase_type e) nn pos0
  end.
Definition erase_arg (a : argument) := mkArg a.(a_name) (erase_value a.(a_value)) pos0.
Definition erase_dir (x : directive) := mkDir x.(d_name) (map erase_arg x.(d_args)) pos0.
Definition erase_vardef (v : vardef) :=
  mkVarDef v.(vd_var) (erase_type v.(vd_type)) (option_map erase_value v.(vd_default)) (map erase_dir v.(vd_dirs)) pos0.
Fixpoint erase_sel (s : selection) : selection :=
  match s with
  | SField al n args dirs sels _ => SField al n (map erase_arg args) (map erase_dir dirs) (map erase_sel sels) pos0
  | SSpread n dirs _ => SSpread n (map erase_dir dirs) pos0
  | SInline tc dirs sels _ => SInline tc (map erase_dir dirs) (map erase_sel sels) pos0
  end.
Definition erase_op (o : opdef) :=
  mkOp o.(o_op) o.(o_name) (map erase_vardef o.(o_vars)) (map erase_dir o.(o_dirs)) (map erase_sel o.(o_sels)) pos0.
Definition erase_frag (f : fragdef) :=
  mkFrag f.(f_name) (map erase_vardef f.(f_vars)) f.(f_typecond) (map erase_dir f.(f_dirs)) (map erase_sel f.(f_sels)) pos0.
Definition erase_qdoc (q : qdoc) := mkQDoc (map erase_op q.(q_ops)) (map erase_frag q.(q_frags)) None.

(* ---------- induction principles for the nested trees ---------- *)
Section ValueInd.
  Variable P : value -> Prop.
  Hypothesis H : forall k raw ch p, Forall (fun c => P (snd c)) ch -> P (mkValue k raw ch p).
  Fixpoint value_ind' (v : value) : P v :=
    match v with
    | mkValue k raw ch p =>
      H k raw ch p ((fix go (l : list (str * option pos * value)) : Forall (fun c => P (snd c)) l :=
                       match l with
                       | [] => Forall_nil _
                       | c :: tl => Forall_cons c (value_ind' (snd c)) (go tl)
                       end) ch)
    end.
End ValueInd.

Section SelInd.
  Variable P : selection -> Prop.
  Hypothesis HF : forall al n args dirs sels p, Forall P sels -> P (SField al n args dirs sels p).
  Hypothesis HS : forall n dirs p, P (SSpread n dirs p).
  Hypothesis HI : forall tc dirs sels p, Forall P sels -> P (SInline tc dirs sels p).
  Fixpoint sel_ind' (s : selection) : P s :=
    let go := fix go (l : list selection) : Forall P l :=
                match l with [] => Forall_nil _ | c :: tl => Forall_cons c (sel_ind' c) (go tl) end in
    match s with
    | SField al n args dirs sels p => HF al n args dirs sels p (go sels)
    | SSpread n dirs p => HS n dirs p
    | SInline tc dirs sels p => HI tc dirs sels p (go sels)
    end.
End SelInd.

(* ---------- depth facts ---------- *)
Lemma fold_max_in : forall (A : Type) (f : A -> nat) l x, In x l ->
  (f x <= fold_right (fun y acc => Nat.max (f y) acc) O l)%nat.
Proof. induction l as [|a l IH]; simpl; intros x Hin; [tauto|]. destruct Hin as [->|Hin]; [lia|]. specialize (IH x Hin). lia. Qed.

Lemma jdepth_arr : forall l x, In x l -> (jdepth x < jdepth (JArr l))%nat.
Proof. intros. cbn [jdepth]. pose proof (fold_max_in _ jdepth l x H). lia. Qed.
Lemma jdepth_obj : forall l k v, In (k, v) l -> (jdepth v < jdepth (JObj l))%nat.
Proof. intros. cbn [jdepth]. pose proof (fold_max_in _ (fun kv : str * jvalue => jdepth (snd kv)) l (k, v) H). simpl in *. lia. Qed.

Lemma mapM_map_Forall : forall (A B C : Type) (g : A -> B) (f : B -> option C) (h : A -> C) l,
  Forall (fun x => f (g x) = Some (h x)) l -> mapM f (map g l) = Some (map h l).
Proof. induction 1; simpl; [reflexivity|]. rewrite H, IHForall. reflexivity. Qed.

Ltac jget_simpl := repeat (cbn [jget]; match goal with |- context [str_eqb ?a ?c] =>
   let r := eval vm_compute in (str_eqb a c) in change (str_eqb a c) with r end; cbv iota).

(* ---------- values ---------- *)
Lemma dec_value_enc : forall v fuel, (jdepth (enc_value v) <= fuel)%nat ->
  dec_value_f fuel (enc_value v) = Some (erase_value v).
Proof.
  induction v as [k raw ch p IH] using value_ind'. intros fuel Hf.
  destruct fuel as [|f]; [cbn [enc_value jdepth] in Hf; lia|].
  cbn [dec_value_f enc_value erase_value]. jget_simpl. cbn [dstr].
  assert (Hk : vkind_of (Z.of_N (vkind_id k)) = Some k) by (destruct k; reflexivity). rewrite Hk.
  destruct ch as [|c0 ch'].
  - reflexivity.
  - remember (c0 :: ch') as chs.
    assert (Hne : match chs with [] => JNull | _ => JArr (map (fun c => let '(n, _, cv) := c in
                     JObj [(b "Name", JStr n); (b "Value", enc_value cv); (b "Comment", JNull)]) chs) end
                  = JArr (map (fun c => let '(n, _, cv) := c in
                     JObj [(b "Name", JStr n); (b "Value", enc_value cv); (b "Comment", JNull)]) chs))
      by (subst chs; reflexivity).
    cbn [enc_value] in Hf. rewrite Hne in *. clear Hne Heqchs.
    erewrite mapM_map_Forall with (h := fun c => let '(n, _, cv) := c in (n, None, erase_value cv)); [reflexivity|].
    rewrite Forall_forall in *. intros [[n op] cv] Hin. jget_simpl. cbn [dstr].
    pose proof (IH _ Hin f) as IHc. simpl snd in IHc. rewrite IHc; [reflexivity|]. clear IHc.
    (* depth: value < child object < array < parent object <= S f *)
    set (cobj := JObj [(b "Name", JStr n); (b "Value", enc_value cv); (b "Comment", JNull)]).
    set (arr := JArr (map (fun c => let '(n, _, cv) := c in
                     JObj [(b "Name", JStr n); (b "Value", enc_value cv); (b "Comment", JNull)]) chs)) in *.
    assert (H1 : (jdepth (enc_value cv) < jdepth cobj)%nat) by (eapply jdepth_obj; simpl; eauto).
    assert (H2 : (jdepth cobj < jdepth arr)%nat).
    { apply jdepth_arr. apply in_map_iff. exists (n, op, cv). split; auto. }
    match type of Hf with (jdepth (JObj ?l) <= _)%nat =>
      assert (H3 : (jdepth arr < jdepth (JObj l))%nat) by (eapply jdepth_obj; simpl; eauto) end.
    lia.
Qed.

Lemma dec_value_ok : forall v, dec_value (enc_value v) = Some (erase_value v).
Proof. intros. apply dec_value_enc. lia. Qed.

(* ---------- types ---------- *)
Lemma dec_type_enc : forall t fuel, (jdepth (enc_type t) <= fuel)%nat ->
  dec_type_f fuel (enc_type t) = Some (erase_type t).
Proof.
  induction t as [n nn p|e IH nn p]; intros fuel Hf; (destruct fuel as [|f]; [cbn [enc_type jdepth] in Hf; lia|]);
    cbn [dec_type_f enc_type erase_type]; jget_simpl; cbn [dstr dbool].
  - reflexivity.
  - assert (He : (jdepth (enc_type e) <= f)%nat).
    { cbn [enc_type] in Hf.
      match type of Hf with (jdepth (JObj ?l) <= _)%nat =>
        assert (H3 : (jdepth (enc_type e) < jdepth (JObj l))%nat) by (eapply jdepth_obj; simpl; eauto) end. lia. }
    destruct (enc_type e) eqn:Ee; try (destruct e; discriminate).
    rewrite <- Ee in *. rewrite (IH f He). reflexivity.
Qed.
Lemma dec_type_ok : forall t, dec_type (enc_type t) = Some (erase_type t).
Proof. intros. apply dec_type_enc. lia. Qed.

(* ---------- lists that encode as null when empty ---------- *)
Lemma dlist_jlist : forall (A B : Type) (enc : A -> jvalue) (dec : jvalue -> option B) (er : A -> B) l,
  (forall x, dec (enc x) = Some (er x)) -> dlist dec (Some (jlist enc l)) = Some (map er l).
Proof.
  intros A B enc dec er l H. destruct l as [|a l]; [reflexivity|].
  unfold jlist, dlist. apply mapM_map_Forall. apply Forall_forall. intros; apply H.
Qed.

Lemma dec_arg_ok : forall a, dec_arg (enc_arg a) = Some (erase_arg a).
Proof.
  intros [n v p]. unfold dec_arg, enc_arg, erase_arg. simpl a_name. simpl a_value. jget_simpl. cbn [dstr].
  rewrite dec_value_ok. reflexivity.
Qed.

Lemma dec_dir_ok : forall x, dec_dir (enc_dir x) = Some (erase_dir x).
Proof.
  intros [n args p]. unfold dec_dir, enc_dir, erase_dir. simpl d_name. simpl d_args. jget_simpl. cbn [dstr].
  rewrite (dlist_jlist _ _ enc_arg dec_arg erase_arg args dec_arg_ok). reflexivity.
Qed.

Lemma dec_vardef_ok : forall v, dec_vardef (enc_vardef v) = Some (erase_vardef v).
Proof.
  intros [n t dv dirs p]. unfold dec_vardef, enc_vardef, erase_vardef.
  simpl vd_var. simpl vd_type. simpl vd_default. simpl vd_dirs. jget_simpl. cbn [dstr].
  rewrite dec_type_ok.
  rewrite (dlist_jlist _ _ enc_dir dec_dir erase_dir dirs dec_dir_ok).
  destruct dv as [v|]; simpl enc_ovalue.
  - rewrite dec_value_ok. destruct (enc_value v) eqn:E; try reflexivity. destruct v; discriminate.
  - reflexivity.
Qed.

(* ---------- selections ---------- *)
Lemma flat_map_dec : forall (f : nat) (l : list selection),
  Forall (fun s => dec_sel f (enc_sel s) = Some (erase_sel s)) l ->
  flat_map (fun x => match dec_sel f x with Some s => [s] | None => [] end) (map enc_sel l) = map erase_sel l.
Proof. induction 1; simpl; [reflexivity|]. rewrite H. simpl. rewrite IHForall. reflexivity. Qed.

Lemma dec_sel_enc : forall s fuel, (jdepth (enc_sel s) <= fuel)%nat ->
  dec_sel fuel (enc_sel s) = Some (erase_sel s).
Proof.
  induction s as [al n args dirs sels p IH|n dirs p|tc dirs sels p IH] using sel_ind'; intros fuel Hf;
    (destruct fuel as [|f]; [cbn [enc_sel jdepth] in Hf; lia|]);
    cbn [dec_sel enc_sel erase_sel]; unfold has_key; jget_simpl; cbn [dstr];
    rewrite ?(dlist_jlist _ _ enc_arg dec_arg erase_arg _ dec_arg_ok),
            ?(dlist_jlist _ _ enc_dir dec_dir erase_dir _ dec_dir_ok); try reflexivity.
  - destruct sels as [|s0 sels']; [reflexivity|]. remember (s0 :: sels') as ss.
    assert (Hne : match ss with [] => JNull | _ => JArr (map enc_sel ss) end = JArr (map enc_sel ss)) by (subst; reflexivity).
    cbn [enc_sel] in Hf. rewrite Hne in *. rewrite flat_map_dec; [reflexivity|].
    rewrite Forall_forall in *. intros x Hin. apply IH; auto.
    assert (H1 : (jdepth (enc_sel x) < jdepth (JArr (map enc_sel ss)))%nat) by (apply jdepth_arr, in_map; auto).
    match type of Hf with (jdepth (JObj ?l) <= _)%nat =>
      assert (H3 : (jdepth (JArr (map enc_sel ss)) < jdepth (JObj l))%nat) by (eapply jdepth_obj; simpl; eauto 10) end.
    lia.
  - destruct sels as [|s0 sels']; [reflexivity|]. remember (s0 :: sels') as ss.
    assert (Hne : match ss with [] => JNull | _ => JArr (map enc_sel ss) end = JArr (map enc_sel ss)) by (subst; reflexivity).
    cbn [enc_sel] in Hf. rewrite Hne in *. rewrite flat_map_dec; [reflexivity|].
    rewrite Forall_forall in *. intros x Hin. apply IH; auto.
    assert (H1 : (jdepth (enc_sel x) < jdepth (JArr (map enc_sel ss)))%nat) by (apply jdepth_arr, in_map; auto).
    match type of Hf with (jdepth (JObj ?l) <= _)%nat =>
      assert (H3 : (jdepth (JArr (map enc_sel ss)) < jdepth (JObj l))%nat) by (eapply jdepth_obj; simpl; eauto 10) end.
    lia.
Qed.

Lemma dec_sels_ok : forall l, dec_sels (Some (enc_sels l)) = Some (map erase_sel l).
Proof.
  intros [|s0 l']; [reflexivity|]. unfold enc_sels, dec_sels. f_equal.
  generalize (s0 :: l'). clear. intro ss. induction ss as [|x ss IH]; [reflexivity|].
  cbn [map flat_map]. rewrite dec_sel_enc by lia. simpl. rewrite IH. reflexivity.
Qed.

Lemma optype_roundtrip : forall o, optype_of (optype_str o) = o.
Proof. destruct o; reflexivity. Qed.

Lemma dec_op_ok : forall o, dec_op (enc_op o) = Some (erase_op o).
Proof.
  intros [op n vars dirs sels p]. unfold dec_op, enc_op, erase_op.
  simpl o_op; simpl o_name; simpl o_vars; simpl o_dirs; simpl o_sels. jget_simpl. cbn [dstr].
  rewrite (dlist_jlist _ _ enc_vardef dec_vardef erase_vardef vars dec_vardef_ok).
  rewrite (dlist_jlist _ _ enc_dir dec_dir erase_dir dirs dec_dir_ok).
  rewrite dec_sels_ok, optype_roundtrip. reflexivity.
Qed.

Lemma dec_frag_ok : forall f, dec_frag (enc_frag f) = Some (erase_frag f).
Proof.
  intros [n vars tc dirs sels p]. unfold dec_frag, enc_frag, erase_frag.
  simpl f_name; simpl f_vars; simpl f_typecond; simpl f_dirs; simpl f_sels. jget_simpl. cbn [dstr].
  rewrite (dlist_jlist _ _ enc_vardef dec_vardef erase_vardef vars dec_vardef_ok).
  rewrite (dlist_jlist _ _ enc_dir dec_dir erase_dir dirs dec_dir_ok).
  rewrite dec_sels_ok. reflexivity.
Qed.

Theorem json_roundtrip : forall q, dec_qdoc (enc_qdoc q) = Some (erase_qdoc q).
Proof.
  intros [ops frags p]. unfold dec_qdoc, enc_qdoc, erase_qdoc. simpl q_ops; simpl q_frags. jget_simpl.
  rewrite (dlist_jlist _ _ enc_op dec_op erase_op ops dec_op_ok).
  rewrite (dlist_jlist _ _ enc_frag dec_frag erase_frag frags dec_frag_ok). reflexivity.
Qed.

(* selections keep their kind at every depth *)
Definition sel_kind (s : selection) : N :=
  match s with SField _ _ _ _ _ _ => 0%N | SSpread _ _ _ => 1%N | SInline _ _ _ _ => 2%N end.
Lemma erase_sel_kind : forall s, sel_kind (erase_sel s) = sel_kind s.
Proof. destruct s; reflexivity. Qed.
