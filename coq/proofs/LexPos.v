(* LexPos.v — every position the lexer reports is the position of that offset in the source:
   the lexer's counters (character offset, line, line start) follow the source text (C04). *)
From Coq Require Import List NArith ZArith Bool Lia.
From GQL.model Require Import Base Utf8 Lexer.
Import ListNotations.
Open Scope Z_scope.

(* width in bytes of the character at the head of l, as Go decodes it (1 for an invalid byte) *)
Definition rwidth (l : str) : nat := snd (decode_rune l).

(* [reach l e ln ls l' e' ln' ls']: reading the text l character by character from offset e on
   line ln whose first character has offset ls, one arrives at the suffix l' with offset e' on line
   ln' starting at ls'.  LF, CR and CRLF end a line (CRLF is two characters, one terminator);
   every other character, multi-byte or not, advances the offset by one. *)
Inductive reach : str -> Z -> Z -> Z -> str -> Z -> Z -> Z -> Prop :=
| R_here : forall l e ln ls, reach l e ln ls l e ln ls
| R_crlf : forall tl e ln ls l' e' ln' ls',
    reach tl (e + 2) (ln + 1) (e + 2) l' e' ln' ls' -> reach (13%N :: 10%N :: tl) e ln ls l' e' ln' ls'
| R_cr : forall tl e ln ls l' e' ln' ls',
    (forall tl', tl <> 10%N :: tl') ->
    reach tl (e + 1) (ln + 1) (e + 1) l' e' ln' ls' -> reach (13%N :: tl) e ln ls l' e' ln' ls'
| R_lf : forall tl e ln ls l' e' ln' ls',
    reach tl (e + 1) (ln + 1) (e + 1) l' e' ln' ls' -> reach (10%N :: tl) e ln ls l' e' ln' ls'
| R_char : forall c tl e ln ls l' e' ln' ls',
    c <> 10%N -> c <> 13%N ->
    reach (skipn (rwidth (c :: tl)) (c :: tl)) (e + 1) ln ls l' e' ln' ls' -> reach (c :: tl) e ln ls l' e' ln' ls'.

Lemma reach_trans : forall l e ln ls l1 e1 ln1 ls1 l2 e2 ln2 ls2,
  reach l e ln ls l1 e1 ln1 ls1 -> reach l1 e1 ln1 ls1 l2 e2 ln2 ls2 -> reach l e ln ls l2 e2 ln2 ls2.
Proof.
  intros l e ln ls l1 e1 ln1 ls1 l2 e2 ln2 ls2 H. induction H; intro H2; auto.
  - apply R_crlf. auto.
  - apply R_cr; auto.
  - apply R_lf. auto.
  - apply R_char; auto.
Qed.

(* a one-byte character other than a line terminator *)
Lemma reach_ascii : forall c tl e ln ls l' e' ln' ls',
  (c <? 128)%N = true -> c <> 10%N -> c <> 13%N ->
  reach tl (e + 1) ln ls l' e' ln' ls' -> reach (c :: tl) e ln ls l' e' ln' ls'.
Proof.
  intros c tl e ln ls l' e' ln' ls' Hc H10 H13 H. apply R_char; auto.
  unfold rwidth, decode_rune. rewrite Hc. exact H.
Qed.

Lemma reach_ascii1 : forall c tl e ln ls, (c <? 128)%N = true -> c <> 10%N -> c <> 13%N ->
  reach (c :: tl) e ln ls tl (e + 1) ln ls.
Proof. intros. apply reach_ascii; auto. apply R_here. Qed.

Ltac neq_of_eqb :=
  match goal with
  | H : (?c =? ?k)%N = false |- ?c <> ?k => apply N.eqb_neq; exact H
  end.

(* ---- ignored characters ---- *)
Ltac const_match Hne :=
  match goal with
  | |- context [match ?c with _ => _ end] =>
    is_var c; destruct c as [|?p]; [try reflexivity|]; repeat (match goal with p : positive |- _ => destruct p; try reflexivity end);
    exfalso; eapply Hne; reflexivity
  end.

Lemma head_is_or_not : forall (k : N) (tl : str), (exists tl', tl = k :: tl') \/ (forall tl', tl <> k :: tl').
Proof.
  intros k [|c tl]; [right; intros tl' E; discriminate|].
  destruct (N.eq_dec c k) as [->|Hne]; [left; eexists; reflexivity|right; intros tl' E; inversion E; contradiction].
Qed.

Lemma ws_cr_other : forall d tl e ln ls, (forall tl', tl <> 10%N :: tl') ->
  ws d (13%N :: tl) e ln ls = ws d tl (e + 1) (ln + 1) (e + 1).
Proof.
  intros d tl e ln ls Hne. cbn [ws N.eqb orb Pos.eqb]. destruct tl as [|c tl2]; [reflexivity|].
  assert (Hc : c <> 10%N) by (intro; subst; eapply Hne; reflexivity).
  destruct c as [|p]; [reflexivity|]. repeat (destruct p; try reflexivity). exfalso. apply Hc. reflexivity.
Qed.

Lemma ws_bom_other : forall d tl e ln ls, (forall tl3, tl <> 187%N :: 191%N :: tl3) ->
  ws d (239%N :: tl) e ln ls = (239%N :: tl, e, ln, ls).
Proof.
  intros d tl e ln ls Hne. cbn [ws N.eqb orb Pos.eqb]. destruct tl as [|c2 tl2]; [reflexivity|].
  destruct (N.eq_dec c2 187) as [->|H2].
  - destruct tl2 as [|c3 tl3]; [reflexivity|].
    assert (Hc : c3 <> 191%N) by (intro; subst; eapply Hne; reflexivity).
    destruct c3 as [|p]; [reflexivity|]. repeat (destruct p; try reflexivity). exfalso. apply Hc. reflexivity.
  - destruct c2 as [|p]; [reflexivity|]. repeat (destruct p; try reflexivity). exfalso. apply H2. reflexivity.
Qed.

Lemma ws_reach : forall n l e ln ls l' e' ln' ls', (length l <= n)%nat ->
  ws dev_none l e ln ls = (l', e', ln', ls') -> reach l e ln ls l' e' ln' ls'.
Proof.
  induction n as [|n IH]; intros l e ln ls l' e' ln' ls' Hn H.
  - destruct l; [|cbn in Hn; lia]. cbn in H. inversion H; subst. apply R_here.
  - destruct l as [|c tl]; [cbn in H; inversion H; subst; apply R_here|].
    cbn [length] in Hn.
    destruct ((c =? 9)%N || (c =? 32)%N || (c =? 44)%N) eqn:E1.
    + cbn [ws] in H. rewrite E1 in H. apply reach_ascii; [| | |apply IH; [lia|exact H]].
      * apply orb_true_iff in E1 as [E1|E1]; [apply orb_true_iff in E1 as [E1|E1]|]; apply N.eqb_eq in E1; subst; reflexivity.
      * intro; subst. discriminate.
      * intro; subst. discriminate.
    + destruct (c =? 10)%N eqn:E2.
      * cbn [ws] in H. rewrite E1, E2 in H. apply N.eqb_eq in E2. subst. apply R_lf. apply IH; [lia|exact H].
      * destruct (c =? 13)%N eqn:E3.
        -- apply N.eqb_eq in E3. subst. destruct (head_is_or_not 10 tl) as [[tl' ->]|Hne].
           ++ apply R_crlf. cbn [ws N.eqb orb Pos.eqb dev_none] in H. apply IH; [cbn in Hn; lia|exact H].
           ++ rewrite (ws_cr_other _ _ _ _ _ Hne) in H. apply R_cr; [exact Hne|]. apply IH; [lia|exact H].
        -- destruct (c =? 239)%N eqn:E4.
           ++ apply N.eqb_eq in E4. subst.
              assert (Hb : (exists tl3, tl = 187%N :: 191%N :: tl3) \/ (forall tl3, tl <> 187%N :: 191%N :: tl3)).
              { destruct (head_is_or_not 187 tl) as [[t1 ->]|N1].
                - destruct (head_is_or_not 191 t1) as [[t2 ->]|N2]; [left; eexists; reflexivity|].
                  right. intros tl3 E. inversion E. eapply N2. eassumption.
                - right. intros tl3 E. eapply N1. exact E. }
              destruct Hb as [[tl3 ->]|Hb].
              ** cbn [ws N.eqb orb Pos.eqb] in H. apply R_char; [discriminate|discriminate|].
                 change (rwidth (239%N :: 187%N :: 191%N :: tl3)) with 3%nat. cbn [skipn].
                 apply IH; [cbn in Hn; lia|exact H].
              ** rewrite (ws_bom_other _ _ _ _ _ Hb) in H. inversion H; subst. apply R_here.
           ++ cbn [ws] in H. rewrite E1, E2, E3, E4 in H. inversion H; subst. apply R_here.
Qed.

(* ---- one-byte characters the token readers consume ---- *)
Definition plain (c : N) : Prop := (c <? 128)%N = true /\ c <> 10%N /\ c <> 13%N.

Lemma reach_plain : forall c tl e ln ls l' e' ln' ls', plain c ->
  reach tl (e + 1) ln ls l' e' ln' ls' -> reach (c :: tl) e ln ls l' e' ln' ls'.
Proof. intros c tl e ln ls l' e' ln' ls' [H1 [H2 H3]] H. apply reach_ascii; assumption. Qed.

Lemma in_range_plain : forall lo hi c, (14 <= lo)%N -> (hi < 128)%N -> in_range lo hi c = true -> plain c.
Proof.
  intros lo hi c Hlo Hhi H. unfold in_range in H. apply andb_true_iff in H as [H1 H2].
  apply N.leb_le in H1. apply N.leb_le in H2. split; [apply N.ltb_lt; lia|split; lia].
Qed.

Lemma is_digit_plain : forall c, is_digit c = true -> plain c.
Proof. intros c H. eapply in_range_plain; [| |exact H]; lia. Qed.

Lemma is_name_start_plain : forall c, is_name_start c = true -> plain c.
Proof.
  intros c H. unfold is_name_start, is_letter in H.
  apply orb_true_iff in H as [H|H]; [apply orb_true_iff in H as [H|H]|].
  - eapply in_range_plain; [| |exact H]; lia.
  - eapply in_range_plain; [| |exact H]; lia.
  - apply N.eqb_eq in H. subst. split; [reflexivity|split; discriminate].
Qed.

Lemma is_name_cont_plain : forall c, is_name_cont c = true -> plain c.
Proof.
  intros c H. unfold is_name_cont in H. apply orb_true_iff in H as [H|H];
  [apply is_name_start_plain|apply is_digit_plain]; exact H.
Qed.

Lemma eqb_plain : forall c k, (k <? 128)%N = true -> k <> 10%N -> k <> 13%N -> (c =? k)%N = true -> plain c.
Proof. intros c k H1 H2 H3 E. apply N.eqb_eq in E. subst. split; [assumption|split; assumption]. Qed.

Lemma take_name_reach : forall l a r e ln ls, take_name l = (a, r) -> reach l e ln ls r (e + zlen a) ln ls.
Proof.
  induction l as [|c tl IH]; intros a r e ln ls H; cbn [take_name] in H.
  - inversion H; subst. unfold zlen. cbn. rewrite Z.add_0_r. apply R_here.
  - destruct (is_name_cont c) eqn:E.
    + destruct (take_name tl) as [a0 r0] eqn:Et. inversion H; subst.
      apply reach_plain; [apply is_name_cont_plain; exact E|].
      replace (e + zlen (c :: a0)) with (e + 1 + zlen a0) by (unfold zlen; cbn [length]; lia).
      apply IH. reflexivity.
    + inversion H; subst. unfold zlen. cbn. rewrite Z.add_0_r. apply R_here.
Qed.

Lemma take_digits_reach : forall l a r e ln ls, take_digits l = (a, r) -> reach l e ln ls r (e + zlen a) ln ls.
Proof.
  induction l as [|c tl IH]; intros a r e ln ls H; cbn [take_digits] in H.
  - inversion H; subst. unfold zlen. cbn. rewrite Z.add_0_r. apply R_here.
  - destruct (is_digit c) eqn:E.
    + destruct (take_digits tl) as [a0 r0] eqn:Et. inversion H; subst.
      apply reach_plain; [apply is_digit_plain; exact E|].
      replace (e + zlen (c :: a0)) with (e + 1 + zlen a0) by (unfold zlen; cbn [length]; lia).
      apply IH. reflexivity.
    + inversion H; subst. unfold zlen. cbn. rewrite Z.add_0_r. apply R_here.
Qed.

(* a decoded character above 0x1f or a tab is not a line terminator *)
Lemma decode_not_terminator : forall c tl, (31 <? fst (decode_rune (c :: tl)))%N || (fst (decode_rune (c :: tl)) =? 9)%N = true ->
  c <> 10%N /\ c <> 13%N.
Proof.
  intros c tl H. split; intro; subst; cbn in H; discriminate.
Qed.

Lemma take_comment_reach : forall fuel l body n rst e ln ls,
  take_comment fuel l = (body, n, rst) -> reach l e ln ls rst (e + n) ln ls.
Proof.
  induction fuel as [|f IH]; intros l body n rst e ln ls H; cbn [take_comment] in H.
  - inversion H; subst. rewrite Z.add_0_r. apply R_here.
  - destruct l as [|c tl]; [inversion H; subst; rewrite Z.add_0_r; apply R_here|].
    destruct (decode_rune (c :: tl)) as [r w] eqn:Ed.
    destruct ((31 <? r)%N || (r =? 9)%N) eqn:E.
    + destruct (take_comment f (skipn w (c :: tl))) as [[a n0] rst0] eqn:Et. inversion H; subst.
      assert (Hnt : c <> 10%N /\ c <> 13%N) by (apply (decode_not_terminator c tl); rewrite Ed; exact E).
      destruct Hnt as [H10 H13]. apply R_char; [exact H10|exact H13|].
      unfold rwidth. rewrite Ed. cbn [snd]. replace (e + (n0 + 1)) with (e + 1 + n0) by lia.
      eapply IH. exact Et.
    + inversion H; subst. rewrite Z.add_0_r. apply R_here.
Qed.

(* ---- what one token reader must establish ---- *)
Definition res_ok (l : str) (start ln ls : Z) (r : res) : Prop :=
  let '(t, er, s') := r in
  reach l start ln ls (rest s') (endR s') (line s') (lsr s')
  /\ match er with
     | None => tstart t = start /\ tline t = ln /\ tcol t = start - ls + 1
     | Some x => eline x = line s' /\ ecol x = endR s' - lsr s' + 1
     end.

Lemma mk_tok_ok : forall k v l l' start e ln ls,
  reach l start ln ls l' e ln ls -> res_ok l start ln ls (mk_tok k v l' start e ln ls).
Proof. intros. unfold res_ok, mk_tok. cbn. split; [assumption|repeat split]. Qed.

Lemma mk_err_ok : forall l l' start tstart e ln0 ls0 ln ls cls,
  reach l start ln0 ls0 l' e ln ls -> res_ok l start ln0 ls0 (mk_err l' tstart e ln ls cls).
Proof. intros. unfold res_ok, mk_err. cbn. split; [assumption|split; reflexivity]. Qed.

Lemma accept1_reach : forall c l bb l' e ln ls, plain c -> accept1 c l = (bb, l') ->
  reach l e ln ls l' (if bb then e + 1 else e) ln ls.
Proof.
  intros c l bb l' e ln ls Hp H. unfold accept1 in H. destruct l as [|x tl]; [inversion H; subst; apply R_here|].
  destruct (x =? c)%N eqn:E; inversion H; subst; [|apply R_here].
  apply N.eqb_eq in E. subst. apply reach_plain; [exact Hp|apply R_here].
Qed.

Lemma accept2_reach : forall c1 c2 l o l' e ln ls, plain c1 -> plain c2 -> accept2 c1 c2 l = (o, l') ->
  reach l e ln ls l' (match o with Some _ => e + 1 | None => e end) ln ls.
Proof.
  intros c1 c2 l o l' e ln ls H1 H2 H. unfold accept2 in H. destruct l as [|x tl]; [inversion H; subst; apply R_here|].
  destruct ((x =? c1)%N || (x =? c2)%N) eqn:E; inversion H; subst; [|apply R_here].
  apply reach_plain; [|apply R_here].
  apply orb_true_iff in E as [E|E]; apply N.eqb_eq in E; subst; assumption.
Qed.

Lemma plain_const : forall k, (k <? 128)%N = true -> (k =? 10)%N = false -> (k =? 13)%N = false -> plain k.
Proof. intros k H1 H2 H3. split; [exact H1|split; apply N.eqb_neq; assumption]. Qed.

Lemma readNumber_ok_gen : forall d l start ln ls, res_ok l start ln ls (readNumber d l start ln ls).
Proof.
  intros d l start ln ls. unfold readNumber.
  destruct (accept1 45 l) as [neg l1] eqn:A1.
  pose proof (accept1_reach 45 l neg l1 start ln ls (plain_const 45 eq_refl eq_refl eq_refl) A1) as R1.
  set (e1 := if neg then start + 1 else start) in *.
  destruct (accept1 48 l1) as [z l2] eqn:A2.
  pose proof (accept1_reach 48 l1 z l2 e1 ln ls (plain_const 48 eq_refl eq_refl eq_refl) A2) as R2.
  pose proof (reach_trans _ _ _ _ _ _ _ _ _ _ _ _ R1 R2) as R12.
  (* integer part *)
  assert (Hint : match (if z
                        then let '(ds, l3) := take_digits l2 in
                             match ds with
                             | [] => inl ((if neg then [45%N] else []) ++ [48%N], l2, e1 + 1)
                             | _ => inr (mk_err l2 start (e1 + 1) ln ls 10)
                             end
                        else let '(ds, l3) := take_digits l1 in
                             match ds with
                             | [] => inr (mk_err l1 start e1 ln ls 11)
                             | _ => inl ((if neg then [45%N] else []) ++ ds, l3, e1 + zlen ds)
                             end) with
                 | inr r => res_ok l start ln ls r
                 | inl (v1, l3, e3) => reach l start ln ls l3 e3 ln ls
                 end).
  { destruct z.
    - destruct (take_digits l2) as [ds l3]. destruct ds; [exact R12|apply mk_err_ok; exact R12].
    - assert (l2 = l1 /\ (if false then e1 + 1 else e1) = e1) as [-> _]
        by (unfold accept1 in A2; destruct l1 as [|x t]; [inversion A2; auto|destruct (x =? 48)%N; inversion A2; auto]).
      destruct (take_digits l1) as [ds l3] eqn:T. destruct ds as [|d0 ds'].
      + apply mk_err_ok. exact R1.
      + eapply reach_trans; [exact R1|]. apply take_digits_reach. exact T. }
  match goal with |- res_ok _ _ _ _ (match ?I with _ => _ end) => destruct I as [[[v1 l3] e3]|r] end; [|exact Hint].
  (* fraction *)
  destruct (accept1 46 l3) as [dot l4] eqn:A3.
  pose proof (accept1_reach 46 l3 dot l4 e3 ln ls (plain_const 46 eq_refl eq_refl eq_refl) A3) as R3.
  assert (Hfrac : match (if dot
                         then let '(ds, l5) := take_digits l4 in
                              match ds with
                              | [] => inr (mk_err l4 start (e3 + 1) ln ls 11)
                              | _ => inl (v1 ++ 46%N :: ds, l5, e3 + 1 + zlen ds, true)
                              end
                         else inl (v1, l3, e3, false)) with
                  | inr r => res_ok l start ln ls r
                  | inl (v2, l5, e5, fl) => reach l start ln ls l5 e5 ln ls
                  end).
  { destruct dot.
    - destruct (take_digits l4) as [ds l5] eqn:T. destruct ds as [|d0 ds'].
      + apply mk_err_ok. eapply reach_trans; [exact Hint|exact R3].
      + eapply reach_trans; [exact Hint|]. eapply reach_trans; [exact R3|]. apply take_digits_reach. exact T.
    - exact Hint. }
  match goal with |- res_ok _ _ _ _ (match ?I with _ => _ end) => destruct I as [[[[v2 l5] e5] fl]|r] end; [|exact Hfrac].
  (* exponent *)
  destruct (accept2 101 69 l5) as [ex l6] eqn:A4.
  pose proof (accept2_reach 101 69 l5 ex l6 e5 ln ls (plain_const 101 eq_refl eq_refl eq_refl) (plain_const 69 eq_refl eq_refl eq_refl) A4) as R4.
  assert (Hexp : match (match ex with
                        | Some ec =>
                          let '(sg, l7) := accept2 45 43 l6 in
                          let e7 := match sg with Some _ => e5 + 2 | None => e5 + 1 end in
                          let '(ds, l8) := take_digits l7 in
                          match ds with
                          | [] => inr (mk_err l7 start e7 ln ls 11)
                          | _ => inl (v2 ++ ec :: opt_cons sg ds, l8, e7 + zlen ds, true)
                          end
                        | None => inl (v2, l5, e5, fl)
                        end) with
                 | inr r => res_ok l start ln ls r
                 | inl (v3, l8, e8, fl3) => reach l start ln ls l8 e8 ln ls
                 end).
  { destruct ex as [ec|]; [|exact Hfrac].
    destruct (accept2 45 43 l6) as [sg l7] eqn:A5.
    pose proof (accept2_reach 45 43 l6 sg l7 (e5 + 1) ln ls (plain_const 45 eq_refl eq_refl eq_refl) (plain_const 43 eq_refl eq_refl eq_refl) A5) as R5.
    assert (R7 : reach l start ln ls l7 (match sg with Some _ => e5 + 2 | None => e5 + 1 end) ln ls).
    { eapply reach_trans; [exact Hfrac|]. eapply reach_trans; [exact R4|].
      destruct sg; [replace (e5 + 2) with (e5 + 1 + 1) by lia|]; exact R5. }
    destruct (take_digits l7) as [ds l8] eqn:T. destruct ds as [|d0 ds'].
    - apply mk_err_ok. exact R7.
    - eapply reach_trans; [exact R7|]. apply take_digits_reach. exact T. }
  match goal with |- res_ok _ _ _ _ (match ?I with _ => _ end) => destruct I as [[[[v3 l8] e8] fl3]|r] end; [|exact Hexp].
  match goal with |- res_ok _ _ _ _ (if ?c then _ else _) => destruct c end;
  [apply mk_err_ok|apply mk_tok_ok]; exact Hexp.
Qed.

Lemma readNumber_ok : forall l start ln ls, res_ok l start ln ls (readNumber dev_none l start ln ls).
Proof. intros. apply readNumber_ok_gen. Qed.

Lemma reach_len : forall l e ln ls l' e' ln' ls', reach l e ln ls l' e' ln' ls' -> (length l' <= length l)%nat.
Proof.
  intros l e ln ls l' e' ln' ls' H. induction H; cbn [length] in *; try lia.
  rewrite skipn_length in IHreach. cbn [length] in IHreach. lia.
Qed.


(* ---- strings ---- *)
Lemma hexval_plain : forall c x, hexval c = Some x -> plain c.
Proof.
  intros c x H. unfold hexval in H. destruct (is_digit c) eqn:E1; [apply is_digit_plain; exact E1|].
  destruct (in_range 97 102 c) eqn:E2; [eapply in_range_plain; [| |exact E2]; lia|].
  destruct (in_range 65 70 c) eqn:E3; [eapply in_range_plain; [| |exact E3]; lia|discriminate].
Qed.

Lemma unhex4_plain : forall a c e f x, unhex4 a c e f = Some x -> plain a /\ plain c /\ plain e /\ plain f.
Proof.
  intros a c e f x H. unfold unhex4 in H.
  destruct (hexval a) eqn:Ha; [|discriminate]. destruct (hexval c) eqn:Hc; [|discriminate].
  destruct (hexval e) eqn:He; [|discriminate]. destruct (hexval f) eqn:Hf; [|discriminate].
  repeat split; eapply hexval_plain; eassumption.
Qed.

Lemma readString_loop_ok : forall fuel l raw buf start e ln ls r l0,
  readString_loop dev_none fuel l raw buf start e ln ls = Some r ->
  reach l0 start ln ls l e ln ls -> res_ok l0 start ln ls r.
Proof.
  induction fuel as [|f IH]; intros l raw buf start e ln ls r l0 H R; [discriminate|].
  cbn [readString_loop] in H. destruct l as [|c tl].
  - inversion H; subst. apply mk_err_ok. exact R.
  - destruct ((c =? 10)%N || (c =? 13)%N) eqn:E1; [inversion H; subst; apply mk_err_ok; exact R|].
    apply orb_false_iff in E1 as [E10 E13]. apply N.eqb_neq in E10. apply N.eqb_neq in E13.
    destruct ((c <? 32)%N && negb (c =? 9)%N) eqn:E2; [inversion H; subst; apply mk_err_ok; exact R|].
    destruct (c =? 34)%N eqn:E3.
    + (* closing quote *)
      inversion H; subst. apply N.eqb_eq in E3. subst. unfold res_ok. cbn [rest endR line lsr dev_none tstart tline tcol].
      split; [|repeat split].
      eapply reach_trans; [exact R|]. apply reach_ascii1; [reflexivity|discriminate|discriminate].
    + destruct (c =? 92)%N eqn:E4.
      * apply N.eqb_eq in E4. subst c.
        assert (R1 : reach l0 start ln ls tl (e + 1) ln ls)
          by (eapply reach_trans; [exact R|apply reach_ascii1; [reflexivity|discriminate|discriminate]]).
        destruct tl as [|esc tl2]; [inversion H; subst; apply mk_err_ok; exact R1|].
        destruct (esc =? 117)%N eqn:E5.
        -- apply N.eqb_eq in E5. subst esc.
           destruct tl2 as [|h1 [|h2 [|h3 [|h4 [|c6 tl7]]]]]; try (inversion H; subst; apply mk_err_ok; exact R1).
           destruct (unhex4 h1 h2 h3 h4) as [rn|] eqn:Eu; [|inversion H; subst; apply mk_err_ok; exact R1].
           destruct (unhex4_plain _ _ _ _ _ Eu) as [P1 [P2 [P3 P4]]].
           eapply IH; [exact H|]. eapply reach_trans; [exact R1|].
           apply reach_ascii; [reflexivity|discriminate|discriminate|].
           apply reach_plain; [exact P1|]. apply reach_plain; [exact P2|]. apply reach_plain; [exact P3|].
           apply reach_plain; [exact P4|].
           replace (e + 1 + 1 + 1 + 1 + 1 + 1) with (e + 6) by lia. apply R_here.
        -- match type of H with context [match ?O with Some _ => _ | None => _ end] => destruct O as [oc|] eqn:Eo end;
             [|inversion H; subst; apply mk_err_ok; exact R1].
           assert (Pe : plain esc).
           { destruct ((esc =? 34)%N || (esc =? 47)%N || (esc =? 92)%N) eqn:Q1.
             - apply orb_true_iff in Q1 as [Q1|Q1]; [apply orb_true_iff in Q1 as [Q1|Q1]|]; apply N.eqb_eq in Q1; subst;
                 (split; [reflexivity|split; discriminate]).
             - destruct (esc =? 98)%N eqn:Q2; [apply N.eqb_eq in Q2; subst; split; [reflexivity|split; discriminate]|].
               destruct (esc =? 102)%N eqn:Q3; [apply N.eqb_eq in Q3; subst; split; [reflexivity|split; discriminate]|].
               destruct (esc =? 110)%N eqn:Q4; [apply N.eqb_eq in Q4; subst; split; [reflexivity|split; discriminate]|].
               destruct (esc =? 114)%N eqn:Q5; [apply N.eqb_eq in Q5; subst; split; [reflexivity|split; discriminate]|].
               destruct (esc =? 116)%N eqn:Q6; [apply N.eqb_eq in Q6; subst; split; [reflexivity|split; discriminate]|].
               discriminate. }
           eapply IH; [exact H|]. eapply reach_trans; [exact R1|].
           apply reach_plain; [exact Pe|]. replace (e + 1 + 1) with (e + 2) by lia. apply R_here.
      * (* an ordinary character *)
        assert (Hw : snd (if (c <? 127)%N then (c, 1%nat) else decode_rune (c :: tl)) = rwidth (c :: tl)).
        { destruct (c <? 127)%N eqn:E6; [|reflexivity]. unfold rwidth, decode_rune.
          assert (Hc : (c <? 128)%N = true) by (apply N.ltb_lt; apply N.ltb_lt in E6; lia). rewrite Hc. reflexivity. }
        destruct (if (c <? 127)%N then (c, 1%nat) else decode_rune (c :: tl)) as [ch w] eqn:Ew.
        cbn [snd] in Hw. rename Hw into Hw'.
        eapply IH; [exact H|]. eapply reach_trans; [exact R|].
        apply R_char; [exact E10|exact E13|]. rewrite <- Hw'. apply R_here.
Qed.

(* ---- block strings ---- *)
Lemma count_quotes_three : forall l qc after, count_quotes l = (qc, after) -> (3 <=? qc)%nat = true ->
  exists l3, l = 34%N :: 34%N :: 34%N :: l3.
Proof.
  intros l qc after H Hq. apply Nat.leb_le in Hq.
  assert (Hc : forall l qc after, count_quotes l = (qc, after) -> (1 <= qc)%nat -> exists t, l = 34%N :: t /\ exists a, count_quotes t = (pred qc, a)).
  { clear. intros l qc after H Hq. destruct l as [|c t]; [cbn in H; inversion H; subst; lia|].
    destruct (N.eq_dec c 34) as [->|Hne].
    - cbn [count_quotes] in H. destruct (count_quotes t) as [n r] eqn:E. inversion H; subst. exists t. split; [reflexivity|]. eexists. cbn [pred]. exact E.
    - exfalso. assert (count_quotes (c :: t) = (O, c :: t)).
      { destruct c as [|p]; [reflexivity|]. repeat (destruct p; try reflexivity). exfalso. apply Hne. reflexivity. }
      rewrite H0 in H. inversion H; subst. lia. }
  destruct (Hc _ _ _ H ltac:(lia)) as [t1 [-> [a1 H1]]].
  destruct (Hc _ _ _ H1 ltac:(lia)) as [t2 [-> [a2 H2]]].
  destruct (Hc _ _ _ H2 ltac:(lia)) as [t3 [-> _]].
  exists t3. reflexivity.
Qed.

Lemma readBlock_loop_ok : forall fuel l buf start e ln ls sl sls r l0,
  readBlock_loop dev_none fuel l buf start e ln ls sl sls = Some r ->
  reach l0 start sl sls l e ln ls -> res_ok l0 start sl sls r.
Proof.
  induction fuel as [|f IH]; intros l buf start e ln ls sl sls r l0 H R; [discriminate|].
  cbn [readBlock_loop] in H. destruct l as [|c tl].
  { inversion H; subst. apply mk_err_ok. exact R. }
  destruct (count_quotes (c :: tl)) as [qc after] eqn:Eq.
  destruct (3 <=? qc)%nat eqn:E3.
  { destruct (count_quotes_three _ _ _ Eq E3) as [l3 El]. rewrite El in *.
    inversion H; subst. unfold res_ok. cbn [rest endR line lsr dev_none tstart tline tcol skipn].
    split; [|repeat split].
    eapply reach_trans; [exact R|].
    apply reach_ascii; [reflexivity|discriminate|discriminate|].
    apply reach_ascii; [reflexivity|discriminate|discriminate|].
    apply reach_ascii; [reflexivity|discriminate|discriminate|].
    replace (e + 1 + 1 + 1) with (e + 3) by lia. apply R_here. }
  match type of H with context [if ?cnd then Some _ else _] => destruct cnd end.
  { inversion H; subst. apply mk_err_ok. exact R. }
  (* the four ways one step continues *)
  assert (Hw : snd (if (c <? 127)%N then (c, 1%nat) else decode_rune (c :: tl)) = rwidth (c :: tl)).
  { destruct (c <? 127)%N eqn:E6; [|reflexivity]. unfold rwidth, decode_rune.
    assert (Hc : (c <? 128)%N = true) by (apply N.ltb_lt; apply N.ltb_lt in E6; lia). rewrite Hc. reflexivity. }
  destruct (if (c <? 127)%N then (c, 1%nat) else decode_rune (c :: tl)) as [ch w] eqn:Ew. cbn [snd] in Hw.
  assert (Hdef : forall buf', c <> 13%N ->
            readBlock_loop dev_none f (skipn w (c :: tl)) buf' start (e + 1)
              (if (c =? 10)%N then ln + 1 else ln) (if (c =? 10)%N then e + 1 else ls) sl sls = Some r ->
            res_ok l0 start sl sls r).
  { intros buf' H13 H'. eapply IH; [exact H'|]. eapply reach_trans; [exact R|].
    destruct (c =? 10)%N eqn:E10.
    - apply N.eqb_eq in E10. subst c. rewrite Hw. unfold rwidth. cbn. apply R_lf. apply R_here.
    - apply N.eqb_neq in E10. apply R_char; [exact E10|exact H13|]. rewrite <- Hw. apply R_here. }
  assert (Hcrlf : forall tl2 buf', c :: tl = 13%N :: 10%N :: tl2 ->
            readBlock_loop dev_none f tl2 buf' start (e + 2) (ln + 1) (e + 2) sl sls = Some r -> res_ok l0 start sl sls r).
  { intros tl2 buf' El H'. rewrite El in R. eapply IH; [exact H'|]. eapply reach_trans; [exact R|]. apply R_crlf. apply R_here. }
  assert (Hcr : forall tl1 buf', c :: tl = 13%N :: tl1 -> (forall t, tl1 <> 10%N :: t) ->
            readBlock_loop dev_none f tl1 buf' start (e + 1) (ln + 1) (e + 1) sl sls = Some r -> res_ok l0 start sl sls r).
  { intros tl1 buf' El Hne H'. rewrite El in R. eapply IH; [exact H'|]. eapply reach_trans; [exact R|]. apply R_cr; [exact Hne|]. apply R_here. }
  assert (Hesc : forall tl4 buf', c :: tl = 92%N :: 34%N :: 34%N :: 34%N :: tl4 ->
            readBlock_loop dev_none f tl4 buf' start (e + 4) ln ls sl sls = Some r -> res_ok l0 start sl sls r).
  { intros tl4 buf' El H'. rewrite El in R. eapply IH; [exact H'|]. eapply reach_trans; [exact R|].
    apply reach_ascii; [reflexivity|discriminate|discriminate|].
    apply reach_ascii; [reflexivity|discriminate|discriminate|].
    apply reach_ascii; [reflexivity|discriminate|discriminate|].
    apply reach_ascii; [reflexivity|discriminate|discriminate|].
    replace (e + 1 + 1 + 1 + 1) with (e + 4) by lia. apply R_here. }
  clear IH R Eq E3 Hw Ew.
  Ltac close_leaf H Hdef Hcrlf Hcr Hesc :=
    first [ eapply Hdef; [discriminate|exact H]
          | eapply Hcrlf; [reflexivity|exact H]
          | eapply Hcr; [reflexivity|intros t Et; discriminate Et|exact H]
          | eapply Hesc; [reflexivity|exact H] ].
  destruct c as [|p]; [close_leaf H Hdef Hcrlf Hcr Hesc|].
  repeat (destruct p as [p|p|]; try (close_leaf H Hdef Hcrlf Hcr Hesc; fail));
    destruct tl as [|c1 tl1]; try (close_leaf H Hdef Hcrlf Hcr Hesc; fail);
    repeat match type of H with
    | context [match ?x with _ => _ end] =>
        match x with
        | N0 => fail 1
        | _ => destruct x; try (close_leaf H Hdef Hcrlf Hcr Hesc; fail)
        end
    end.
Qed.

(* ---- one ReadToken call ---- *)
Lemma punct_plain : forall c k, punct c = Some k -> plain c.
Proof.
  intros c k H. unfold punct in H.
  repeat match type of H with
         | (if (c =? ?n)%N then _ else _) = _ =>
           let E := fresh "E" in
           destruct (c =? n)%N eqn:E; [apply N.eqb_eq in E; subst; split; [reflexivity|split; discriminate]|]
         end.
  discriminate.
Qed.

Definition tok_ok (s : lx) (r : res) : Prop :=
  let '(t, er, s') := r in
  reach (rest s) (endR s) (line s) (lsr s) (rest s') (endR s') (line s') (lsr s')
  /\ match er with
     | None => exists lt, reach (rest s) (endR s) (line s) (lsr s) lt (tstart t) (tline t) (tstart t - tcol t + 1)
     | Some x => eline x = line s' /\ ecol x = endR s' - lsr s' + 1
     end.

Lemma res_ok_tok_ok : forall s l e ln ls r,
  reach (rest s) (endR s) (line s) (lsr s) l e ln ls -> res_ok l e ln ls r -> tok_ok s r.
Proof.
  intros s l e ln ls [[t er] s'] R [R2 H]. unfold tok_ok. split; [eapply reach_trans; eassumption|].
  destruct er as [x|]; [exact H|]. destruct H as [H1 [H2 H3]]. exists l.
  rewrite H1, H2, H3. replace (e - (e - ls + 1) + 1) with ls by lia. exact R.
Qed.

Lemma readToken_ok : forall s r, readToken dev_none s = Some r -> tok_ok s r.
Proof.
  intros s r H. unfold readToken in H.
  destruct (ws dev_none (rest s) (endR s) (line s) (lsr s)) as [[[l e] ln] ls] eqn:Ew.
  pose proof (ws_reach (length (rest s)) _ _ _ _ _ _ _ _ (le_n _) Ew) as Rw.
  assert (Hres : forall r0, res_ok l e ln ls r0 -> tok_ok s r0) by (intros; eapply res_ok_tok_ok; eassumption).
  destruct l as [|c tl].
  { inversion H; subst. apply Hres. apply mk_tok_ok. apply R_here. }
  destruct (punct c) as [k|] eqn:Ep.
  { inversion H; subst. apply Hres. apply mk_tok_ok. apply reach_plain; [eapply punct_plain; exact Ep|apply R_here]. }
  destruct (c =? 46)%N eqn:E46.
  { apply N.eqb_eq in E46. subst c.
    assert (Herr : tok_ok s (mk_err (46%N :: tl) e e ln ls 1)) by (apply Hres; apply mk_err_ok; apply R_here).
    assert (Hsp : forall tl3, tl = 46%N :: 46%N :: tl3 -> tok_ok s (mk_tok Spread [] tl3 e (e + 3) ln ls)).
    { intros tl3 ->. apply Hres. apply mk_tok_ok.
      apply reach_ascii; [reflexivity|discriminate|discriminate|].
      apply reach_ascii; [reflexivity|discriminate|discriminate|].
      apply reach_ascii; [reflexivity|discriminate|discriminate|].
      replace (e + 1 + 1 + 1) with (e + 3) by lia. apply R_here. }
    destruct tl as [|c1 tl1]; [inversion H; subst; exact Herr|]. destruct c1 as [|p]; [inversion H; subst; exact Herr|].
    repeat (destruct p as [p|p|]; try (inversion H; subst; exact Herr)).
    destruct tl1 as [|c2 tl2]; [inversion H; subst; exact Herr|]. destruct c2 as [|p]; [inversion H; subst; exact Herr|].
    repeat (destruct p as [p|p|]; try (inversion H; subst; exact Herr)).
    inversion H; subst. apply Hsp. reflexivity. }
  destruct (c =? 35)%N eqn:E35.
  { apply N.eqb_eq in E35. subst c.
    destruct (take_comment (length tl) tl) as [[body n] rst] eqn:Ec. inversion H; subst.
    apply Hres. apply mk_tok_ok. apply reach_ascii; [reflexivity|discriminate|discriminate|].
    replace (e + 1 + n) with (e + 1 + n) by lia. eapply take_comment_reach. exact Ec. }
  destruct (is_name_start c) eqn:En.
  { destruct (take_name tl) as [body rst] eqn:Et. inversion H; subst.
    apply Hres. apply mk_tok_ok. apply reach_plain; [apply is_name_start_plain; exact En|].
    apply take_name_reach. exact Et. }
  destruct ((c =? 45)%N || is_digit c) eqn:Ed.
  { inversion H; subst. apply Hres. apply readNumber_ok. }
  destruct (c =? 34)%N eqn:E34.
  { apply N.eqb_eq in E34. subst c.
    assert (R1 : reach (34%N :: tl) e ln ls tl (e + 1) ln ls) by (apply reach_ascii1; [reflexivity|discriminate|discriminate]).
    assert (Hs : forall r0, readString_loop dev_none (S (length tl)) tl [] None e (e + 1) ln ls = Some r0 -> tok_ok s r0).
    { intros r0 H0. apply Hres. eapply readString_loop_ok; [exact H0|exact R1]. }
    assert (Hb : forall tl3 r0, tl = 34%N :: 34%N :: tl3 ->
                 readBlock_loop dev_none (S (length tl3)) tl3 [] e (e + 3) ln ls ln ls = Some r0 -> tok_ok s r0).
    { intros tl3 r0 -> H0. apply Hres. eapply readBlock_loop_ok; [exact H0|].
      apply reach_ascii; [reflexivity|discriminate|discriminate|].
      apply reach_ascii; [reflexivity|discriminate|discriminate|].
      apply reach_ascii; [reflexivity|discriminate|discriminate|].
      replace (e + 1 + 1 + 1) with (e + 3) by lia. apply R_here. }
    destruct tl as [|c1 tl1]; [apply Hs; exact H|]. destruct c1 as [|p]; [apply Hs; exact H|].
    repeat (destruct p as [p|p|]; try (apply Hs; exact H)).
    destruct tl1 as [|c2 tl2]; [apply Hs; exact H|]. destruct c2 as [|p]; [apply Hs; exact H|].
    repeat (destruct p as [p|p|]; try (apply Hs; exact H)).
    eapply Hb; [reflexivity|exact H]. }
  assert (Herr : forall cls, tok_ok s (mk_err (c :: tl) e e ln ls cls)) by (intro; apply Hres; apply mk_err_ok; apply R_here).
  repeat match type of H with (if ?cnd then _ else _) = _ => destruct cnd end; inversion H; subst; apply Herr.
Qed.

(* ---- the whole token stream ---- *)
Definition pos_ok (input : str) (off ln col : Z) : Prop :=
  exists l, reach input 0 1 0 l off ln (off - col + 1).

Lemma lex_all_positions : forall input fuel s ts er,
  reach input 0 1 0 (rest s) (endR s) (line s) (lsr s) ->
  lex_all dev_none fuel s = Some (ts, er) ->
  Forall (fun t => pos_ok input (tstart t) (tline t) (tcol t)) ts
  /\ match er with
     | Some x => exists off, pos_ok input off (eline x) (ecol x)
     | None => True
     end.
Proof.
  intros input. induction fuel as [|f IH]; intros s ts er R H; [discriminate|].
  cbn [lex_all] in H. destruct (readToken dev_none s) as [[[t e0] s']|] eqn:Et; [|discriminate].
  pose proof (readToken_ok _ _ Et) as [R' Hp].
  destruct e0 as [x|].
  - inversion H; subst. split; [constructor|]. destruct Hp as [H1 H2].
    exists (endR s'). unfold pos_ok. exists (rest s'). rewrite H1, H2.
    replace (endR s' - (endR s' - lsr s' + 1) + 1) with (lsr s') by lia.
    eapply reach_trans; eassumption.
  - assert (Ht : pos_ok input (tstart t) (tline t) (tcol t)).
    { destruct Hp as [lt Hlt]. exists lt. eapply reach_trans; eassumption. }
    destruct (tkind t) eqn:Ek;
    try (destruct (lex_all dev_none f s') as [[ts0 er0]|] eqn:El; [|discriminate]; inversion H; subst;
         destruct (IH s' ts0 er (reach_trans _ _ _ _ _ _ _ _ _ _ _ _ R R') El) as [Ha Hb];
         split; [constructor; [exact Ht|exact Ha]|exact Hb]).
    inversion H; subst. split; [constructor|exact I].
Qed.

Theorem lex_positions : forall input ts er, lex dev_none input = Some (ts, er) ->
  Forall (fun t => pos_ok input (tstart t) (tline t) (tcol t)) ts
  /\ match er with
     | Some x => exists off, pos_ok input off (eline x) (ecol x)
     | None => True
     end.
Proof.
  intros input ts er H. unfold lex in H. eapply lex_all_positions; [|exact H]. cbn. apply R_here.
Qed.

(* ---- the relation is a function of the offset: a reported (line, column) is THE line and column ---- *)
Lemma reach_mono : forall l e ln ls l' e' ln' ls', reach l e ln ls l' e' ln' ls' ->
  e <= e' /\ (e = e' -> l' = l /\ ln' = ln /\ ls' = ls).
Proof.
  intros l e ln ls l' e' ln' ls' H.
  induction H as [l e ln ls
                 | tl e ln ls l' e' ln' ls' Hr [IH _]
                 | tl e ln ls l' e' ln' ls' Hne Hr [IH _]
                 | tl e ln ls l' e' ln' ls' Hr [IH _]
                 | c tl e ln ls l' e' ln' ls' H10 H13 Hr [IH _]];
  (split; [lia|intro; first [auto; fail | lia]]).
Qed.

Lemma reach_functional : forall l e ln ls l1 e1 ln1 ls1 l2 ln2 ls2,
  reach l e ln ls l1 e1 ln1 ls1 -> reach l e ln ls l2 e1 ln2 ls2 -> l1 = l2 /\ ln1 = ln2 /\ ls1 = ls2.
Proof.
  intros l e ln ls l1 e1 ln1 ls1 l2 ln2 ls2 HA. revert l2 ln2 ls2.
  induction HA as [l e ln ls
                  | tl e ln ls l' e' ln' ls' Hr IH
                  | tl e ln ls l' e' ln' ls' Hne Hr IH
                  | tl e ln ls l' e' ln' ls' Hr IH
                  | c tl e ln ls l' e' ln' ls' H10 H13 Hr IH]; intros l2 ln2 ls2 HB.
  - destruct (reach_mono _ _ _ _ _ _ _ _ HB) as [_ Heq]. destruct (Heq eq_refl) as [-> [-> ->]]. auto.
  - pose proof (proj1 (reach_mono _ _ _ _ _ _ _ _ Hr)) as Hle.
    inversion HB; subst; try lia; try (apply IH; assumption); exfalso;
    first [ match goal with Hn : forall tl', _ <> _ |- _ => eapply Hn; reflexivity end
          | match goal with Hn : ?x <> ?x |- _ => apply Hn; reflexivity end ].
  - pose proof (proj1 (reach_mono _ _ _ _ _ _ _ _ Hr)) as Hle.
    inversion HB; subst; try lia; try (apply IH; assumption); exfalso;
    first [ eapply Hne; reflexivity
          | match goal with Hn : ?x <> ?x |- _ => apply Hn; reflexivity end ].
  - pose proof (proj1 (reach_mono _ _ _ _ _ _ _ _ Hr)) as Hle.
    inversion HB; subst; try lia; try (apply IH; assumption); exfalso;
    match goal with Hn : ?x <> ?x |- _ => apply Hn; reflexivity end.
  - pose proof (proj1 (reach_mono _ _ _ _ _ _ _ _ Hr)) as Hle.
    inversion HB; subst; try lia; try (apply IH; assumption); exfalso;
    first [ apply H13; reflexivity | apply H10; reflexivity ].
Qed.

Theorem pos_ok_functional : forall input off ln1 col1 ln2 col2,
  pos_ok input off ln1 col1 -> pos_ok input off ln2 col2 -> ln1 = ln2 /\ col1 = col2.
Proof.
  intros input off ln1 col1 ln2 col2 [l1 H1] [l2 H2].
  destruct (reach_functional _ _ _ _ _ _ _ _ _ _ _ H1 H2) as [_ [E1 E2]]. split; [exact E1|lia].
Qed.
