(* RelationsExact.v — C07, last clause: the possible-type and implements tables of a loaded schema
   are exactly the ones implied by its definitions. *)
From Coq Require Import List NArith ZArith Bool Lia Permutation.
From GQL.model Require Import Base Utf8 Lexer Ast Schema.
From GQL.proofs Require Import StrFacts LoadedClosed LoadOrder.
Import ListNotations.

(* what one definition contributes: t is a possible type of k / t is implemented (or contained) by k *)
Definition gives_possible (known : str -> bool) (def : definition) (k t : str) : Prop :=
  match def.(df_kind) with
  | KUnion => k = def.(df_name) /\ In t def.(df_types) /\ known t = true
  | KObject => (In k def.(df_ifaces) /\ t = def.(df_name)) \/ (k = def.(df_name) /\ t = def.(df_name))
  | KInterface => In k def.(df_ifaces) /\ t = def.(df_name)
  | _ => False
  end.
Definition gives_implements (def : definition) (k t : str) : Prop :=
  match def.(df_kind) with
  | KUnion => In k def.(df_types) /\ t = def.(df_name)
  | KObject | KInterface => k = def.(df_name) /\ In t def.(df_ifaces)
  | _ => False
  end.

Lemma in_flat_map_if : forall (A : Type) (c : A -> bool) (v : A -> str) (l : list A) (t : str),
  In t (flat_map (fun x => if c x then [v x] else []) l) <-> exists x, In x l /\ c x = true /\ t = v x.
Proof.
  intros A c v l t. rewrite in_flat_map. split.
  - intros [x [Hx Ht]]. destruct (c x) eqn:E; [|destruct Ht]. destruct Ht as [<-|[]]. exists x. auto.
  - intros [x [Hx [Hc ->]]]. exists x. split; [exact Hx|]. rewrite Hc. left. reflexivity.
Qed.

Section Tables.
  Variable types : list (str * definition).

  Lemma cpos_spec : forall k n t, In t (cpos types k n) <->
    exists def, lookup n types = Some def /\ gives_possible (fun x => is_some (lookup x types)) def k t.
  Proof.
    intros k n t. unfold cpos, gives_possible. destruct (lookup n types) as [def|] eqn:E.
    - split.
      + intro H. exists def. split; [reflexivity|]. destruct (df_kind def); [destruct H| | | |destruct H|destruct H].
        * apply in_app_or in H. destruct H as [H|H].
          -- apply in_flat_map_if in H. destruct H as [x [Hx [Hc ->]]]. cbn [andb] in Hc. apply str_eqb_eq in Hc. subst x. left. auto.
          -- destruct (str_eqb k (df_name def)) eqn:Ek; [|destruct H]. destruct H as [<-|[]]. apply str_eqb_eq in Ek. right. auto.
        * apply in_flat_map_if in H. destruct H as [x [Hx [Hc ->]]]. cbn [andb] in Hc. apply str_eqb_eq in Hc. subst x. auto.
        * apply in_flat_map_if in H. destruct H as [x [Hx [Hc ->]]]. apply andb_true_iff in Hc as [Hc1 Hc2]. apply str_eqb_eq in Hc2. auto.
      + intros [def' [E' H]]. inversion E'; subst def'. destruct (df_kind def); [destruct H| | | |destruct H|destruct H].
        * apply in_or_app. destruct H as [[Hk ->]|[-> ->]].
          -- left. apply in_flat_map_if. exists k. split; [exact Hk|]. split; [cbn; apply str_eqb_refl|reflexivity].
          -- right. rewrite str_eqb_refl. left. reflexivity.
        * destruct H as [Hk ->]. apply in_flat_map_if. exists k. split; [exact Hk|]. split; [cbn; apply str_eqb_refl|reflexivity].
        * destruct H as [-> [Ht Hkn]]. apply in_flat_map_if. exists t. split; [exact Ht|]. split; [rewrite Hkn, str_eqb_refl; reflexivity|reflexivity].
    - split; [intros []|intros [def [Hd _]]; discriminate].
  Qed.

  Lemma cimp_spec : forall k n t, In t (cimp types k n) <->
    exists def, lookup n types = Some def /\ gives_implements def k t.
  Proof.
    intros k n t. unfold cimp, gives_implements. destruct (lookup n types) as [def|] eqn:E.
    - split.
      + intro H. exists def. split; [reflexivity|]. destruct (df_kind def); [destruct H| | | |destruct H|destruct H].
        * apply in_flat_map_if in H. destruct H as [x [Hx [Hc ->]]]. cbn [andb] in Hc. apply str_eqb_eq in Hc. auto.
        * apply in_flat_map_if in H. destruct H as [x [Hx [Hc ->]]]. cbn [andb] in Hc. apply str_eqb_eq in Hc. auto.
        * apply in_flat_map_if in H. destruct H as [x [Hx [Hc ->]]]. cbn [andb] in Hc. apply str_eqb_eq in Hc. subst x. auto.
      + intros [def' [E' H]]. inversion E'; subst def'. destruct (df_kind def); [destruct H| | | |destruct H|destruct H].
        * destruct H as [-> Ht]. apply in_flat_map_if. exists t. split; [exact Ht|]. split; [cbn; apply str_eqb_refl|reflexivity].
        * destruct H as [-> Ht]. apply in_flat_map_if. exists t. split; [exact Ht|]. split; [cbn; apply str_eqb_refl|reflexivity].
        * destruct H as [Hk ->]. apply in_flat_map_if. exists k. split; [exact Hk|]. split; [cbn; apply str_eqb_refl|reflexivity].
    - split; [intros []|intros [def [Hd _]]; discriminate].
  Qed.

  (* the tables built over an order that lists every definition *)
  Theorem relations_exact : forall order, (forall n, In n order <-> lookup n types <> None) ->
    forall k t,
      (In t (get k (fst (relations types order))) <-> exists n def, lookup n types = Some def /\ gives_possible (fun x => is_some (lookup x types)) def k t)
      /\ (In t (get k (snd (relations types order))) <-> exists n def, lookup n types = Some def /\ gives_implements def k t).
  Proof.
    intros order Hord k t. rewrite relations_fold.
    destruct (relations_get types order ([], []) k) as [H1 H2]. rewrite H1, H2. cbn [fst snd]. rewrite get_nil. cbn [app].
    split; rewrite in_flat_map; split.
    - intros [n [Hn Ht]]. apply cpos_spec in Ht. destruct Ht as [def [Hl Hg]]. exists n, def. auto.
    - intros [n [def [Hl Hg]]]. exists n. split; [apply Hord; congruence|]. apply cpos_spec. exists def. auto.
    - intros [n [Hn Ht]]. apply cimp_spec in Ht. destruct Ht as [def [Hl Hg]]. exists n, def. auto.
    - intros [n [def [Hl Hg]]]. exists n. split; [apply Hord; congruence|]. apply cimp_spec. exists def. auto.
  Qed.
End Tables.

(* ---- the invariants of the two table-building steps ---- *)
Lemma lookup_app_some : forall A (k : str) (l1 l2 : list (str * A)) v, lookup k l1 = Some v -> lookup k (l1 ++ l2) = Some v.
Proof. intros. rewrite lookup_app. rewrite H. reflexivity. Qed.

Definition tables_ok (types : list (str * definition)) (order : list str) : Prop :=
  (forall n def, lookup n types = Some def -> def.(df_name) = n) /\ (forall n, In n order <-> lookup n types <> None).

Lemma add_defs_tables : forall ds r, add_defs ds [] = Some r -> tables_ok r (map df_name ds).
Proof.
  intros ds r H. destruct (add_defs_some ds [] r H) as [-> Hnd]. cbn [app]. specialize (Hnd (NoDup_nil _)). cbn [app] in Hnd.
  split.
  - intros n def Hl. apply lookup_in in Hl. apply in_map_iff in Hl. destruct Hl as [d [Hd _]]. unfold entry in Hd. inversion Hd; subst. reflexivity.
  - intro n. assert (Hk : keys (map entry ds) = map df_name ds) by (unfold keys; rewrite map_map; reflexivity). split.
    + intros Hi Hnone. apply lookup_none_keys in Hnone. apply Hnone. rewrite Hk. exact Hi.
    + intro Hne. destruct (lookup n (map entry ds)) as [v|] eqn:E; [|contradiction].
      apply lookup_some_keys in E. rewrite Hk in E. exact E.
Qed.

Lemma lookup_update_same : forall A (k : str) (v : A) l, lookup k l <> None -> lookup k (update k v l) = Some v.
Proof. intros A k v l H. rewrite lookup_update. rewrite str_eqb_refl. destruct (lookup k l); [reflexivity|contradiction]. Qed.

Lemma merge_exts_tables : forall es types order r, tables_ok types order -> merge_exts es types order = Some r -> tables_ok (fst r) (snd r).
Proof.
  induction es as [|e tl IH]; intros types order r Hok H.
  - cbn in H. inversion H; subst. exact Hok.
  - rewrite merge_exts_step in H. destruct (ext_step e types order) as [[t1 o1]|] eqn:Es; [|discriminate].
    apply (IH t1 o1 r); [|exact H]. clear IH H. destruct Hok as [Hn Ho].
    unfold ext_step in Es.
    destruct (lookup (df_name e) types) as [d|] eqn:El.
    + (* extension of a known type: the entry is replaced, name kept *)
      cbv zeta in Es. match type of Es with (if ?c then _ else _) = _ => destruct c; [discriminate|] end.
      inversion Es; subst t1 o1. split.
      * intros n def Hl. rewrite lookup_update in Hl. destruct (str_eqb n (df_name e)) eqn:E.
        -- apply str_eqb_eq in E. subst n. inversion Hl; subst def. cbn [df_name]. apply Hn. exact El.
        -- apply Hn. exact Hl.
      * intro n. rewrite Ho. rewrite lookup_update. destruct (str_eqb n (df_name e)) eqn:E; [|tauto].
        apply str_eqb_eq in E. subst n. rewrite El. split; discriminate.
    + cbv zeta in Es. match type of Es with (if ?c then _ else _) = _ => destruct c; [discriminate|] end.
      inversion Es; subst t1 o1. split.
      * intros n def Hl. rewrite lookup_update in Hl. destruct (str_eqb n (df_name e)) eqn:E.
        -- apply str_eqb_eq in E. subst n. inversion Hl; subst def. reflexivity.
        -- rewrite lookup_app in Hl. destruct (lookup n types) as [d0|] eqn:E0; [inversion Hl; subst; apply Hn; exact E0|].
           cbn in Hl. rewrite E in Hl. discriminate.
      * intro n. rewrite in_app_iff, Ho. rewrite lookup_update, lookup_app.
        destruct (str_eqb n (df_name e)) eqn:E.
        -- apply str_eqb_eq in E. subst n. split; [discriminate|intros _; right; left; reflexivity].
        -- destruct (lookup n types) as [d0|] eqn:E0.
           ++ split; [discriminate|intros _; left; discriminate].
           ++ cbn. rewrite E. split; [intros [H|[H|[]]]; [contradiction|subst n; rewrite str_eqb_refl in E; discriminate]|intro H; contradiction].
Qed.

(* the final type table differs from the one the relations were built over only in the fields of the query root *)
Lemma final_types_attrs : forall q' types n,
  match lookup n types, lookup n (final_types q' types) with
  | Some d, Some d' => df_kind d' = df_kind d /\ df_name d' = df_name d /\ df_ifaces d' = df_ifaces d /\ df_types d' = df_types d
  | None, None => True
  | _, _ => False
  end.
Proof.
  intros q' types n. unfold final_types. destruct q' as [qn|]; [|destruct (lookup n types); auto].
  destruct (lookup qn types) as [qd|] eqn:Eq; [|destruct (lookup n types); auto].
  rewrite lookup_update. destruct (str_eqb n qn) eqn:E.
  - apply str_eqb_eq in E. subst n. rewrite Eq. unfold with_introspection. cbn. auto.
  - destruct (lookup n types); auto.
Qed.

(* ---- the theorem about loaded schemas ---- *)
Theorem loaded_relations_exact : forall sd s, validateSchemaDocument sd = Some s ->
  forall k t,
    (In t (get k s.(sc_possible)) <->
       exists n def, lookup n s.(sc_types) = Some def /\ gives_possible (fun x => is_some (lookup x s.(sc_types))) def k t)
    /\ (In t (get k s.(sc_implements)) <->
       exists n def, lookup n s.(sc_types) = Some def /\ gives_implements def k t).
Proof.
  intros sd s H k t.
  destruct (vsd_inv sd s H) as (types0 & types & order & dirs & q' & m' & s' & sdirs & desc & Ead & Eme & Edi & _ & _ & _ & _ & _ & _ & Hs).
  pose proof (merge_exts_tables _ _ _ _ (add_defs_tables _ _ Ead) Eme) as [Hn Ho]. cbn [fst snd] in Hn, Ho.
  destruct (relations_exact types order Ho k t) as [Hp Hi].
  subst s. cbn [sc_possible sc_implements sc_types].
  assert (Hknown : forall x, is_some (lookup x (final_types q' types)) = is_some (lookup x types)).
  { intro x. pose proof (final_types_attrs q' types x) as A. destruct (lookup x types), (lookup x (final_types q' types)); auto; destruct A. }
  split.
  - rewrite Hp. split; intros [n [def [Hl Hg]]].
    + pose proof (final_types_attrs q' types n) as A. rewrite Hl in A. destruct (lookup n (final_types q' types)) as [d'|] eqn:E'; [|destruct A].
      destruct A as [A1 [A2 [A3 A4]]]. exists n, d'. split; [exact E'|]. unfold gives_possible in *. rewrite A1, A2, A3, A4.
      destruct (df_kind def); auto. destruct Hg as [G1 [G2 G3]]. repeat split; auto. rewrite Hknown. exact G3.
    + pose proof (final_types_attrs q' types n) as A. rewrite Hl in A. destruct (lookup n types) as [d|] eqn:E'; [|destruct A].
      destruct A as [A1 [A2 [A3 A4]]]. exists n, d. split; [exact E'|]. unfold gives_possible in *. rewrite <- A1, <- A2, <- A3, <- A4.
      destruct (df_kind def); auto. destruct Hg as [G1 [G2 G3]]. repeat split; auto. rewrite <- Hknown. exact G3.
  - rewrite Hi. split; intros [n [def [Hl Hg]]].
    + pose proof (final_types_attrs q' types n) as A. rewrite Hl in A. destruct (lookup n (final_types q' types)) as [d'|] eqn:E'; [|destruct A].
      destruct A as [A1 [A2 [A3 A4]]]. exists n, d'. split; [exact E'|]. unfold gives_implements in *. rewrite A1, A2, A3, A4. exact Hg.
    + pose proof (final_types_attrs q' types n) as A. rewrite Hl in A. destruct (lookup n types) as [d|] eqn:E'; [|destruct A].
      destruct A as [A1 [A2 [A3 A4]]]. exists n, d. split; [exact E'|]. unfold gives_implements in *. rewrite <- A1, <- A2, <- A3, <- A4. exact Hg.
Qed.

(* every definition of a loaded schema is stored under its own name *)
Theorem loaded_names : forall sd s, validateSchemaDocument sd = Some s ->
  forall n def, lookup n s.(sc_types) = Some def -> def.(df_name) = n.
Proof.
  intros sd s H n def Hl.
  destruct (vsd_inv sd s H) as (types0 & types & order & dirs & q' & m' & s' & sdirs & desc & Ead & Eme & Edi & _ & _ & _ & _ & _ & _ & Hs).
  pose proof (merge_exts_tables _ _ _ _ (add_defs_tables _ _ Ead) Eme) as [Hn _]. cbn [fst snd] in Hn.
  subst s. cbn [sc_types] in Hl. pose proof (final_types_attrs q' types n) as A. rewrite Hl in A.
  destruct (lookup n types) as [d|] eqn:E; [|destruct A]. destruct A as [_ [A2 _]]. rewrite A2. apply Hn. exact E.
Qed.
