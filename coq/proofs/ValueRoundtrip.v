(* ValueRoundtrip.v — values printed by Value.String (scalars, variables, and lists and input objects
   nested to any depth) are parsed back by parseValueLiteral as the same value (C12): kinds, texts,
   string bytes, field names and the order of elements survive; block strings come back as strings;
   positions differ.  Built on the token-view layer of TypeRoundtrip.v. *)
From Coq Require Import List NArith ZArith Lia Bool.
From GQL.model Require Import Base Utf8 Lexer Ast Parser Prog ParseQuery Format.
From GQL.proofs Require Import StrFacts ProgFacts NumberGrammar QuoteRoundtrip TypeRoundtrip.
Import ListNotations.
Open Scope N_scope.

(* ---- what a fresh state sees in front of a number or a string ---- *)
Lemma int_head : forall v, int_value v -> exists c tl, v = c :: tl /\ (c = 45 \/ is_digit c = true).
Proof.
  intros v [Hu|[u [-> Hu]]].
  - inversion Hu; subst; [exists 48, []; split; [reflexivity|right; reflexivity]|exists c, ds; auto].
  - exists 45, u. auto.
Qed.

Lemma float_head : forall v, float_value v -> exists c tl, v = c :: tl /\ (c = 45 \/ is_digit c = true).
Proof.
  intros v [i [f [x [-> [Hi _]]]]]. destruct (int_head i Hi) as [c [tl [-> Hc]]]. exists c, (tl ++ f ++ x). split; [reflexivity|exact Hc].
Qed.

Lemma fresh_number : forall d s (k : kind) v txt, d F_L1 = false -> fresh s (v ++ txt) ->
  ((k = Int /\ int_value v) \/ (k = Float /\ float_value v)) -> follow_ok txt ->
  exists t, sees d s t txt /\ tkind t = k /\ tval t = v.
Proof.
  intros d s k v txt Hd [He [Hp [Hl Hr]]] Hv Hf.
  assert (Hhead : exists c tl, v = c :: tl /\ (c = 45 \/ is_digit c = true))
    by (destruct Hv as [[_ Hv]|[_ Hv]]; [apply int_head|apply float_head]; exact Hv).
  destruct Hhead as [c [tl [Ev Hc]]].
  assert (Hread : readToken d (plx s) = Some (mk_tok k v txt (endR (plx s)) (endR (plx s) + zlen v)%Z (line (plx s)) (lsr (plx s)))).
  { rewrite (lx_eta (plx s)), Hr, Ev. cbn [app]. rewrite number_dispatch by exact Hc.
    change (c :: tl ++ txt) with ((c :: tl) ++ txt). rewrite <- Ev.
    destruct Hv as [[-> Hv]|[-> Hv]]; [rewrite (int_value_read d v txt _ _ _ Hd Hv Hf)|rewrite (float_value_read d v txt _ _ _ Hd Hv Hf)]; reflexivity. }
  exists (mkTok k v (endR (plx s)) (endR (plx s) + zlen v)%Z (line (plx s)) (endR (plx s) - lsr (plx s) + 1)%Z).
  split; [|split; reflexivity]. split.
  - destruct Hv as [[-> _]|[-> _]]; reflexivity.
  - left. eexists. split; [exact He|]. split; [exact Hp|]. split; [exact Hl|]. unfold mk_tok in Hread. split; [exact Hread|reflexivity].
Qed.

Lemma fresh_string : forall d s v txt, fresh s (quoteString v ++ txt) -> wf_utf8 v ->
  (v = [] -> match txt with 34 :: _ => False | _ => True end) ->
  exists t, sees d s t txt /\ tkind t = String_ /\ tval t = v.
Proof.
  intros d s v txt [He [Hp [Hl Hr]]] Hwf Hq.
  destruct (quote_lexes_back d v txt (endR (plx s)) (line (plx s)) (lsr (plx s)) Hwf Hq) as [e' Hread].
  exists (str_tok d v (endR (plx s)) e' (line (plx s)) (lsr (plx s))). split; [|split; reflexivity]. split; [reflexivity|].
  left. eexists. split; [exact He|]. split; [exact Hp|]. split; [exact Hl|].
  rewrite (lx_eta (plx s)), Hr. split; [exact Hread|reflexivity].
Qed.

Lemma ready_of_fresh_lemma : forall d s txt (P : token -> Prop) txt',
  (forall s0, fresh s0 txt -> exists t, sees d s0 t txt' /\ P t) -> ready d s txt -> exists t, sees d s t txt' /\ P t.
Proof. intros. eapply ready_sees; eassumption. Qed.

(* ---- scalar values ---- *)
Definition erase_kind (k : vkind) : vkind := match k with VBlock => VString | _ => k end.

(* the kind a bare word stands for *)
Definition word_kind (raw : str) : vkind :=
  if str_eqb raw (b "true") || str_eqb raw (b "false") then VBool else if str_eqb raw (b "null") then VNull else VEnum.

Inductive scalar_ok : vkind -> str -> Prop :=
| so_var : forall n, name_text n -> scalar_ok VVar n
| so_int : forall r, int_value r -> scalar_ok VInt r
| so_float : forall r, float_value r -> scalar_ok VFloat r
| so_word : forall r, name_text r -> scalar_ok (word_kind r) r
| so_string : forall r, wf_utf8 r -> scalar_ok VString r
| so_block : forall r, wf_utf8 r -> scalar_ok VBlock r.

(* what may follow a value: the end, or a comma, bracket, brace, parenthesis, blank or line end *)
Definition sep_ok (txt : str) : Prop :=
  match txt with [] => True | c :: _ => In c [44; 93; 125; 41; 32; 10] end.

Lemma sep_follow : forall txt, sep_ok txt -> follow_ok txt.
Proof. intros [|c r] H; [exact I|]. cbn in H. cbn. intuition (subst; repeat split; try reflexivity; discriminate). Qed.
Lemma sep_noname : forall txt, sep_ok txt -> noname_head txt.
Proof. intros [|c r] H; [exact I|]. cbn in H. cbn. intuition (subst; reflexivity). Qed.
Lemma sep_noquote : forall txt, sep_ok txt -> match txt with 34 :: _ => False | _ => True end.
Proof. intros [|c r] H; [exact I|]. cbn in H. intuition (subst; exact I). Qed.

Definition first_spec (k : vkind) (raw txt : str) (t0 : token) (txt0 : str) : Prop :=
  match k with
  | VVar => tkind t0 = Dollar /\ txt0 = raw ++ txt
  | VInt => tkind t0 = Int /\ tval t0 = raw /\ txt0 = txt
  | VFloat => tkind t0 = Float /\ tval t0 = raw /\ txt0 = txt
  | VString | VBlock => tkind t0 = String_ /\ tval t0 = raw /\ txt0 = txt
  | _ => tkind t0 = Name /\ tval t0 = raw /\ txt0 = txt
  end.

Lemma scalar_first : forall d k raw p s txt, d F_L1 = false -> scalar_ok k raw ->
  ready d s (value_string (mkValue k raw [] p) ++ txt) -> sep_ok txt ->
  exists t0 txt0, sees d s t0 txt0 /\ first_spec k raw txt t0 txt0.
Proof.
  intros d k raw p s txt Hd Hok Hs Hsep. unfold first_spec.
  inversion Hok as [n Hn|r Hr|r Hr|r Hr|r Hr|r Hr]; subst; cbn [value_string] in Hs.
  - cbn [app] in Hs. destruct (ready_punct d s 36 Dollar _ Hs eq_refl) as [t0 [H0 K0]]; [lia|discriminate|discriminate|].
    exists t0, (raw ++ txt). auto.
  - destruct (ready_of_fresh_lemma d s (raw ++ txt) (fun t => tkind t = Int /\ tval t = raw) txt) as [t0 [H0 [K0 V0]]]; [|exact Hs|exists t0, txt; auto].
    intros s0 Hs0. destruct (fresh_number d s0 Int raw txt Hd Hs0 (or_introl (conj eq_refl Hr)) (sep_follow _ Hsep)) as [t [A [B C]]]. exists t. auto.
  - destruct (ready_of_fresh_lemma d s (raw ++ txt) (fun t => tkind t = Float /\ tval t = raw) txt) as [t0 [H0 [K0 V0]]]; [|exact Hs|exists t0, txt; auto].
    intros s0 Hs0. destruct (fresh_number d s0 Float raw txt Hd Hs0 (or_intror (conj eq_refl Hr)) (sep_follow _ Hsep)) as [t [A [B C]]]. exists t. auto.
  - destruct (ready_name d s raw txt) as [t0 [H0 [K0 V0]]]; [|exact Hr|exact (sep_noname _ Hsep)|].
    + unfold word_kind in Hs. destruct (str_eqb raw (b "true") || str_eqb raw (b "false")); [exact Hs|]. destruct (str_eqb raw (b "null")); exact Hs.
    + exists t0, txt. split; [exact H0|]. unfold word_kind. destruct (str_eqb raw (b "true") || str_eqb raw (b "false")); [auto|]. destruct (str_eqb raw (b "null")); auto.
  - destruct (ready_of_fresh_lemma d s (quoteString raw ++ txt) (fun t => tkind t = String_ /\ tval t = raw) txt) as [t0 [H0 [K0 V0]]]; [|exact Hs|exists t0, txt; auto].
    intros s0 Hs0. destruct (fresh_string d s0 raw txt Hs0 Hr (fun _ => sep_noquote _ Hsep)) as [t [A [B C]]]. exists t. auto.
  - destruct (ready_of_fresh_lemma d s (quoteString raw ++ txt) (fun t => tkind t = String_ /\ tval t = raw) txt) as [t0 [H0 [K0 V0]]]; [|exact Hs|exists t0, txt; auto].
    intros s0 Hs0. destruct (fresh_string d s0 raw txt Hs0 Hr (fun _ => sep_noquote _ Hsep)) as [t [A [B C]]]. exists t. auto.
Qed.

Theorem scalar_roundtrip : forall d F k raw p, d F_L1 = false -> scalar_ok k raw ->
  forall fuel s txt, (1 <= fuel)%nat -> ready d s (value_string (mkValue k raw [] p) ++ txt) -> sep_ok txt ->
  let r := run d (parseValueLiteral fuel false) F s in
  (exists p', fst r = mkValue (erase_kind k) raw [] p') /\ fresh (snd r) txt /\ src (snd r) = src s.
Proof.
  intros d F k raw p Hd Hok fuel s txt Hfuel Hs Hsep. destruct fuel as [|f]; [lia|]. cbv zeta. cbn [parseValueLiteral run].
  destruct (scalar_first d k raw p s txt Hd Hok Hs Hsep) as [t0 [txt0 [H0 Hk]]]. unfold first_spec in Hk.
  destruct (peek_sees d s t0 txt0 H0) as [P1 [P2 P3]]. destruct (peek d s) as [tok s1]. cbn [fst snd] in P1, P2, P3. subst tok. cbv beta iota. cbn [run].
  pose proof (holding_sees d s1 t0 txt0 (proj1 H0) P2) as H1.
  (* a literal token: consumed by Next *)
  assert (Hlit : forall k', (exists p', fst (run d (_ <- Next ;; Ret (mkValue k' (tval t0) [] (pos_of_tok (src s1) t0))) F s1) = mkValue k' (tval t0) [] p')
                           /\ fresh (snd (run d (_ <- Next ;; Ret (mkValue k' (tval t0) [] (pos_of_tok (src s1) t0))) F s1)) txt0
                           /\ src (snd (run d (_ <- Next ;; Ret (mkValue k' (tval t0) [] (pos_of_tok (src s1) t0))) F s1)) = src s1).
  { intro k'. cbn [run]. destruct (next_sees d s1 t0 txt0 H1) as [N1 [N2 N3]]. destruct (next d s1) as [t2 s2]. cbn [fst snd] in *.
    split; [eexists; reflexivity|]. split; assumption. }
  inversion Hok as [n Hn|r Hr|r Hr|r Hr|r Hr|r Hr]; subst.
  - (* variable *)
    destruct Hk as [K0 ->]. rewrite K0. unfold parseVariable. cbn [run].
    destruct (run_expect d F Dollar s1 t0 _ H1 K0) as [E1 [E2 E3]]. destruct (run d (expect Dollar) F s1) as [tk s2]. cbn [fst snd] in E1, E2, E3. cbv beta iota.
    destruct (ready_name d s2 raw txt (or_introl E2) Hn (sep_noname _ Hsep)) as [tn [Hn2 [Kn Vn]]].
    destruct (run_parseName d F s2 tn txt Hn2 Kn) as [G1 [G2 G3]]. destruct (run d parseName F s2) as [nm s3]. cbn [fst snd] in G1, G2, G3. cbv beta iota.
    cbn [run fst snd erase_kind]. split; [eexists; rewrite G1, Vn; reflexivity|]. split; [exact G2|congruence].
  - destruct Hk as [K0 [V0 ->]]. rewrite K0. destruct (Hlit VInt) as [[p' A] [B C]]. split; [exists p'; rewrite A, V0; reflexivity|]. split; [exact B|congruence].
  - destruct Hk as [K0 [V0 ->]]. rewrite K0. destruct (Hlit VFloat) as [[p' A] [B C]]. split; [exists p'; rewrite A, V0; reflexivity|]. split; [exact B|congruence].
  - (* a word *)
    assert (Hk' : tkind t0 = Name /\ tval t0 = raw /\ txt0 = txt).
    { unfold word_kind in Hk. destruct (str_eqb raw (b "true") || str_eqb raw (b "false")); [exact Hk|]. destruct (str_eqb raw (b "null")); exact Hk. }
    destruct Hk' as [K0 [V0 ->]]. rewrite K0.
    destruct (Hlit (if str_eqb (tval t0) (b "true") || str_eqb (tval t0) (b "false") then VBool else if str_eqb (tval t0) (b "null") then VNull else VEnum)) as [[p' A] [B C]].
    split; [exists p'; rewrite A, V0; unfold word_kind; destruct (str_eqb raw (b "true") || str_eqb raw (b "false")); [reflexivity|]; destruct (str_eqb raw (b "null")); reflexivity|].
    split; [exact B|congruence].
  - destruct Hk as [K0 [V0 ->]]. rewrite K0. destruct (Hlit VString) as [[p' A] [B C]]. split; [exists p'; rewrite A, V0; reflexivity|]. split; [exact B|congruence].
  - destruct Hk as [K0 [V0 ->]]. rewrite K0. destruct (Hlit VString) as [[p' A] [B C]]. split; [exists p'; rewrite A, V0; reflexivity|]. split; [exact B|congruence].
Qed.

(* ------------------------------------------------------------------ *)
(* lists and input objects: the loop of `many`                         *)

Lemma readToken_comma : forall d X e ln ls, readToken d (mkLx (44 :: X) e ln ls) = readToken d (mkLx X (e + 1)%Z ln ls).
Proof. intros. unfold readToken. cbn [rest endR line lsr ws]. reflexivity. Qed.

(* looking at the next token from in front of an optional comma and a text X: the parser then stands
   in front of X with that token in hand *)
Lemma peek_fresh_sep : forall d s (pre X : str) (P : token -> Prop), (pre = [] \/ pre = [44]) -> fresh s (pre ++ X) ->
  (forall s0, fresh s0 X -> exists t txt1, sees d s0 t txt1 /\ P t) ->
  exists t txt1, fst (peek d s) = t /\ holding (snd (peek d s)) t txt1 /\ P t /\ ready d (snd (peek d s)) X
                 /\ src (snd (peek d s)) = src s /\ kind_eqb (tkind t) Comment = false.
Proof.
  intros d s pre X P Hpre Hs H. destruct Hs as [He [Hp [Hl Hr]]].
  set (s0 := mkPst (mkLx X (if match pre with [] => true | _ => false end then endR (plx s) else endR (plx s) + 1)%Z (line (plx s)) (lsr (plx s)))
                   None None tok0 0 0 0 0).
  assert (Hf0 : fresh s0 X) by (repeat split).
  destruct (H s0 Hf0) as [t [txt1 [[Hk [[lx' [_ [_ [_ [Hrd Hx]]]]]|[_ [Hp0 _]]]] HP]]]; [|discriminate].
  cbn [plx s0] in Hrd.
  assert (Hrd' : readToken d (plx s) = Some (t, None, lx')).
  { rewrite (lx_eta (plx s)), Hr. destruct Hpre as [-> | ->]; cbn [app]; [exact Hrd|rewrite readToken_comma; exact Hrd]. }
  assert (Hsees : sees d s t txt1) by (split; [exact Hk|left; exists lx'; auto]).
  destruct (peek_sees d s t txt1 Hsees) as [P1 [P2 P3]].
  exists t, txt1. split; [exact P1|]. split; [exact P2|]. split; [exact HP|]. split; [|split; [exact P3|exact Hk]].
  right. exists t, txt1. split; [exact P2|]. split; [exact Hk|]. eexists. eexists. eexists. eexists. split; [exact Hrd|exact Hx].
Qed.

Section Elems.
  Variable d : dev.
  Variable F : nat.
  Variables (A E : Type).
  Variable closek : kind.
  Variable closec : N.
  Variable cb : prog A.
  Variable etext : E -> str.
  Variable R : E -> A -> Prop.
  Hypothesis close_punct : punct closec = Some closek.
  Hypothesis close_range : 33 <= closec /\ closec <> 44 /\ closec <> 239.
  Hypothesis close_sep : forall txt, sep_ok (closec :: txt).

  (* the element parser on one element: its first token is not the closing one; it returns a related
     result and stops exactly behind the element *)
  Definition elem_ok (e : E) : Prop :=
    forall s rest, ready d s (etext e ++ rest) -> sep_ok rest ->
      (forall s0, fresh s0 (etext e ++ rest) -> exists t txt1, sees d s0 t txt1 /\ tkind t <> closek)
      /\ R e (fst (run d cb F s)) /\ fresh (snd (run d cb F s)) rest /\ src (snd (run d cb F s)) = src s.

  Fixpoint elems_text (first : bool) (es : list E) (txt : str) : str :=
    match es with
    | [] => closec :: txt
    | e :: tl => (if first then [] else [44]) ++ etext e ++ elems_text false tl txt
    end.

  Definition body : prog (option A) :=
    tok <- Peek ;; e <- HasErr ;;
    if negb (kind_eqb tok.(tkind) closek) && negb e then (x <- cb ;; Ret (Some x)) else Ret None.

  Lemma elems_sep : forall es txt, sep_ok (elems_text false es txt).
  Proof. intros [|e tl] txt; cbn [elems_text]; [apply close_sep|cbn; auto]. Qed.

  Lemma iter_elems : forall es, Forall elem_ok es -> forall first n s acc txt, (length es < n)%nat ->
    fresh s (elems_text first es txt) ->
    exists xs s' tc, iter n (run d body F) s acc = (rev acc ++ xs, s') /\ Forall2 R es xs
                     /\ holding s' tc txt /\ tkind tc = closek /\ src s' = src s.
  Proof.
    intros es Hes. induction Hes as [|e tl He Htl IH]; intros first n s acc txt Hn Hs.
    - (* the closing token *)
      destruct n as [|n]; [cbn in Hn; lia|]. cbn [iter]. cbn [elems_text] in Hs.
      assert (Hstep : exists s1 tc, run d body F s = (None, s1) /\ holding s1 tc txt /\ tkind tc = closek /\ src s1 = src s).
      { destruct close_range as [C1 [C2 C3]].
        destruct (fresh_punct d s closec closek txt Hs close_punct C1 C2 C3) as [tc [Hc [Kc _]]].
        unfold body. cbn [run].
        destruct (peek_sees d s tc txt Hc) as [P1 [P2 P3]]. destruct (peek d s) as [tok s1]. cbn [fst snd] in P1, P2, P3. subst tok. cbv beta iota.
        assert (Ek : kind_eqb (tkind tc) closek = true) by (rewrite Kc; unfold kind_eqb; apply N.eqb_refl).
        rewrite Ek. cbn [negb andb run]. exists s1, tc. auto. }
      destruct Hstep as [s1 [tc [Hrun [P2 [Kc P3]]]]]. rewrite Hrun.
      exists [], s1, tc. rewrite app_nil_r. split; [reflexivity|]. split; [constructor|]. split; [exact P2|]. split; [exact Kc|exact P3].
    - destruct n as [|n]; [cbn in Hn; lia|]. cbn [iter]. cbn [elems_text] in Hs.
      set (rest := elems_text false tl txt) in *.
      assert (Hsep : sep_ok rest) by apply elems_sep.
      assert (Hstep : exists x s2, run d body F s = (Some x, s2) /\ R e x /\ fresh s2 rest /\ src s2 = src s).
      { assert (Hfirst : forall s0, fresh s0 (etext e ++ rest) -> exists t txt1, sees d s0 t txt1 /\ tkind t <> closek).
        { intros s0 Hs0. exact (proj1 (He s0 rest (or_introl Hs0) Hsep) s0 Hs0). }
        destruct (peek_fresh_sep d s (if first then [] else [44]) (etext e ++ rest) (fun t => tkind t <> closek)) as [t [txt1 [P1 [P2 [P3 [P4 [P5 P6]]]]]]];
          [destruct first; auto|exact Hs|exact Hfirst|].
        unfold body. cbn [run]. destruct (peek d s) as [tok s1]. cbn [fst snd] in P1, P2, P4, P5. subst tok. cbv beta iota.
        rewrite (holding_noerr _ _ _ P2).
        assert (Ek : kind_eqb (tkind t) closek = false).
        { unfold kind_eqb. apply N.eqb_neq. intro Hc. apply P3. destruct (tkind t), closek; cbn in Hc; congruence. }
        rewrite Ek. cbn [negb andb run].
        destruct (He s1 rest P4 Hsep) as [_ [R1 [R2 R3]]].
        destruct (run d cb F s1) as [x s2]. cbn [fst snd] in R1, R2, R3. cbv beta iota. cbn [run].
        exists x, s2. split; [reflexivity|]. split; [exact R1|]. split; [exact R2|congruence]. }
      destruct Hstep as [x [s2 [Hrun [R1 [R2 R3]]]]]. rewrite Hrun.
      destruct (IH false n s2 (x :: acc) txt ltac:(cbn in Hn; lia) R2) as [xs [s' [tc [I1 [I2 [I3 [I4 I5]]]]]]].
      exists (x :: xs), s', tc. split; [rewrite I1; cbn [rev]; rewrite <- app_assoc; reflexivity|].
      split; [constructor; assumption|]. split; [exact I3|]. split; [exact I4|congruence].
  Qed.
End Elems.

(* ------------------------------------------------------------------ *)
(* all values                                                          *)
From GQL.proofs Require Import JsonRoundtrip.
Open Scope N_scope.

Fixpoint erase_value (v : value) : value :=
  match v with
  | mkValue k raw ch _ =>
    mkValue (erase_kind k) raw (map (fun c => match c with (n, _, cv) => (n, None, erase_value cv) end) ch) pos0
  end.

Fixpoint value_ok (v : value) : Prop :=
  match v with
  | mkValue k raw ch _ =>
    match k with
    | VList => raw = [] /\ (fix all (l : list (str * option pos * value)) : Prop :=
                              match l with [] => True | (n, _, cv) :: tl => n = [] /\ value_ok cv /\ all tl end) ch
    | VObject => raw = [] /\ (fix all (l : list (str * option pos * value)) : Prop :=
                                match l with [] => True | (n, _, cv) :: tl => name_text n /\ value_ok cv /\ all tl end) ch
    | _ => scalar_ok k raw /\ ch = []
    end
  end.

Fixpoint value_depth (v : value) : nat :=
  match v with mkValue _ _ ch _ => S (fold_right (fun c acc => Nat.max (match c with (_, _, cv) => value_depth cv end) acc) O ch) end.
Fixpoint value_width (v : value) : nat :=
  match v with mkValue _ _ ch _ => Nat.max (length ch) (fold_right (fun c acc => Nat.max (match c with (_, _, cv) => value_width cv end) acc) O ch) end.

Lemma elems_text_false : forall (E : Type) (closec : N) (etext : E -> str) es txt,
  elems_text E closec etext false es txt =
  match es with [] => closec :: txt | _ => 44 :: join [44] (map etext es) ++ closec :: txt end.
Proof.
  intros E closec etext. induction es as [|e tl IH]; intro txt; [reflexivity|].
  cbn [elems_text app]. rewrite IH. destruct tl as [|x tl']; cbn [map join]; [reflexivity|].
  rewrite <- !app_assoc. reflexivity.
Qed.

Lemma elems_text_join : forall (E : Type) (closec : N) (etext : E -> str) es txt,
  elems_text E closec etext true es txt = join [44] (map etext es) ++ closec :: txt.
Proof.
  intros E closec etext es txt. destruct es as [|e tl]; [reflexivity|]. cbn [elems_text app]. rewrite elems_text_false.
  destruct tl as [|x tl']; cbn [map join]; [reflexivity|]. rewrite <- !app_assoc. reflexivity.
Qed.

(* the first token of a value is neither `]` nor `}` *)
Lemma value_first : forall d v s txt, d F_L1 = false -> value_ok v -> ready d s (value_string v ++ txt) -> sep_ok txt ->
  exists t txt1, sees d s t txt1 /\ tkind t <> BracketR /\ tkind t <> BraceR.
Proof.
  intros d [k raw ch p] s txt Hd Hok Hs Hsep.
  assert (Hscalar : scalar_ok k raw /\ ch = [] -> exists t txt1, sees d s t txt1 /\ tkind t <> BracketR /\ tkind t <> BraceR).
  { intros [Hsc ->]. destruct (scalar_first d k raw p s txt Hd Hsc Hs Hsep) as [t0 [txt0 [H0 Hk]]]. exists t0, txt0. split; [exact H0|].
    unfold first_spec in Hk. destruct k; destruct Hk as [Hk _]; rewrite Hk; split; discriminate. }
  destruct k; try (apply Hscalar; exact Hok).
  - cbn [value_string app] in Hs. destruct (ready_punct d s 91 BracketL _ Hs eq_refl) as [t [Ht Kt]]; [lia|discriminate|discriminate|].
    exists t. eexists. split; [exact Ht|]. rewrite Kt. split; discriminate.
  - cbn [value_string app] in Hs. destruct (ready_punct d s 123 BraceL _ Hs eq_refl) as [t [Ht Kt]]; [lia|discriminate|discriminate|].
    exists t. eexists. split; [exact Ht|]. rewrite Kt. split; discriminate.
Qed.

Lemma erase_kind_idem : forall k, erase_kind (erase_kind k) = erase_kind k.
Proof. destruct k; reflexivity. Qed.

Theorem value_roundtrip : forall d F, d F_L1 = false -> forall v, value_ok v ->
  forall fuel s txt, (value_depth v <= fuel)%nat -> (value_width v < F)%nat ->
  ready d s (value_string v ++ txt) -> sep_ok txt ->
  let r := run d (parseValueLiteral fuel false) F s in
  erase_value (fst r) = erase_value v /\ fresh (snd r) txt /\ src (snd r) = src s.
Proof.
  intros d F Hd. induction v as [k raw ch p IH] using value_ind'.
  intros Hok fuel s txt Hdep Hwid Hs Hsep. cbv zeta.
  assert (Hsc : scalar_ok k raw /\ ch = [] ->
          erase_value (fst (run d (parseValueLiteral fuel false) F s)) = erase_value (mkValue k raw ch p)
          /\ fresh (snd (run d (parseValueLiteral fuel false) F s)) txt /\ src (snd (run d (parseValueLiteral fuel false) F s)) = src s).
  { intros [Hs1 ->]. destruct (scalar_roundtrip d F k raw p Hd Hs1 fuel s txt ltac:(cbn in Hdep; lia) Hs Hsep) as [[p' A] [B C]].
    split; [rewrite A; cbn [erase_value map]; rewrite erase_kind_idem; reflexivity|]. split; assumption. }
  destruct k; try (apply Hsc; exact Hok).
  - (* a list *)
    destruct Hok as [-> Hch]. destruct fuel as [|f]; [cbn in Hdep; lia|]. cbn [parseValueLiteral run].
    cbn [value_string] in Hs. cbn [app] in Hs.
    destruct (ready_punct d s 91 BracketL _ Hs eq_refl) as [t0 [H0 K0]]; [lia|discriminate|discriminate|].
    destruct (peek_sees d s t0 _ H0) as [P1 [P2 P3]]. destruct (peek d s) as [tok s1]. cbn [fst snd] in P1, P2, P3. subst tok. cbv beta iota zeta. cbn [run]. rewrite K0. cbv beta iota. cbn [run].
    pose proof (holding_sees d s1 t0 _ (proj1 H0) P2) as H1.
    destruct (run_peekPos d F s1 t0 _ H1) as [B1 [B2 B3]]. destruct (run d peekPos F s1) as [pp s2]. cbn [fst snd] in B1, B2, B3. cbv beta iota. cbn [run]. unfold many. cbn [run].
    pose proof (holding_sees d s2 t0 _ (proj1 H0) B2) as H2.
    destruct (run_skip_yes d F BracketL s2 t0 _ H2 K0) as [S1 [S2 S3]]. destruct (run d (skip BracketL) F s2) as [b3 s3]. cbn [fst snd] in S1, S2, S3. subst b3. cbv beta iota. cbn [negb run].
    set (cb := v <- parseValueLiteral f false;; Ret (([] : str), (None : option pos), v)).
    set (etext := fun c : str * option pos * value => value_string (snd c)).
    set (R := fun (c x : str * option pos * value) => fst (fst x) = [] /\ snd (fst x) = None /\ erase_value (snd x) = erase_value (snd c)).
    rewrite <- app_assoc in S2. cbn [app] in S2.
    assert (Htext : join [44] (map (fun c : str * option pos * value => let '(_, _, cv) := c in value_string cv) ch) = join [44] (map etext ch)).
    { f_equal. apply map_ext. intros [[n o] cv]. reflexivity. }
    rewrite Htext, <- (elems_text_join _ 93 etext ch txt) in S2.
    assert (Helems : Forall (elem_ok d F _ _ BracketR cb etext R) ch).
    { clear S2 Htext Hs. rewrite Forall_forall in IH. apply Forall_forall. intros [[n o] cv] Hin.
      assert (Hcv : value_ok cv /\ (value_depth cv <= f)%nat /\ (value_width cv < F)%nat).
      { clear - Hin Hch Hdep Hwid. induction ch as [|[[n1 o1] c1] tl IHl]; [destruct Hin|].
        destruct Hch as [_ [Hc1 Htl]]. cbn [value_depth value_width fold_right length] in Hdep, Hwid.
        destruct Hin as [E|Hin].
        - inversion E; subst. split; [exact Hc1|]. split; lia.
        - apply IHl; try assumption; cbn [value_depth value_width fold_right length]; lia. }
      destruct Hcv as [Hcv [Hd1 Hw1]].
      intros s0 rest Hr0 Hsep0. unfold etext in *. cbn [snd] in *.
      split.
      - intros s00 Hs00. destruct (value_first d cv s00 rest Hd Hcv (or_introl Hs00) Hsep0) as [t [txt1 [A [B _]]]]. exists t, txt1. auto.
      - unfold cb. cbn [run]. destruct (IH _ Hin Hcv f s0 rest Hd1 Hw1 Hr0 Hsep0) as [E1 [E2 E3]]. cbn [snd] in E1, E2, E3.
        destruct (run d (parseValueLiteral f false) F s0) as [v' s']. cbn [fst snd] in *. unfold R. cbn [fst snd]. auto. }
    assert (Hlen : (length ch < F)%nat) by (cbn [value_width] in Hwid; lia).
    destruct (iter_elems d F _ _ BracketR 93 cb etext R eq_refl ltac:(repeat split; [lia|discriminate|discriminate]) ltac:(intros; cbn; auto 10) ch Helems true F s3 [] txt Hlen S2)
      as [xs [s4 [tc [I1 [I2 [I3 [I4 I5]]]]]]].
    assert (Hloop : run d (until_loop BracketR cb) F s3 = iter F (run d (body _ BracketR cb) F) s3 []) by reflexivity.
    match goal with |- context [run d (until_loop BracketR ?c) F s3] => change (run d (until_loop BracketR c) F s3) with (iter F (run d (body _ BracketR cb) F) s3 []) end. rewrite I1. cbn [rev app]. cbv beta iota. cbn [run].
    assert (Hk4 : kind_eqb (tkind tc) Comment = false) by (rewrite I4; reflexivity).
    destruct (next_sees d s4 tc txt (holding_sees d s4 tc txt Hk4 I3)) as [N1 [N2 N3]]. destruct (next d s4) as [tn s5]. cbn [fst snd] in N1, N2, N3. cbv beta iota. cbn [run fst snd].
    split; [|split; [exact N2|congruence]].
    cbn [erase_value erase_kind]. f_equal.
    clear - I2 Hch. induction I2 as [|[[n o] cv] [[n' o'] v'] l l' [A [B C]] _ IHf]; [reflexivity|]. cbn [map]. cbn [fst snd] in A, B, C. subst.
    destruct Hch as [-> [_ Hl]]. rewrite C, (IHf Hl). reflexivity.
  - (* an input object *)
    destruct Hok as [-> Hch]. destruct fuel as [|f]; [cbn in Hdep; lia|]. cbn [parseValueLiteral run].
    cbn [value_string] in Hs. cbn [app] in Hs.
    destruct (ready_punct d s 123 BraceL _ Hs eq_refl) as [t0 [H0 K0]]; [lia|discriminate|discriminate|].
    destruct (peek_sees d s t0 _ H0) as [P1 [P2 P3]]. destruct (peek d s) as [tok s1]. cbn [fst snd] in P1, P2, P3. subst tok. cbv beta iota zeta. cbn [run]. rewrite K0. cbv beta iota. cbn [run].
    pose proof (holding_sees d s1 t0 _ (proj1 H0) P2) as H1.
    destruct (run_peekPos d F s1 t0 _ H1) as [B1 [B2 B3]]. destruct (run d peekPos F s1) as [pp s2]. cbn [fst snd] in B1, B2, B3. cbv beta iota. cbn [run]. unfold many. cbn [run].
    pose proof (holding_sees d s2 t0 _ (proj1 H0) B2) as H2.
    destruct (run_skip_yes d F BraceL s2 t0 _ H2 K0) as [S1 [S2 S3]]. destruct (run d (skip BraceL) F s2) as [b3 s3]. cbn [fst snd] in S1, S2, S3. subst b3. cbv beta iota. cbn [negb run].
    set (cb := fp <- peekPos ;; n <- parseName ;; _ <- expect Colon ;; v <- parseValueLiteral f false ;; Ret (n, Some fp, v)).
    set (etext := fun c : str * option pos * value => fst (fst c) ++ 58 :: value_string (snd c)).
    set (R := fun (c x : str * option pos * value) => fst (fst x) = fst (fst c) /\ erase_value (snd x) = erase_value (snd c)).
    rewrite <- app_assoc in S2. cbn [app] in S2.
    assert (S2' : fresh s3 (elems_text _ 125 etext true ch txt)).
    { rewrite elems_text_join. match type of S2 with fresh _ ?a => match goal with |- fresh _ ?b => replace b with a; [exact S2|] end end.
      apply (f_equal (fun l : str => l ++ 125 :: txt)). apply (f_equal (join [44])). apply map_ext. intros [[n o] cv]. reflexivity. }
    clear S2. rename S2' into S2.
    assert (Helems : Forall (elem_ok d F _ _ BraceR cb etext R) ch).
    { clear S2 Hs. rewrite Forall_forall in IH. apply Forall_forall. intros [[n o] cv] Hin.
      assert (Hcv : name_text n /\ value_ok cv /\ (value_depth cv <= f)%nat /\ (value_width cv < F)%nat).
      { clear - Hin Hch Hdep Hwid. induction ch as [|[[n1 o1] c1] tl IHl]; [destruct Hin|].
        destruct Hch as [Hn1 [Hc1 Htl]]. cbn [value_depth value_width fold_right length] in Hdep, Hwid.
        destruct Hin as [E|Hin].
        - inversion E; subst. split; [exact Hn1|]. split; [exact Hc1|]. split; lia.
        - apply IHl; try assumption; cbn [value_depth value_width fold_right length]; lia. }
      destruct Hcv as [Hn [Hcv [Hd1 Hw1]]].
      intros s0 rest Hr0 Hsep0. unfold etext in *. cbn [fst snd] in *. rewrite <- app_assoc in *. cbn [app] in *.
      assert (Hnh : noname_head (58 :: value_string cv ++ rest)) by reflexivity.
      split.
      - intros s00 Hs00. destruct (fresh_name d s00 n _ Hs00 Hn Hnh) as [t [A [B _]]]. exists t. eexists. split; [exact A|]. rewrite B. discriminate.
      - unfold cb. cbn [run].
        destruct (ready_name d s0 n _ Hr0 Hn Hnh) as [tn [T1 [T2 T3]]].
        destruct (run_peekPos d F s0 tn _ T1) as [Q1 [Q2 Q3]]. destruct (run d peekPos F s0) as [fp sa]. cbn [fst snd] in Q1, Q2, Q3. cbv beta iota. cbn [run].
        pose proof (holding_sees d sa tn _ (proj1 T1) Q2) as Ta.
        destruct (run_parseName d F sa tn _ Ta T2) as [N1 [N2 N3]]. destruct (run d parseName F sa) as [n' sb]. cbn [fst snd] in N1, N2, N3. cbv beta iota. cbn [run].
        destruct (fresh_punct d sb 58 Colon _ N2 eq_refl) as [tc [Tc [Kc _]]]; [lia|discriminate|discriminate|].
        destruct (run_expect d F Colon sb tc _ Tc Kc) as [X1 [X2 X3]]. destruct (run d (expect Colon) F sb) as [tk sc]. cbn [fst snd] in X1, X2, X3. cbv beta iota. cbn [run].
        destruct (IH _ Hin Hcv f sc rest Hd1 Hw1 (or_introl X2) Hsep0) as [E1 [E2 E3]].
        destruct (run d (parseValueLiteral f false) F sc) as [v' s']. cbn [fst snd] in *. unfold R. cbn [fst snd].
        split; [split; [congruence|exact E1]|]. split; [exact E2|congruence]. }
    assert (Hlen : (length ch < F)%nat) by (cbn [value_width] in Hwid; lia).
    destruct (iter_elems d F _ _ BraceR 125 cb etext R eq_refl ltac:(repeat split; [lia|discriminate|discriminate]) ltac:(intros; cbn; auto 10) ch Helems true F s3 [] txt Hlen S2)
      as [xs [s4 [tc [I1 [I2 [I3 [I4 I5]]]]]]].
    match goal with |- context [run d (until_loop BraceR ?c) F s3] => change (run d (until_loop BraceR c) F s3) with (iter F (run d (body _ BraceR cb) F) s3 []) end. rewrite I1. cbn [rev app]. cbv beta iota. cbn [run].
    assert (Hk4 : kind_eqb (tkind tc) Comment = false) by (rewrite I4; reflexivity).
    destruct (next_sees d s4 tc txt (holding_sees d s4 tc txt Hk4 I3)) as [N1 [N2 N3]]. destruct (next d s4) as [tn s5]. cbn [fst snd] in N1, N2, N3. cbv beta iota. cbn [run fst snd].
    split; [|split; [exact N2|congruence]].
    cbn [erase_value erase_kind]. f_equal.
    clear - I2. induction I2 as [|[[n o] cv] [[n' o'] v'] l l' [A C] _ IHf]; [reflexivity|]. cbn [map]. cbn [fst snd] in A, C. subst. rewrite C, IHf. reflexivity.
Qed.

(* the printed value alone, from a fresh parser: the same value, everything read, no error *)
Corollary value_roundtrip_alone : forall d v, d F_L1 = false -> value_ok v ->
  forall F fuel limit ix, (value_depth v <= fuel)%nat -> (value_width v < F)%nat -> limit = 0 ->
  let r := run d (parseValueLiteral fuel false) F (pst_init (value_string v) limit ix) in
  erase_value (fst r) = erase_value v /\ has_err (snd r) = false /\ peeked (snd r) = None /\ rest (plx (snd r)) = [].
Proof.
  intros d v Hd Hok F fuel L ix Hf Hw ->. cbv zeta.
  destruct (value_roundtrip d F Hd v Hok fuel (pst_init (value_string v) 0 ix) [] Hf Hw) as [E1 [[E2 [E3 [_ E4]]] _]].
  - left. rewrite app_nil_r. repeat split.
  - exact I.
  - auto.
Qed.

