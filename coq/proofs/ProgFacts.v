(* ProgFacts.v — facts about every parser program, proved once by induction on [prog]:
   the sticky error, monotone token counting, frame conditions, and the token-limit
   simulation (C16).  None of them depends on the grammar. *)
From GQL.model Require Import Base Utf8 Lexer Ast Parser Prog.
From GQL.proofs Require Import LexerTotal.
Open Scope Z_scope.

Ltac inv H := inversion H; subst; clear H.
Lemma consume_group_O : forall d s, consume_group d O s = set_err s PStall.
Proof. reflexivity. Qed.
Lemma consume_group_S : forall d f s, consume_group d (S f) s =
    if has_err s then s else
    let s1 := match peeked s with Some _ => s | None => read_peek d s end in
    if has_err s1 then s1 else
    match peeked s1 with
    | Some (t, e) => if kind_eqb t.(tkind) Comment then consume_group d f (next_peeked s1 t e) else s1
    | None => s1
    end.
Proof. reflexivity. Qed.
Arguments consume_group : simpl never.
Arguments group_fuel : simpl never.
Arguments readToken : simpl never.

(* ---------------- primitives on an error state ---------------- *)

Lemma set_err_sticky : forall s e, has_err s = true -> set_err s e = s.
Proof. intros s e H. unfold set_err, has_err in *. destruct (perr_ s); [reflexivity|discriminate]. Qed.

Lemma peek_sticky : forall d s, has_err s = true -> peek d s = (prev s, s).
Proof. intros d s H. unfold peek. rewrite H. reflexivity. Qed.

Lemma next_sticky : forall d s, has_err s = true -> next d s = (prev s, s).
Proof. intros d s H. unfold next. rewrite H. reflexivity. Qed.

Lemma error_at_sticky : forall s t, has_err s = true -> error_at s t = s.
Proof. intros. unfold error_at. apply set_err_sticky; auto. Qed.

Section Generic.
  Variable d : dev.

  (* ---------------- T1: the error is sticky for every program ---------------- *)

  Lemma iter_sticky : forall A (body : pst -> option A * pst) fuel s acc,
    (forall s', has_err s' = true -> snd (body s') = s') ->
    has_err s = true -> snd (iter fuel body s acc) = s.
  Proof.
    intros A body fuel. induction fuel as [|f IH]; intros s acc Hb He; cbn [iter].
    - simpl. apply set_err_sticky; auto.
    - pose proof (Hb s He) as Hs. destruct (body s) as [o s1]. simpl in Hs. subst s1.
      destruct o; [apply IH; auto|reflexivity].
  Qed.

  Theorem run_sticky : forall A (p : prog A) fuel s,
    has_err s = true -> snd (run d p fuel s) = s.
  Proof.
    intros A p. induction p as [A a|A B p IHp k IHk| | |t| | | | |A body IH]; intros fuel s He; cbn [run].
    - reflexivity.
    - specialize (IHp fuel s He). destruct (run d p fuel s) as [x s1]. simpl in IHp. subst s1.
      apply IHk; auto.
    - rewrite peek_sticky; auto.
    - rewrite next_sticky; auto.
    - simpl. apply error_at_sticky; auto.
    - reflexivity.
    - reflexivity.
    - reflexivity.
    - simpl. apply set_err_sticky; auto.
    - apply iter_sticky; auto.
  Qed.
End Generic.

(* ---------------- T2: relations preserved by every primitive hold for every program ---------------- *)

Section Rel.
  Variable d : dev.
  Variable R : pst -> pst -> Prop.
  Hypothesis R_refl : forall s, R s s.
  Hypothesis R_trans : forall a b c, R a b -> R b c -> R a c.
  Hypothesis R_peek : forall s, R s (snd (peek d s)).
  Hypothesis R_next : forall s, R s (snd (next d s)).
  Hypothesis R_set_err : forall s e, R s (set_err s e).

  Lemma iter_rel : forall A (body : pst -> option A * pst) fuel s acc,
    (forall s', R s' (snd (body s'))) -> R s (snd (iter fuel body s acc)).
  Proof.
    intros A body fuel. induction fuel as [|f IH]; intros s acc Hb; cbn [iter].
    - simpl. apply R_set_err.
    - pose proof (Hb s) as Hs. destruct (body s) as [o s1]. simpl in Hs.
      destruct o; [eapply R_trans; [exact Hs|apply IH; auto]|exact Hs].
  Qed.

  Theorem run_rel : forall A (p : prog A) fuel s, R s (snd (run d p fuel s)).
  Proof.
    intros A p. induction p as [A a|A B p IHp k IHk| | |t| | | | |A body IH]; intros fuel s; cbn [run].
    - apply R_refl.
    - specialize (IHp fuel s). destruct (run d p fuel s) as [x s1]. simpl in IHp.
      eapply R_trans; [exact IHp|apply IHk].
    - apply R_peek.
    - apply R_next.
    - simpl. unfold error_at. apply R_set_err.
    - apply R_refl.
    - apply R_refl.
    - apply R_refl.
    - simpl. apply R_set_err.
    - apply iter_rel. intros. apply IH.
  Qed.
End Rel.

(* ---------------- frame and counting facts of the primitives ---------------- *)

Definition frame (s s' : pst) : Prop :=
  lim s' = lim s /\ src s' = src s /\ (cnt s <= cnt s')%N /\ (reads s <= reads s')%N.

Lemma frame_refl : forall s, frame s s.
Proof. intros; unfold frame; repeat split; lia. Qed.
Lemma frame_trans : forall a b c, frame a b -> frame b c -> frame a c.
Proof. unfold frame; intros a b c [? [? [? ?]]] [? [? [? ?]]]; repeat split; try congruence; lia. Qed.

Lemma frame_set_err : forall s e, frame s (set_err s e).
Proof. intros. unfold set_err. destruct (perr_ s); simpl; apply frame_refl || (unfold frame; simpl; repeat split; lia). Qed.

Lemma frame_read_peek : forall d s, frame s (read_peek d s).
Proof.
  intros. unfold read_peek. destruct (readToken d (plx s)) as [[[t e] lx']|].
  - unfold frame; simpl; repeat split; lia.
  - apply frame_set_err.
Qed.

Lemma frame_next_peeked : forall s t e, frame s (next_peeked s t e).
Proof.
  intros. unfold next_peeked.
  destruct (negb (lim s =? 0)%N && (lim s <? cnt s + 1)%N); unfold frame; simpl; repeat split; lia.
Qed.

Lemma frame_consume_group : forall d fuel s, frame s (consume_group d fuel s).
Proof.
  intros d fuel. induction fuel as [|f IH]; intros s; [rewrite consume_group_O|rewrite consume_group_S; cbv zeta].
  - apply frame_set_err.
  - destruct (has_err s); [apply frame_refl|].
    assert (H1 : frame s (match peeked s with Some _ => s | None => read_peek d s end)).
    { destruct (peeked s); [apply frame_refl|apply frame_read_peek]. }
    remember (match peeked s with Some _ => s | None => read_peek d s end) as s1.
    destruct (has_err s1); [exact H1|].
    destruct (peeked s1) as [[t e]|]; [|exact H1].
    destruct (kind_eqb (tkind t) Comment); [|exact H1].
    eapply frame_trans; [exact H1|]. eapply frame_trans; [apply frame_next_peeked|apply IH].
  Qed.

Lemma frame_peek : forall d s, frame s (snd (peek d s)).
Proof.
  intros. unfold peek. destruct (has_err s); [apply frame_refl|].
  destruct (peeked s) as [[t e]|]; [apply frame_refl|].
  pose proof (frame_read_peek d s) as H1. remember (read_peek d s) as s1.
  assert (H2 : frame s1 (match peeked s1 with
              | Some (t, _) => if kind_eqb (tkind t) Comment then consume_group d (group_fuel s1) s1 else s1
              | None => s1 end)).
  { destruct (peeked s1) as [[t e]|]; [|apply frame_refl].
    destruct (kind_eqb (tkind t) Comment); [apply frame_consume_group|apply frame_refl]. }
  remember (match peeked s1 with
              | Some (t, _) => if kind_eqb (tkind t) Comment then consume_group d (group_fuel s1) s1 else s1
              | None => s1 end) as s2.
  destruct (peeked s2) as [[t e]|]; simpl; eapply frame_trans; eauto.
Qed.

Lemma frame_next : forall d s, frame s (snd (next d s)).
Proof.
  intros. unfold next. destruct (has_err s); [apply frame_refl|].
  destruct (peeked s) as [[t e]|].
  - simpl. apply frame_next_peeked.
  - destruct (negb (lim s =? 0)%N && (lim s <? cnt s + 1)%N).
    + unfold frame; simpl; repeat split; lia.
    + destruct (readToken d (plx s)) as [[[t e] lx']|].
      * destruct (kind_eqb (tkind t) Comment).
        -- cbn [snd]. eapply frame_trans; [|apply frame_consume_group]. unfold frame; simpl; repeat split; lia.
        -- unfold frame; simpl; repeat split; lia.
      * simpl. apply frame_set_err.
Qed.

Theorem run_frame : forall d A (p : prog A) fuel s, frame s (snd (run d p fuel s)).
Proof.
  intros d. apply run_rel.
  - apply frame_refl.
  - apply frame_trans.
  - apply frame_peek.
  - apply frame_next.
  - apply frame_set_err.
Qed.

(* ---------------- T3: the token limit (C16) ---------------- *)

Definition with_lim (L : N) (s : pst) : pst :=
  mkPst (plx s) (perr_ s) (peeked s) (prev s) (cnt s) L (src s) (reads s).

(* the unlimited run s0 and the run under limit L: in lockstep, or the limited run is dead *)
Definition lock (L : N) (s0 sL : pst) : Prop :=
  sL = with_lim L s0 /\ lim s0 = 0%N /\ perr_ s0 <> Some PLimit /\ (cnt s0 <= L)%N.
Definition dead (L : N) (s0 sL : pst) : Prop :=
  perr_ sL = Some PLimit /\ lim s0 = 0%N /\ (L < cnt s0)%N.

Lemma with_lim_set_err : forall L s e, set_err (with_lim L s) e = with_lim L (set_err s e).
Proof. intros. unfold set_err, with_lim; simpl. destruct (perr_ s) eqn:E; simpl; rewrite ?E; reflexivity. Qed.

Lemma with_lim_read_peek : forall d L s, read_peek d (with_lim L s) = with_lim L (read_peek d s).
Proof.
  intros. unfold read_peek. simpl. destruct (readToken d (plx s)) as [[[t e] lx']|].
  - reflexivity.
  - apply with_lim_set_err.
Qed.

Lemma lock_set_err : forall L s0 sL e, e <> PLimit -> lock L s0 sL -> lock L (set_err s0 e) (set_err sL e).
Proof.
  intros L s0 sL e He [H1 [H2 [H3 H4]]]. subst sL. unfold lock. rewrite with_lim_set_err.
  repeat split; auto; unfold set_err; destruct (perr_ s0) eqn:E; simpl; auto; congruence.
Qed.

Lemma lock_read_peek : forall d L s0 sL, lock L s0 sL -> lock L (read_peek d s0) (read_peek d sL).
Proof.
  intros d L s0 sL [H1 [H2 [H3 H4]]]. subst sL. rewrite with_lim_read_peek. unfold lock.
  split; [reflexivity|]. unfold read_peek. destruct (readToken d (plx s0)) as [[[t e] lx']|]; simpl.
  - auto.
  - unfold set_err. destruct (perr_ s0) eqn:E; simpl; repeat split; auto; congruence.
Qed.

Lemma lexerr_not_limit : forall e, lexerr_to_perr e <> Some PLimit.
Proof. destruct e; simpl; congruence. Qed.

Lemma lock_next_peeked : forall L s0 sL t e, L <> 0%N -> lock L s0 sL ->
  lock L (next_peeked s0 t e) (next_peeked sL t e) \/ dead L (next_peeked s0 t e) (next_peeked sL t e).
Proof.
  intros L s0 sL t e HL [H1 [H2 [H3 H4]]]. subst sL. unfold next_peeked. simpl. rewrite H2. simpl.
  destruct (L =? 0)%N eqn:E0; [apply N.eqb_eq in E0; congruence|]. simpl.
  destruct (L <? cnt s0 + 1)%N eqn:E1.
  - right. apply N.ltb_lt in E1. unfold dead; simpl. repeat split; auto.
  - left. apply N.ltb_ge in E1. unfold lock, with_lim; simpl. repeat split; auto. apply lexerr_not_limit.
Qed.

Lemma peeked_with_lim : forall L s, peeked (with_lim L s) = peeked s. Proof. reflexivity. Qed.
Lemma has_err_with_lim : forall L s, has_err (with_lim L s) = has_err s. Proof. reflexivity. Qed.

Lemma frame_dead_l : forall L s0 s0' sL, frame s0 s0' -> dead L s0 sL -> dead L s0' sL.
Proof. intros L s0 s0' sL [F1 [F2 [F3 F4]]] [D1 [D2 D3]]. unfold dead. repeat split; auto; try congruence. lia. Qed.

Lemma dead_has_err : forall L s0 sL, dead L s0 sL -> has_err sL = true.
Proof. intros L s0 sL [D1 _]. unfold has_err. rewrite D1. reflexivity. Qed.

Lemma lock_consume_group : forall d L fuel s0 sL, L <> 0%N -> lock L s0 sL ->
  lock L (consume_group d fuel s0) (consume_group d fuel sL) \/ dead L (consume_group d fuel s0) (consume_group d fuel sL).
Proof.
  intros d L fuel. induction fuel as [|f IH]; intros s0 sL HL Hl; [rewrite !consume_group_O|rewrite !consume_group_S; cbv zeta].
  - left. apply lock_set_err; auto; congruence.
  - assert (Hl' := Hl). destruct Hl' as [H1 [H2 [H3 H4]]]. subst sL. rewrite has_err_with_lim.
    destruct (has_err s0) eqn:E; [left; exact Hl|].
    rewrite peeked_with_lim.
    set (s1 := match peeked s0 with Some _ => s0 | None => read_peek d s0 end).
    assert (Hs1 : lock L s1 (match peeked s0 with Some _ => with_lim L s0 | None => read_peek d (with_lim L s0) end)).
    { unfold s1. destruct (peeked s0); [exact Hl|apply lock_read_peek; exact Hl]. }
    remember (match peeked s0 with Some _ => with_lim L s0 | None => read_peek d (with_lim L s0) end) as sL1.
    assert (Hl1 := Hs1). destruct Hl1 as [G1 [G2 [G3 G4]]]. subst sL1. rewrite G1.
    rewrite has_err_with_lim. destruct (has_err s1) eqn:E1; [left; rewrite <- G1; exact Hs1|].
    rewrite peeked_with_lim. destruct (peeked s1) as [[t e]|]; [|left; rewrite <- G1; exact Hs1].
    destruct (kind_eqb (tkind t) Comment); [|left; rewrite <- G1; exact Hs1].
    rewrite <- G1.
    destruct (lock_next_peeked L s1 _ t e HL Hs1) as [Hn|Hn].
    + apply IH; auto.
    + right. eapply frame_dead_l; [apply frame_consume_group|].
      pose proof (dead_has_err _ _ _ Hn) as He.
      destruct f; [rewrite consume_group_O, set_err_sticky; auto|rewrite consume_group_S, He; exact Hn].
Qed.

Lemma lock_peek : forall d L s0 sL, L <> 0%N -> lock L s0 sL ->
  (lock L (snd (peek d s0)) (snd (peek d sL)) /\ fst (peek d s0) = fst (peek d sL))
  \/ dead L (snd (peek d s0)) (snd (peek d sL)).
Proof.
  intros d L s0 sL HL Hl. assert (Hl' := Hl). destruct Hl' as [H1 [H2 [H3 H4]]]. subst sL.
  unfold peek. rewrite has_err_with_lim. destruct (has_err s0) eqn:E; [left; split; [exact Hl|reflexivity]|].
  rewrite peeked_with_lim. destruct (peeked s0) as [[t e]|] eqn:Ep; [left; split; [exact Hl|reflexivity]|].
  pose proof (lock_read_peek d L _ _ Hl) as Hr. rewrite with_lim_read_peek in *.
  set (s1 := read_peek d s0) in *. rewrite peeked_with_lim.
  assert (Hg : let a := match peeked s1 with
               | Some (t, _) => if kind_eqb (tkind t) Comment then consume_group d (group_fuel s1) s1 else s1
               | None => s1 end in
               let c := match peeked s1 with
               | Some (t, _) => if kind_eqb (tkind t) Comment then consume_group d (group_fuel (with_lim L s1)) (with_lim L s1) else with_lim L s1
               | None => with_lim L s1 end in
               lock L a c \/ dead L a c).
  { destruct (peeked s1) as [[t e]|]; [|left; exact Hr].
    destruct (kind_eqb (tkind t) Comment); [|left; exact Hr].
    change (group_fuel (with_lim L s1)) with (group_fuel s1). apply lock_consume_group; auto. }
  cbv zeta in Hg. destruct Hg as [Hg|Hg].
  - left. destruct Hg as [G1 [G2 [G3 G4]]]. rewrite G1. rewrite peeked_with_lim.
    match goal with |- context [peeked ?x] => destruct (peeked x) as [[t e]|] end; simpl;
      (split; [unfold lock; repeat split; auto|reflexivity]).
  - right.
    match goal with |- dead L (snd (match peeked ?a with _ => _ end)) (snd (match peeked ?c with _ => _ end)) =>
      destruct (peeked a) as [[t e]|]; destruct (peeked c) as [[t' e']|]; simpl; exact Hg end.
Qed.

Lemma lock_next : forall d L s0 sL, L <> 0%N -> lock L s0 sL ->
  (lock L (snd (next d s0)) (snd (next d sL)) /\ fst (next d s0) = fst (next d sL))
  \/ dead L (snd (next d s0)) (snd (next d sL)).
Proof.
  intros d L s0 sL HL Hl. assert (Hl' := Hl). destruct Hl' as [H1 [H2 [H3 H4]]]. subst sL.
  unfold next. rewrite has_err_with_lim. destruct (has_err s0) eqn:E; [left; split; [exact Hl|reflexivity]|].
  rewrite peeked_with_lim. destruct (peeked s0) as [[t e]|] eqn:Ep.
  - destruct (lock_next_peeked L s0 _ t e HL Hl) as [Hn|Hn].
    + left. split; [exact Hn|]. destruct Hn as [G1 _]. simpl. rewrite G1. reflexivity.
    + right. exact Hn.
  - simpl lim. rewrite H2. simpl.
    destruct (L =? 0)%N eqn:E0; [apply N.eqb_eq in E0; congruence|]. simpl.
    destruct (L <? cnt s0 + 1)%N eqn:E1.
    + right. apply N.ltb_lt in E1.
      destruct (readToken d (plx s0)) as [[[t e] lx']|] eqn:Er.
      * cbn [snd]. unfold dead. split; [reflexivity|].
        set (a := mkPst lx' (lexerr_to_perr e) None t (cnt s0 + 1) 0 (src s0) (reads s0 + 1)).
        assert (F : frame a (if kind_eqb (tkind t) Comment then consume_group d (group_fuel a) a else a)).
        { destruct (kind_eqb (tkind t) Comment); [apply frame_consume_group|apply frame_refl]. }
        destruct F as [F1 [F2 [F3 F4]]]. change (lim a) with 0%N in F1. change (cnt a) with (cnt s0 + 1)%N in F3.
        split; [exact F1|lia].
      * exfalso. eapply readToken_total; eauto.
    + apply N.ltb_ge in E1. simpl plx.
      destruct (readToken d (plx s0)) as [[[t e] lx']|].
      * set (a := mkPst lx' (lexerr_to_perr e) None t (cnt s0 + 1) 0 (src s0) (reads s0 + 1)).
        assert (Ha : lock L a (mkPst lx' (lexerr_to_perr e) None t (cnt s0 + 1) L (src s0) (reads s0 + 1))).
        { unfold lock, with_lim, a; simpl. repeat split; auto. apply lexerr_not_limit. }
        destruct (kind_eqb (tkind t) Comment).
        -- change (group_fuel (mkPst lx' (lexerr_to_perr e) None t (cnt s0 + 1) L (src s0) (reads s0 + 1)))
             with (group_fuel a).
           destruct (lock_consume_group d L (group_fuel a) _ _ HL Ha) as [Hg|Hg].
           ++ left. cbn [snd fst]. split; [exact Hg|]. destruct Hg as [G1 _]. rewrite G1. reflexivity.
           ++ right. exact Hg.
        -- left. cbn [snd fst]. split; [exact Ha|reflexivity].
      * left. cbn [snd fst]. split; [|rewrite with_lim_set_err; reflexivity].
        apply (lock_set_err L s0 (with_lim L s0) PStall); [congruence|exact Hl].
Qed.

Section Limit.
  Variable d : dev.
  Variable L : N.
  Hypothesis HL : L <> 0%N.

  Lemma dead_run : forall A B (p : prog A) (q : prog B) fuel fuel' s0 sL,
    dead L s0 sL -> dead L (snd (run d p fuel s0)) (snd (run d q fuel' sL)).
  Proof.
    intros. rewrite (run_sticky d B q fuel' sL (dead_has_err _ _ _ H)).
    eapply frame_dead_l; [apply run_frame|exact H].
  Qed.

  Lemma frame_iter : forall A (p : prog (option A)) fuel n s acc, frame s (snd (iter n (run d p fuel) s acc)).
  Proof.
    intros. apply iter_rel; [apply frame_trans|apply frame_set_err|].
    intros. apply run_frame.
  Qed.

  Lemma iter_limit_sim : forall A (body : prog (option A)) fuel,
    (forall s0 sL, lock L s0 sL ->
        (lock L (snd (run d body fuel s0)) (snd (run d body fuel sL)) /\
         fst (run d body fuel s0) = fst (run d body fuel sL))
        \/ dead L (snd (run d body fuel s0)) (snd (run d body fuel sL))) ->
    forall n s0 sL acc, lock L s0 sL ->
      (lock L (snd (iter n (run d body fuel) s0 acc)) (snd (iter n (run d body fuel) sL acc)) /\
       fst (iter n (run d body fuel) s0 acc) = fst (iter n (run d body fuel) sL acc))
      \/ dead L (snd (iter n (run d body fuel) s0 acc)) (snd (iter n (run d body fuel) sL acc)).
  Proof.
    intros A body fuel Hb n. induction n as [|n IH]; intros s0 sL acc Hl; cbn [iter].
    - left. simpl. split; [apply lock_set_err; auto; congruence|reflexivity].
    - destruct (Hb s0 sL Hl) as [[Hl1 Heq]|Hd].
      + destruct (run d body fuel s0) as [o0 s0']. destruct (run d body fuel sL) as [oL sL'].
        simpl in *. subst oL. destruct o0; [apply IH; auto|left; split; auto].
      + right. destruct (run d body fuel s0) as [o0 s0']. destruct (run d body fuel sL) as [oL sL'].
        simpl in Hd.
        assert (HsL : forall n acc, snd (iter n (run d body fuel) sL' acc) = sL').
        { intros. apply iter_sticky; [intros; apply run_sticky; auto|eapply dead_has_err; eauto]. }
        assert (Hs0 : forall acc, dead L (snd (iter n (run d body fuel) s0' acc)) sL').
        { intros. eapply frame_dead_l; [apply frame_iter|exact Hd]. }
        destruct o0, oL; cbn [snd]; rewrite ?HsL; auto.
  Qed.

  Theorem run_limit_sim : forall A (p : prog A) fuel s0 sL, lock L s0 sL ->
    (lock L (snd (run d p fuel s0)) (snd (run d p fuel sL)) /\
     fst (run d p fuel s0) = fst (run d p fuel sL))
    \/ dead L (snd (run d p fuel s0)) (snd (run d p fuel sL)).
  Proof.
    intros A p. induction p as [A a|A B p IHp k IHk| | |t| | | | |A body IH]; intros fuel s0 sL Hl; cbn [run].
    - left. simpl. auto.
    - destruct (IHp fuel s0 sL Hl) as [[Hl1 Heq]|Hd].
      + destruct (run d p fuel s0) as [x0 s0']. destruct (run d p fuel sL) as [xL sL'].
        simpl in *. subst xL. apply IHk; auto.
      + right. destruct (run d p fuel s0) as [x0 s0']. destruct (run d p fuel sL) as [xL sL'].
        simpl in Hd. apply dead_run; auto.
    - apply lock_peek; auto.
    - apply lock_next; auto.
    - left. simpl. split; [|reflexivity]. unfold error_at. apply lock_set_err; auto; congruence.
    - left. simpl. split; [auto|]. destruct Hl as [H1 _]. subst sL. reflexivity.
    - left. simpl. split; [auto|]. destruct Hl as [H1 _]. subst sL. reflexivity.
    - left. simpl. split; [auto|]. destruct Hl as [H1 _]. subst sL. reflexivity.
    - left. simpl. split; [|reflexivity]. apply lock_set_err; auto; congruence.
    - apply iter_limit_sim; auto.
  Qed.
End Limit.

(* ---------------- T4: work under a limit — ReadToken calls are bounded by the limit ---------------- *)

(* every token read is either counted or still peeked; the count stops one past the limit *)
Definition workinv (s : pst) : Prop :=
  (reads s <= cnt s + 1)%N /\
  (lim s <> 0%N -> (cnt s <= lim s + 1)%N /\ (perr_ s = None -> (cnt s <= lim s)%N)) /\
  (peeked s = None -> perr_ s = None -> (reads s <= cnt s)%N).

Section Inv.
  Variable d : dev.
  Variable I : pst -> Prop.
  Hypothesis I_peek : forall s, I s -> I (snd (peek d s)).
  Hypothesis I_next : forall s, I s -> I (snd (next d s)).
  Hypothesis I_set_err : forall s e, I s -> I (set_err s e).

  Lemma iter_inv : forall A (body : pst -> option A * pst) fuel s acc,
    (forall s', I s' -> I (snd (body s'))) -> I s -> I (snd (iter fuel body s acc)).
  Proof.
    intros A body fuel. induction fuel as [|f IH]; intros s acc Hb Hi; cbn [iter].
    - simpl. apply I_set_err; auto.
    - pose proof (Hb s Hi) as Hs. destruct (body s) as [o s1]. simpl in Hs.
      destruct o; [apply IH; auto|exact Hs].
  Qed.

  Theorem run_inv : forall A (p : prog A) fuel s, I s -> I (snd (run d p fuel s)).
  Proof.
    intros A p. induction p as [A a|A B p IHp k IHk| | |t| | | | |A body IH]; intros fuel s Hi; cbn [run]; auto.
    - specialize (IHp fuel s Hi). destruct (run d p fuel s) as [x s1]. simpl in IHp. apply IHk; auto.
    - simpl. unfold error_at. apply I_set_err; auto.
    - simpl. apply I_set_err; auto.
    - apply iter_inv; auto.
  Qed.
End Inv.

Lemma has_err_false : forall s, has_err s = false -> perr_ s = None.
Proof. unfold has_err; intros s H; destruct (perr_ s); [discriminate|reflexivity]. Qed.

Lemma workinv_set_err : forall s e, workinv s -> workinv (set_err s e).
Proof.
  intros s e [W1 [W2 W3]]. unfold set_err. destruct (perr_ s) eqn:E; [unfold workinv; rewrite E; auto|].
  unfold workinv; simpl. split; [auto|]. split; [|intros; discriminate].
  intro Hl. destruct (W2 Hl) as [A _]. split; [auto|intros; discriminate].
Qed.

Lemma workinv_read_peek : forall d s, peeked s = None -> perr_ s = None -> workinv s -> workinv (read_peek d s).
Proof.
  intros d s Hp He [W1 [W2 W3]]. unfold read_peek.
  destruct (readToken d (plx s)) as [[[t e] lx']|]; [|apply workinv_set_err; unfold workinv; auto].
  specialize (W3 Hp He). unfold workinv; simpl. split; [lia|]. split; [exact W2|intros; discriminate].
Qed.

Lemma workinv_next_peeked : forall s t e, perr_ s = None -> workinv s -> workinv (next_peeked s t e).
Proof.
  intros s t e He [W1 [W2 W3]]. unfold next_peeked.
  destruct (negb (lim s =? 0)%N && (lim s <? cnt s + 1)%N) eqn:E; unfold workinv; simpl.
  - apply andb_true_iff in E. destruct E as [E1 E2]. apply negb_true_iff in E1. apply N.eqb_neq in E1.
    destruct (W2 E1) as [A B]. specialize (B He). split; [lia|]. split; [|intros; discriminate].
    intros _. split; [lia|intros; discriminate].
  - split; [lia|]. split; [|intros; lia].
    intro Hl. apply andb_false_iff in E. destruct E as [E|E].
    + apply negb_false_iff in E. apply N.eqb_eq in E. congruence.
    + apply N.ltb_ge in E. split; [lia|intros; lia].
Qed.

Lemma workinv_consume_group : forall d fuel s, workinv s -> workinv (consume_group d fuel s).
Proof.
  intros d fuel. induction fuel as [|f IH]; intros s W; [rewrite consume_group_O|rewrite consume_group_S; cbv zeta].
  - apply workinv_set_err; auto.
  - destruct (has_err s) eqn:E; [exact W|]. apply has_err_false in E.
    assert (W1 : workinv (match peeked s with Some _ => s | None => read_peek d s end)).
    { destruct (peeked s) eqn:Ep; [exact W|apply workinv_read_peek; auto]. }
    remember (match peeked s with Some _ => s | None => read_peek d s end) as s1.
    destruct (has_err s1) eqn:E1; [exact W1|]. apply has_err_false in E1.
    destruct (peeked s1) as [[t e]|]; [|exact W1].
    destruct (kind_eqb (tkind t) Comment); [|exact W1].
    apply IH. apply workinv_next_peeked; auto.
Qed.

Lemma workinv_peek : forall d s, workinv s -> workinv (snd (peek d s)).
Proof.
  intros d s W. unfold peek. destruct (has_err s) eqn:E; [exact W|]. apply has_err_false in E.
  destruct (peeked s) as [[t e]|] eqn:Ep; [exact W|].
  pose proof (workinv_read_peek d s Ep E W) as W1. remember (read_peek d s) as s1.
  assert (W2 : workinv (match peeked s1 with
              | Some (t, _) => if kind_eqb (tkind t) Comment then consume_group d (group_fuel s1) s1 else s1
              | None => s1 end)).
  { destruct (peeked s1) as [[t e]|]; [|exact W1].
    destruct (kind_eqb (tkind t) Comment); [apply workinv_consume_group; auto|exact W1]. }
  remember (match peeked s1 with
              | Some (t, _) => if kind_eqb (tkind t) Comment then consume_group d (group_fuel s1) s1 else s1
              | None => s1 end) as s2.
  destruct (peeked s2) as [[t e]|]; simpl; exact W2.
Qed.

Lemma workinv_next : forall d s, workinv s -> workinv (snd (next d s)).
Proof.
  intros d s W. unfold next. destruct (has_err s) eqn:E; [exact W|]. apply has_err_false in E.
  destruct (peeked s) as [[t e]|] eqn:Ep.
  - simpl. apply workinv_next_peeked; auto.
  - destruct W as [W1 [W2 W3]]. specialize (W3 Ep E).
    destruct (negb (lim s =? 0)%N && (lim s <? cnt s + 1)%N) eqn:El.
    + cbn [snd]. apply andb_true_iff in El. destruct El as [E1 E2]. apply negb_true_iff in E1. apply N.eqb_neq in E1.
      destruct (W2 E1) as [A B]. specialize (B E). unfold workinv; simpl.
      split; [lia|]. split; [|intros; discriminate]. intros _. split; [lia|intros; discriminate].
    + assert (Hc : lim s <> 0%N -> (cnt s + 1 <= lim s)%N).
      { intro Hl. apply andb_false_iff in El. destruct El as [El|El].
        - apply negb_false_iff in El. apply N.eqb_eq in El. congruence.
        - apply N.ltb_ge in El. exact El. }
      destruct (readToken d (plx s)) as [[[t e] lx']|].
      * set (a := mkPst lx' (lexerr_to_perr e) None t (cnt s + 1) (lim s) (src s) (reads s + 1)).
        assert (Wa : workinv a).
        { unfold workinv, a; simpl. split; [lia|]. split; [|intros; lia].
          intro Hl. specialize (Hc Hl). split; [lia|intros; lia]. }
        destruct (kind_eqb (tkind t) Comment); cbn [snd]; [apply workinv_consume_group|]; exact Wa.
      * cbn [snd]. apply workinv_set_err. unfold workinv; auto.
Qed.

Theorem run_workinv : forall d A (p : prog A) fuel s, workinv s -> workinv (snd (run d p fuel s)).
Proof.
  intros d. apply run_inv.
  - apply workinv_peek.
  - apply workinv_next.
  - apply workinv_set_err.
Qed.

Lemma workinv_init : forall input L ix, workinv (pst_init input L ix).
Proof. intros. unfold workinv, pst_init; simpl. split; [lia|]. split; [intros; split; [lia|intros; lia]|intros; lia]. Qed.

(* under a limit L the lexer is asked for at most L + 2 tokens, whatever the program and the input *)
Theorem run_reads_bounded : forall d A (p : prog A) fuel input L ix, L <> 0%N ->
  (reads (snd (run d p fuel (pst_init input L ix))) <= L + 2)%N.
Proof.
  intros d A p fuel input L ix HL.
  pose proof (run_workinv d A p fuel _ (workinv_init input L ix)) as [W1 [W2 _]].
  pose proof (run_frame d A p fuel (pst_init input L ix)) as [F1 _].
  simpl in F1. rewrite F1 in W2. destruct (W2 HL) as [A1 _]. lia.
Qed.
