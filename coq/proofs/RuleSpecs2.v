(* RuleSpecs2.v — three more validation rules against their declarative reading (C08): rules that
   look at each operation definition by itself. *)
From Coq Require Import List NArith ZArith Bool Lia Permutation.
From GQL.model Require Import Base Utf8 Lexer Ast Schema Walk Rules Rules2 Validate.
From GQL.proofs Require Import StrFacts RuleCompose JsonRoundtrip Linked RuleSpecs.
Import ListNotations.

Section OpRules.
  Variable s : schema.
  Variable doc : qdoc.

  (* a stateless rule that reacts to operation events only: silent iff silent on every operation *)
  Lemma stateless_ops_run : forall n (g : cev -> list rerr) (f : opdef -> list rerr),
    (forall a c o u, g (a, c, EvOperation o u) = f o) ->
    forall ops L, Forall2 op_event ops L ->
    (run_events [stateless n g] L = [] <-> forall o, In o ops -> f o = []).
  Proof.
    intros n g f Hg. unfold stateless. induction ops as [|o tl IH]; intros L H; inversion H as [|? e ? L' [used ->] H2]; subst.
    - cbn. split; [intros _ ? []|reflexivity].
    - cbn [run_events deliver rinst_step]. rewrite app_nil_r, Hg. specialize (IH L' H2). split.
      + intro Hr. apply app_eq_nil in Hr as [H1 Hr]. apply map_eq_nil in H1. intros o' [<-|Hin]; [exact H1|exact (proj1 IH Hr o' Hin)].
      + intro Ha. rewrite (Ha o (or_introl eq_refl)). cbn [map app]. apply (proj2 IH). intros o' Hin. apply Ha. right. exact Hin.
  Qed.

  Lemma stateless_only_ops : forall n (g : cev -> list rerr),
    (forall e, is_op e = false -> g e = []) ->
    run_events [stateless n g] (walk s doc) = run_events [stateless n g] (filter is_op (walk s doc)).
  Proof.
    intros n g Hg. unfold stateless. apply run_events_filter. intros [] e He. rewrite (Hg e He). reflexivity.
  Qed.

  Lemma flat_map_nil : forall A B (f : A -> list B) l, flat_map f l = [] <-> forall x, In x l -> f x = [].
  Proof.
    intros A B f. induction l as [|x l IH]; [cbn; split; [intros _ ? []|reflexivity]|].
    cbn [flat_map]. split.
    - intro H. apply app_eq_nil in H as [H1 H2]. intros y [<-|Hy]; [exact H1|apply IH; assumption].
    - intro H. rewrite (H x (or_introl eq_refl)). cbn. apply IH. intros y Hy. apply H. right. exact Hy.
  Qed.

  (* KnownRootType: every operation's root type exists *)
  Theorem KnownRootType_spec :
    run_events [r_KnownRootType s] (walk s doc) = [] <-> forall o, In o doc.(q_ops) -> root_def s o.(o_op) <> None.
  Proof.
    unfold r_KnownRootType.
    rewrite stateless_only_ops.
    2:{ intros [[a c] e] Hp; destruct e; try reflexivity. unfold is_op in Hp; cbn [snd] in Hp. discriminate Hp. }
    rewrite (stateless_ops_run _ _ (fun o => if is_some (root_def s o.(o_op)) then [] else [err_at o.(o_pos)])
               (fun _ _ _ _ => eq_refl) _ _ (walk_ops s doc)).
    split; intros H o Ho; specialize (H o Ho).
    - destruct (root_def s (o_op o)); [discriminate|cbn in H; discriminate].
    - destruct (root_def s (o_op o)); [reflexivity|contradiction].
  Qed.

  (* VariablesAreInputTypes: a variable whose type is known has an input type (scalar, enum, input object) *)
  Theorem VariablesAreInputTypes_spec :
    run_events [r_VariablesAreInputTypes s] (walk s doc) = []
    <-> forall o v d, In o doc.(q_ops) -> In v o.(o_vars) -> stype s (type_name v.(vd_type)) = Some d -> kind_is_input d.(df_kind) = true.
  Proof.
    unfold r_VariablesAreInputTypes.
    rewrite stateless_only_ops.
    2:{ intros [[a c] e] Hp; destruct e; try reflexivity. unfold is_op in Hp; cbn [snd] in Hp. discriminate Hp. }
    rewrite (stateless_ops_run _ _ (fun o => flat_map (fun v => match stype s (type_name v.(vd_type)) with
                                     | Some d => if kind_is_input d.(df_kind) then [] else [err_at v.(vd_pos)]
                                     | None => []
                                     end) o.(o_vars))
               (fun _ _ _ _ => eq_refl) _ _ (walk_ops s doc)).
    split.
    - intros H o v d Ho Hv Hd. specialize (H o Ho). cbv beta in H. rewrite flat_map_nil in H. specialize (H v Hv).
      rewrite Hd in H. destruct (kind_is_input (df_kind d)); [reflexivity|discriminate].
    - intros H o Ho. cbv beta. apply flat_map_nil. intros v Hv.
      destruct (stype s (type_name (vd_type v))) as [d|] eqn:Ed; [|reflexivity]. rewrite (H o v d Ho Hv Ed). reflexivity.
  Qed.

  (* ---- UniqueVariableNames ---- *)
  Lemma count_zero : forall x l, count_occ_str x l = O <-> ~ In x l.
  Proof.
    intros x l. unfold count_occ_str. induction l as [|y l IH]; [cbn; tauto|].
    cbn [filter]. destruct (str_eqb x y) eqn:E.
    - apply str_eqb_eq in E. subst. cbn. split; [discriminate|intro H; exfalso; apply H; left; reflexivity].
    - apply str_eqb_neq in E. rewrite IH. cbn. split; [intros H [E2|H2]; [congruence|contradiction]|intros H H2; apply H; right; exact H2].
  Qed.

  Lemma count_one_nodup : forall x l, NoDup l -> In x l -> count_occ_str x l = 1%nat.
  Proof.
    intros x l H. induction H as [|y l Hy Hl IH]; intros Hin; [destruct Hin|].
    unfold count_occ_str in *. cbn [filter]. destruct (str_eqb x y) eqn:E.
    - apply str_eqb_eq in E. subst. cbn [length]. f_equal. apply (proj2 (count_zero y l)). exact Hy.
    - apply str_eqb_neq in E. destruct Hin as [E2|Hin]; [congruence|apply IH; exact Hin].
  Qed.

  Lemma dup_second_vars_spec : forall l seen, NoDup seen ->
    (dup_second_vars l seen = [] <-> NoDup (map vd_var l ++ seen)).
  Proof.
    induction l as [|v tl IH]; intros seen Hs; [cbn; tauto|].
    cbn [dup_second_vars map app].
    destruct (in_dec (list_eq_dec N.eq_dec) (vd_var v) seen) as [Hin|Hnin].
    - rewrite (count_one_nodup _ _ Hs Hin). cbn. split; [discriminate|].
      intro H. apply NoDup_cons_iff in H as [H _]. exfalso. apply H. apply in_or_app. right. exact Hin.
    - rewrite (proj2 (count_zero _ _) Hnin). cbn [Nat.eqb app].
      rewrite (IH (vd_var v :: seen) (NoDup_cons _ Hnin Hs)).
      split; intro H.
      + apply (Permutation_NoDup (l := map vd_var tl ++ vd_var v :: seen)); [|exact H].
        symmetry. apply Permutation_middle.
      + apply (Permutation_NoDup (l := vd_var v :: map vd_var tl ++ seen)); [|exact H]. apply Permutation_middle.
  Qed.

  (* UniqueVariableNames: within every operation, no two variable definitions share a name *)
  Theorem UniqueVariableNames_spec :
    run_events [r_UniqueVariableNames] (walk s doc) = [] <-> forall o, In o doc.(q_ops) -> NoDup (map vd_var o.(o_vars)).
  Proof.
    unfold r_UniqueVariableNames.
    rewrite stateless_only_ops.
    2:{ intros [[a c] e] Hp; destruct e; try reflexivity. unfold is_op in Hp; cbn [snd] in Hp. discriminate Hp. }
    rewrite (stateless_ops_run _ _ (fun o => dup_second_vars o.(o_vars) []) (fun _ _ _ _ => eq_refl) _ _ (walk_ops s doc)).
    split; intros H o Ho; specialize (H o Ho).
    - apply (dup_second_vars_spec _ [] (NoDup_nil _)) in H. rewrite app_nil_r in H. exact H.
    - apply (dup_second_vars_spec _ [] (NoDup_nil _)). rewrite app_nil_r. exact H.
  Qed.

  (* a valid document satisfies the three conditions *)
  Theorem valid_document_operations : validate s doc = [] ->
    (forall o, In o doc.(q_ops) -> root_def s o.(o_op) <> None)
    /\ (forall o, In o doc.(q_ops) -> NoDup (map vd_var o.(o_vars)))
    /\ (forall o v d, In o doc.(q_ops) -> In v o.(o_vars) -> stype s (type_name v.(vd_type)) = Some d -> kind_is_input d.(df_kind) = true).
  Proof.
    intro Hv.
    assert (Hr : forall r, In r (default_rules false s doc) -> run_events [r] (walk s doc) = [])
      by (intros r Hin; eapply validate_silent; [apply default_rules_names_nodup|exact Hin|exact Hv]).
    split; [|split].
    - apply KnownRootType_spec. apply Hr. cbn. auto 40.
    - apply UniqueVariableNames_spec. apply Hr. cbn. auto 40.
    - apply VariablesAreInputTypes_spec. apply Hr. cbn. auto 40.
  Qed.
End OpRules.
