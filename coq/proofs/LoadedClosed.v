(* LoadedClosed.v — every schema the loader model returns is closed: what its definitions
   refer to exists in it and has the right kind (C07). *)
From Coq Require Import List NArith Bool.
From GQL.model Require Import Base Lexer Ast Schema.
From GQL.proofs Require Import StrFacts.
Import ListNotations.

Lemma lookup_in : forall A (k : str) (l : list (str * A)) v, lookup k l = Some v -> In (k, v) l.
Proof.
  induction l as [|[k' v'] l IH]; intros v H; cbn in H; [discriminate|].
  destruct (str_eqb k k') eqn:E.
  - apply str_eqb_eq in E. subst. inversion H; subst. left. reflexivity.
  - right. apply IH. exact H.
Qed.

Lemma lookup_update_same : forall A (k : str) (v : A) l, lookup k (update k v l) = Some v.
Proof.
  induction l as [|[k' v'] l IH]; cbn.
  - rewrite str_eqb_refl. reflexivity.
  - destruct (str_eqb k k') eqn:E; cbn.
    + rewrite str_eqb_refl. reflexivity.
    + rewrite E. exact IH.
Qed.

Lemma lookup_update_other : forall A (k k' : str) (v : A) l, str_eqb k' k = false -> lookup k' (update k v l) = lookup k' l.
Proof.
  induction l as [|[k2 v2] l IH]; intro H; cbn.
  - rewrite H. reflexivity.
  - destruct (str_eqb k k2) eqn:E; cbn.
    + apply str_eqb_eq in E. subst k2. rewrite H. reflexivity.
    + destruct (str_eqb k' k2); [reflexivity|]. apply IH. exact H.
Qed.

(* the keys of a table survive an update of an existing key *)
Lemma lookup_update_some : forall A (k k' : str) (v : A) l,
  is_some (lookup k l) = true -> is_some (lookup k' (update k v l)) = is_some (lookup k' l).
Proof.
  intros A k k' v l Hk. destruct (str_eqb k' k) eqn:E.
  - apply str_eqb_eq in E. subst k'. rewrite lookup_update_same, Hk. reflexivity.
  - rewrite lookup_update_other; auto.
Qed.

(* ---- what "closed" means ---- *)
Section Closed.
  Variable s : schema.
  Definition has_type (n : str) (p : dkind -> bool) : Prop :=
    exists td, lookup n s.(sc_types) = Some td /\ p td.(df_kind) = true.
  Definition any_kind (k : dkind) : bool := true.

  Definition args_closed (args : list argdef) : Prop :=
    forall a, In a args -> has_type (type_name a.(ad_type)) kind_is_input.

  Definition field_closed (owner : definition) (f : fielddef) : Prop :=
    has_type (type_name f.(fd_type))
             (match owner.(df_kind) with
              | KObject | KInterface => kind_is_output
              | KInputObject => kind_is_input
              | _ => any_kind end)
    /\ args_closed f.(fd_args).

  Definition def_closed (d : definition) : Prop :=
    (forall f, In f d.(df_fields) -> In f introspection_fields \/ field_closed d f)
    /\ (forall t, In t d.(df_types) -> has_type t (fun k => dkind_eqb k KObject))
    /\ (forall i, In i d.(df_ifaces) -> has_type i (fun k => dkind_eqb k KInterface)).

  Definition root_closed (r : option str) : Prop :=
    match r with Some n => has_type n (fun k => dkind_eqb k KObject) | None => True end.

  Definition closed : Prop :=
    (forall n d, lookup n s.(sc_types) = Some d -> def_closed d)
    /\ (forall n dd, lookup n s.(sc_dirs) = Some dd -> args_closed dd.(dd_args))
    /\ root_closed s.(sc_query) /\ root_closed s.(sc_mutation) /\ root_closed s.(sc_subscription).
End Closed.

(* ---- validateDefinition gives closedness w.r.t. the table it checked ---- *)
Section FromValidate.
  Variable types : list (str * definition).
  Variable dirs : list (str * dirdef).
  Variable possible : list (str * list str).

  Definition has_type_in (n : str) (p : dkind -> bool) : Prop :=
    exists td, lookup n types = Some td /\ p td.(df_kind) = true.

  Lemma validateArgs_closed : forall args cur, validateArgs types dirs args cur = true ->
    forall a, In a args -> has_type_in (type_name a.(ad_type)) kind_is_input.
  Proof.
    intros args cur H a Hin. unfold validateArgs in H. rewrite forallb_forall in H. specialize (H a Hin).
    unfold validateTypeRef in H.
    destruct (lookup (type_name (ad_type a)) types) as [td|] eqn:E.
    - exists td. split; [exact E|]. repeat (apply andb_true_iff in H as [H ?]). assumption.
    - exfalso. repeat (apply andb_true_iff in H as [H ?]). discriminate.
  Qed.

  (* the conjuncts of validateDefinition, one lemma each *)
  Lemma vd_fields : forall d, validateDefinition types dirs possible d = true ->
    forallb (fun f => validName f.(fd_name) && validateTypeRef types f.(fd_type) && validateArgs types dirs f.(fd_args) None
      && validateDirectives dirs f.(fd_dirs) (if dkind_eqb d.(df_kind) KInputObject then b "INPUT_FIELD_DEFINITION" else b "FIELD_DEFINITION") None)
      d.(df_fields) = true.
  Proof. intros d H. unfold validateDefinition in H. repeat (apply andb_true_iff in H as [H ?]). exact H. Qed.

  Lemma vd_members : forall d, validateDefinition types dirs possible d = true ->
    forallb (fun t => match lookup t types with Some td => dkind_eqb td.(df_kind) KObject | None => false end) d.(df_types) = true.
  Proof. intros d H. unfold validateDefinition in H. repeat (apply andb_true_iff in H as [H ?]). assumption. Qed.

  Lemma vd_ifaces : forall d, validateDefinition types dirs possible d = true ->
    forallb (validateImplements types possible d) d.(df_ifaces) = true.
  Proof. intros d H. unfold validateDefinition in H. repeat (apply andb_true_iff in H as [H ?]). assumption. Qed.

  Lemma vd_kinds : forall d, validateDefinition types dirs possible d = true ->
    forall f, In f d.(df_fields) -> forall td, lookup (type_name f.(fd_type)) types = Some td ->
      (match d.(df_kind) with
       | KObject | KInterface => kind_is_output
       | KInputObject => kind_is_input
       | _ => any_kind end) td.(df_kind) = true.
  Proof.
    intros d H f Hin td E. unfold validateDefinition in H. repeat (apply andb_true_iff in H as [H ?]).
    destruct (df_kind d); try reflexivity;
    match goal with Hk : negb _ && forallb _ (df_fields d) = true |- _ =>
      apply andb_true_iff in Hk as [_ Hk]; rewrite forallb_forall in Hk; specialize (Hk f Hin); rewrite E in Hk; exact Hk end.
  Qed.

  Lemma validateDefinition_fields : forall d, validateDefinition types dirs possible d = true ->
    forall f, In f d.(df_fields) ->
      has_type_in (type_name f.(fd_type))
                  (match d.(df_kind) with
                   | KObject | KInterface => kind_is_output
                   | KInputObject => kind_is_input
                   | _ => any_kind end)
      /\ (forall a, In a f.(fd_args) -> has_type_in (type_name a.(ad_type)) kind_is_input).
  Proof.
    intros d H f Hin. pose proof (vd_fields d H) as Hf. rewrite forallb_forall in Hf. specialize (Hf f Hin).
    repeat (apply andb_true_iff in Hf as [Hf ?]).
    split.
    - unfold validateTypeRef in *.
      destruct (lookup (type_name (fd_type f)) types) as [td|] eqn:E; [|discriminate].
      exists td. split; [exact E|]. eapply vd_kinds; eassumption.
    - eapply validateArgs_closed. eassumption.
  Qed.

  Lemma validateDefinition_members : forall d, validateDefinition types dirs possible d = true ->
    forall t, In t d.(df_types) -> has_type_in t (fun k => dkind_eqb k KObject).
  Proof.
    intros d H t Hin. pose proof (vd_members d H) as Hm. rewrite forallb_forall in Hm. specialize (Hm t Hin).
    destruct (lookup t types) as [td|] eqn:E; [|discriminate]. exists td. split; [exact E|assumption].
  Qed.

  Lemma validateDefinition_ifaces : forall d, validateDefinition types dirs possible d = true ->
    forall i, In i d.(df_ifaces) -> has_type_in i (fun k => dkind_eqb k KInterface).
  Proof.
    intros d H i Hin. pose proof (vd_ifaces d H) as Hm. rewrite forallb_forall in Hm. specialize (Hm i Hin).
    unfold validateImplements in Hm. destruct (lookup i types) as [td|] eqn:E; [|discriminate]. exists td. split; [exact E|].
    apply andb_true_iff in Hm as [Hm _]. apply andb_true_iff in Hm as [Hm _]. exact Hm.
  Qed.
End FromValidate.

Lemma set_roots_closed : forall types ops r r',
  set_roots types ops r = Some r' ->
  (let '(q, m, s) := r in (forall n, q = Some n -> is_some (lookup n types) = true)
                         /\ (forall n, m = Some n -> is_some (lookup n types) = true)
                         /\ (forall n, s = Some n -> is_some (lookup n types) = true)) ->
  (let '(q, m, s) := r' in (forall n, q = Some n -> is_some (lookup n types) = true)
                          /\ (forall n, m = Some n -> is_some (lookup n types) = true)
                          /\ (forall n, s = Some n -> is_some (lookup n types) = true)).
Proof.
  induction ops as [|o tl IH]; intros r r' H Hr; cbn in H.
  - inversion H; subst. exact Hr.
  - destruct (lookup (ot_type o) types) eqn:E; [|discriminate].
    destruct r as [[q m] s]. eapply IH; [exact H|].
    destruct Hr as [Hq [Hm Hs]].
    destruct (ot_op o); cbn; repeat split; auto; intros n Hn; inversion Hn; subst; rewrite E; reflexivity.
Qed.

Definition roots_ok (types : list (str * definition)) (r : roots) : Prop :=
  let '(q, m, s) := r in (forall n, q = Some n -> is_some (lookup n types) = true)
                         /\ (forall n, m = Some n -> is_some (lookup n types) = true)
                         /\ (forall n, s = Some n -> is_some (lookup n types) = true).

Lemma set_roots_ok : forall types ops r r', set_roots types ops r = Some r' -> roots_ok types r -> roots_ok types r'.
Proof. intros types ops r r' H Hr. exact (set_roots_closed types ops r r' H Hr). Qed.

Section Fold.
  Variable types : list (str * definition).
  Variable dirs : list (str * dirdef).
  Let F := (fun (acc : option (roots * list directive * str)) (ext : schemadef) =>
              match acc with
              | None => None
              | Some (r, sdirs, desc) =>
                match set_roots types ext.(sd_ops) r with
                | None => None
                | Some r' => if validateDirectives dirs ext.(sd_dirs) (b "SCHEMA") None
                             then Some (r', sdirs ++ ext.(sd_dirs), desc) else None
                end
              end).

  Lemma fold_none : forall exts, fold_left F exts None = None.
  Proof. induction exts as [|e tl IH]; [reflexivity|]. cbn [fold_left]. exact IH. Qed.

  Lemma fold_roots_ok : forall exts acc r sdirs desc,
    fold_left F exts acc = Some (r, sdirs, desc) ->
    (forall r0 x y, acc = Some (r0, x, y) -> roots_ok types r0) -> roots_ok types r.
  Proof.
    induction exts as [|e tl IH]; intros acc r sdirs desc H Hacc; cbn [fold_left] in H.
    - eapply Hacc. exact H.
    - eapply IH; [exact H|]. intros r0 x y E. unfold F in E.
      destruct acc as [[[ra sa] da]|]; [|discriminate].
      destruct (set_roots types (sd_ops e) ra) as [r'|] eqn:Es; [|discriminate].
      destruct (validateDirectives dirs (sd_dirs e) (b "SCHEMA") None); [|discriminate].
      inversion E; subst. eapply set_roots_ok; [exact Es|]. eapply Hacc. reflexivity.
  Qed.
End Fold.

(* the query root with the introspection fields appended *)
Definition with_introspection (qd : definition) : definition :=
  mkDef qd.(df_kind) qd.(df_desc) qd.(df_name) qd.(df_dirs) qd.(df_ifaces)
        (qd.(df_fields) ++ introspection_fields) qd.(df_types) qd.(df_enums) qd.(df_pos) qd.(df_builtin).

Lemma has_type_update : forall types qn qd n p,
  lookup qn types = Some qd ->
  has_type_in types n p ->
  exists td, lookup n (update qn (with_introspection qd) types) = Some td /\ p td.(df_kind) = true.
Proof.
  intros types qn qd n p Hq [td [Ht Hp]]. destruct (str_eqb n qn) eqn:E.
  - apply str_eqb_eq in E. subst n. rewrite lookup_update_same. eexists. split; [reflexivity|].
    rewrite Hq in Ht. inversion Ht; subst. exact Hp.
  - rewrite lookup_update_other; [|exact E]. exists td. split; assumption.
Qed.

Lemma forallb_lookup : forall A (f : str * A -> bool) l k v, forallb f l = true -> lookup k l = Some v -> f (k, v) = true.
Proof. intros A f l k v H E. rewrite forallb_forall in H. apply H. apply lookup_in. exact E. Qed.

Definition final_types (q' : option str) (types : list (str * definition)) : list (str * definition) :=
  match q' with
  | Some qn => match lookup qn types with Some qd => update qn (with_introspection qd) types | None => types end
  | None => types
  end.

(* inversion of a successful load: the tables it built and what was checked on them *)
Lemma vsd_inv : forall sd s, validateSchemaDocument sd = Some s ->
  exists types0 types order dirs q' m' s' sdirs desc,
    add_defs (s_defs sd) [] = Some types0
    /\ merge_exts (s_exts sd) types0 (map df_name (s_defs sd)) = Some (types, order)
    /\ add_dirs (s_dirs sd) [] = Some dirs
    /\ forallb (fun kv => validateDefinition types dirs (fst (relations types order)) (snd kv)) types = true
    /\ forallb (fun kv => validateDirective types dirs (snd kv)) dirs = true
    /\ (forall n, q' = Some n -> is_some (lookup n types) = true)
    /\ (forall n, m' = Some n -> is_some (lookup n types) = true)
    /\ (forall n, s' = Some n -> is_some (lookup n types) = true)
    /\ (forall r n rd, In r [q'; m'; s'] -> r = Some n -> lookup n types = Some rd -> dkind_eqb rd.(df_kind) KObject = true)
    /\ s = mkSchema q' m' s' sdirs (final_types q' types) dirs (fst (relations types order)) (snd (relations types order)) desc.
Proof.
  intros sd s H. unfold validateSchemaDocument in H.
  destruct (add_defs (s_defs sd) []) as [types0|] eqn:Ead; [|discriminate].
  destruct (merge_exts (s_exts sd) types0 (map df_name (s_defs sd))) as [[types order]|] eqn:Eme; [|discriminate].
  destruct (relations types order) as [possible implements] eqn:Erel.
  destruct (add_dirs (s_dirs sd) []) as [dirs|] eqn:Edi; [|discriminate].
  (* the shape of the schema definitions *)
  assert (Hshape : exists r0,
    match fold_left (fun acc ext =>
             match acc with
             | None => None
             | Some (r, sdirs, desc) =>
               match set_roots types ext.(sd_ops) r with
               | None => None
               | Some r' => if validateDirectives dirs ext.(sd_dirs) (b "SCHEMA") None
                            then Some (r', sdirs ++ ext.(sd_dirs), desc) else None
               end
             end) (s_schemaext sd) r0 with
    | None => None
    | Some ((q, m, s0), sdirs, desc) =>
      if forallb (fun kv => validateDefinition types dirs possible (snd kv)) types
         && forallb (fun kv => validateDirective types dirs (snd kv)) dirs
      then
        let infer (cur : option str) (n : str) : option str :=
            match cur with
            | Some _ => cur
            | None => match s_schema sd with
                      | [] => if is_some (lookup n types) then Some n else None
                      | _ => None
                      end
            end in
        let q' := infer q (b "Query") in
        let m' := infer m (b "Mutation") in
        let s' := infer s0 (b "Subscription") in
        let root_is_object (r : option str) : bool :=
            match r with
            | Some n => match lookup n types with Some rd => dkind_eqb rd.(df_kind) KObject | None => true end
            | None => true
            end in
        if negb (root_is_object q' && root_is_object m' && root_is_object s') then None else
        let types' :=
            match q' with
            | Some qn => match lookup qn types with Some qd => update qn (with_introspection qd) types | None => types end
            | None => types
            end in
        Some (mkSchema q' m' s' sdirs types' dirs possible implements desc)
      else None
    end = Some s /\ (forall r x y, r0 = Some (r, x, y) -> roots_ok types r)).
  { destruct (s_schema sd) as [|s0 [|s1 rest]] eqn:Es.
    - eexists. split; [exact H|]. intros r x y E. inversion E; subst. cbn. repeat split; intros; discriminate.
    - eexists. split; [exact H|]. intros r x y E.
      destruct (set_roots types (sd_ops s0) (None, None, None)) as [r1|] eqn:Er; [|discriminate].
      destruct (validateDirectives dirs (sd_dirs s0) (b "SCHEMA") None); [|discriminate].
      inversion E; subst. eapply set_roots_ok; [exact Er|]. cbn. repeat split; intros; discriminate.
    - discriminate. }
  clear H. destruct Hshape as [r0 [H Hr0]].
  match type of H with match ?X with _ => _ end = _ => destruct X as [[[[[q m] s0] sdirs] desc]|] eqn:Ef; [|discriminate] end.
  pose proof (fold_roots_ok types dirs _ _ _ _ _ Ef Hr0) as [Hq [Hm Hs]].
  destruct (forallb (fun kv => validateDefinition types dirs possible (snd kv)) types
            && forallb (fun kv => validateDirective types dirs (snd kv)) dirs) eqn:Hv; [|discriminate].
  apply andb_true_iff in Hv as [Hdefs Hdirs].
  cbv zeta in H.
  (* the inferred roots exist in [types] *)
  set (infer := fun (cur : option str) (n : str) =>
            match cur with
            | Some _ => cur
            | None => match s_schema sd with
                      | [] => if is_some (lookup n types) then Some n else None
                      | _ => None
                      end
            end) in *.
  assert (Hinfer : forall cur n0, (forall n, cur = Some n -> is_some (lookup n types) = true) ->
                     forall n, infer cur n0 = Some n -> is_some (lookup n types) = true).
  { intros cur n0 Hc n E. unfold infer in E. destruct cur as [c|]; [apply Hc; exact E|].
    destruct (s_schema sd); [|discriminate]. destruct (is_some (lookup n0 types)) eqn:El; [|discriminate].
    inversion E; subst. exact El. }
  pose proof (Hinfer q (b "Query") Hq) as Hq'. pose proof (Hinfer m (b "Mutation") Hm) as Hm'.
  pose proof (Hinfer s0 (b "Subscription") Hs) as Hs'.
  set (q' := infer q (b "Query")) in *. set (m' := infer m (b "Mutation")) in *. set (s' := infer s0 (b "Subscription")) in *.
  set (rio := fun (r : option str) =>
            match r with
            | Some n => match lookup n types with Some rd => dkind_eqb rd.(df_kind) KObject | None => true end
            | None => true
            end) in *.
  destruct (rio q' && rio m' && rio s') eqn:Hrio; [|discriminate]. cbn [negb] in H.
  apply andb_true_iff in Hrio as [Hrio Hr3]. apply andb_true_iff in Hrio as [Hr1 Hr2].
  assert (Hobj : forall r n rd, In r [q'; m'; s'] -> r = Some n -> lookup n types = Some rd -> dkind_eqb rd.(df_kind) KObject = true).
  { intros r n rd Hin -> Hl. assert (Hr : rio (Some n) = true) by (destruct Hin as [<-|[<-|[<-|[]]]]; assumption).
    unfold rio in Hr. rewrite Hl in Hr. exact Hr. }
  exists types0, types, order, dirs, q', m', s', sdirs, desc. rewrite Erel. cbn [fst snd].
  split; [first [reflexivity|exact Ead]|]. split; [first [reflexivity|exact Eme]|]. split; [first [reflexivity|exact Edi]|].
  split; [exact Hdefs|]. split; [exact Hdirs|]. split; [exact Hq'|]. split; [exact Hm'|]. split; [exact Hs'|].
  split; [exact Hobj|].
  inversion H. reflexivity.
Qed.

Theorem loaded_closed : forall sd s, validateSchemaDocument sd = Some s -> closed s.
Proof.
  intros sd s H. destruct (vsd_inv sd s H) as (types0 & types & order & dirs & q' & m' & s' & sdirs & desc & Ead & Eme & Edi & Hdefs & Hdirs & Hq' & Hm' & Hs' & Hobj & Hs).
  set (possible := fst (relations types order)) in *. set (implements := snd (relations types order)) in *.
  set (types' := final_types q' types) in *.
  assert (Htr : forall n p, has_type_in types n p -> exists td, lookup n types' = Some td /\ p td.(df_kind) = true).
  { intros n p Hn. unfold types', final_types. destruct q' as [qn|]; [|exact Hn].
    destruct (lookup qn types) as [qd|] eqn:Eq; [|exact Hn]. eapply has_type_update; eassumption. }
  subst s.
  unfold closed. cbn [sc_types sc_dirs sc_query sc_mutation sc_subscription]. split; [|split; [|split; [|split]]].
  - (* definitions *)
    intros n d Hl.
    assert (Hcase : (exists d0, lookup n types = Some d0 /\ (d = d0 \/ d = with_introspection d0))).
    { unfold types', final_types in Hl. destruct q' as [qn|]; [|exists d; split; [exact Hl|left; reflexivity]].
      destruct (lookup qn types) as [qd|] eqn:Eq; [|exists d; split; [exact Hl|left; reflexivity]].
      destruct (str_eqb n qn) eqn:E.
      - apply str_eqb_eq in E. subst n. rewrite lookup_update_same in Hl. inversion Hl; subst.
        exists qd. split; [exact Eq|right; reflexivity].
      - rewrite lookup_update_other in Hl; [|exact E]. exists d. split; [exact Hl|left; reflexivity]. }
    destruct Hcase as [d0 [Hl0 Hd]].
    pose proof (forallb_lookup _ _ _ _ _ Hdefs Hl0) as Hvd. cbn [snd] in Hvd.
    assert (Hk : df_kind d = df_kind d0 /\ df_types d = df_types d0 /\ df_ifaces d = df_ifaces d0)
      by (destruct Hd as [->| ->]; repeat split; reflexivity).
    destruct Hk as [Hk [Ht Hi]].
    unfold def_closed. split; [|split].
    + intros f Hf.
      assert (Hf0 : In f introspection_fields \/ In f (df_fields d0)).
      { destruct Hd as [->| ->]; [right; exact Hf|]. cbn [with_introspection df_fields] in Hf.
        apply in_app_or in Hf. destruct Hf; [right|left]; assumption. }
      destruct Hf0 as [Hf0|Hf0]; [left; exact Hf0|right].
      destruct (validateDefinition_fields types dirs possible d0 Hvd f Hf0) as [Ha Hb].
      unfold field_closed. rewrite Hk. split.
      * apply Htr. exact Ha.
      * intros a Ha'. apply Htr. apply Hb. exact Ha'.
    + intros t Ht'. rewrite Ht in Ht'. apply Htr. eapply validateDefinition_members; eassumption.
    + intros i Hi'. rewrite Hi in Hi'. apply Htr. eapply validateDefinition_ifaces; eassumption.
  - (* directive definitions *)
    intros n dd Hl a Ha. apply Htr.
    pose proof (forallb_lookup _ _ _ _ _ Hdirs Hl) as Hvd. cbn [snd] in Hvd. unfold validateDirective in Hvd.
    apply andb_true_iff in Hvd as [_ Hvd]. eapply validateArgs_closed; eassumption.
  - (* roots *)
    unfold root_closed. destruct q' as [qn|] eqn:Eq'; [|exact I].
    apply Htr. specialize (Hq' qn eq_refl). destruct (lookup qn types) as [td|] eqn:E; [|discriminate].
    exists td. split; [exact E|]. eapply (Hobj (Some qn) qn td); [left; reflexivity|reflexivity|exact E].
  - unfold root_closed. destruct m' as [mn|] eqn:Em'; [|exact I].
    apply Htr. specialize (Hm' mn eq_refl). destruct (lookup mn types) as [td|] eqn:E; [|discriminate].
    exists td. split; [exact E|]. eapply (Hobj (Some mn) mn td); [right; left; reflexivity|reflexivity|exact E].
  - unfold root_closed. destruct s' as [sn|] eqn:Es'; [|exact I].
    apply Htr. specialize (Hs' sn eq_refl). destruct (lookup sn types) as [td|] eqn:E; [|discriminate].
    exists td. split; [exact E|]. eapply (Hobj (Some sn) sn td); [right; right; left; reflexivity|reflexivity|exact E].
Qed.

(* ---- what was defined is in the schema: the tables only grow ---- *)
Lemma lookup_app : forall A (k : str) (l1 l2 : list (str * A)),
  lookup k (l1 ++ l2) = match lookup k l1 with Some v => Some v | None => lookup k l2 end.
Proof.
  induction l1 as [|[k' v'] l1 IH]; intro l2; cbn; [reflexivity|].
  destruct (str_eqb k k'); [reflexivity|apply IH].
Qed.

Lemma is_some_update : forall A (k k' : str) (v : A) l,
  is_some (lookup k' l) = true -> is_some (lookup k' (update k v l)) = true.
Proof.
  induction l as [|[k2 v2] l IH]; intro H; cbn in *; [discriminate|].
  destruct (str_eqb k k2) eqn:E; cbn.
  - apply str_eqb_eq in E. subst k2. destruct (str_eqb k' k); [reflexivity|exact H].
  - destruct (str_eqb k' k2); [reflexivity|]. apply IH. exact H.
Qed.

Lemma add_defs_keys : forall ds acc r, add_defs ds acc = Some r ->
  (forall n, is_some (lookup n acc) = true -> is_some (lookup n r) = true)
  /\ (forall d, In d ds -> is_some (lookup d.(df_name) r) = true).
Proof.
  induction ds as [|d tl IH]; intros acc r H; cbn in H.
  - inversion H; subst. split; [auto|intros d []].
  - destruct (lookup (df_name d) acc) eqn:E; [discriminate|].
    destruct (IH _ _ H) as [Hk Hd]. split.
    + intros n Hn. apply Hk. rewrite lookup_app. destruct (lookup n acc); [reflexivity|discriminate].
    + intros d0 [<-|Hin]; [|apply Hd; exact Hin].
      apply Hk. rewrite lookup_app, E. cbn. rewrite str_eqb_refl. reflexivity.
Qed.

Lemma merge_exts_keys : forall es types order r, merge_exts es types order = Some r ->
  forall n, is_some (lookup n types) = true -> is_some (lookup n (fst r)) = true.
Proof.
  induction es as [|e tl IH]; intros types order r H n Hn; cbn in H.
  - inversion H; subst. exact Hn.
  - destruct (lookup (df_name e) types) as [d|] eqn:E.
    + match type of H with (if ?c then _ else _) = _ => destruct c; [discriminate|] end.
      eapply IH; [exact H|]. apply is_some_update. exact Hn.
    + match type of H with (if ?c then _ else _) = _ => destruct c; [discriminate|] end.
      eapply IH; [exact H|]. apply is_some_update. rewrite lookup_app. destruct (lookup n types); [reflexivity|discriminate].
Qed.

Lemma add_dirs_keys : forall ds acc r, add_dirs ds acc = Some r ->
  (forall n, is_some (lookup n acc) = true -> is_some (lookup n r) = true)
  /\ (forall d, In d ds -> is_some (lookup d.(dd_name) r) = true).
Proof.
  induction ds as [|d tl IH]; intros acc r H; cbn [add_dirs] in H.
  - inversion H; subst. split; [auto|intros d []].
  - destruct (lookup (dd_name d) acc) eqn:E.
    + destruct (builtin_directive_name (dd_name d)); [|discriminate].
      destruct (IH _ _ H) as [Hk Hd]. split; [exact Hk|].
      intros dx [<-|Hin]; [|apply Hd; exact Hin]. apply Hk. rewrite E. reflexivity.
    + destruct (IH _ _ H) as [Hk Hd]. split.
      * intros n Hn. apply Hk. rewrite lookup_app. destruct (lookup n acc); [reflexivity|discriminate].
      * intros dx [<-|Hin]; [|apply Hd; exact Hin].
        apply Hk. rewrite lookup_app, E. cbn. rewrite str_eqb_refl. reflexivity.
Qed.

Lemma final_types_keys : forall q' types n, is_some (lookup n types) = true -> is_some (lookup n (final_types q' types)) = true.
Proof.
  intros q' types n H. unfold final_types. destruct q' as [qn|]; [|exact H].
  destruct (lookup qn types); [|exact H]. apply is_some_update. exact H.
Qed.

(* Every definition and directive definition of the merged document is in the loaded schema, and
   the query root carries the introspection fields. *)
Theorem loaded_contains : forall sd s, validateSchemaDocument sd = Some s ->
  (forall d, In d sd.(s_defs) -> is_some (lookup d.(df_name) s.(sc_types)) = true)
  /\ (forall dd, In dd sd.(s_dirs) -> is_some (lookup dd.(dd_name) s.(sc_dirs)) = true)
  /\ (forall qn, s.(sc_query) = Some qn ->
        exists qd, lookup qn s.(sc_types) = Some qd /\ forall f, In f introspection_fields -> In f qd.(df_fields)).
Proof.
  intros sd s H. destruct (vsd_inv sd s H) as (types0 & types & order & dirs & q' & m' & s' & sdirs & desc & Ead & Eme & Edi & Hdefs & Hdirs & Hq' & Hm' & Hs' & Hobj & Hs).
  subst s. cbn [sc_types sc_dirs sc_query]. split; [|split].
  - intros d Hd. apply final_types_keys.
    apply (merge_exts_keys _ _ _ _ Eme). apply (proj2 (add_defs_keys _ _ _ Ead)). exact Hd.
  - intros dd Hd. apply (proj2 (add_dirs_keys _ _ _ Edi)). exact Hd.
  - intros qn Eq. subst q'. specialize (Hq' qn eq_refl). unfold final_types.
    destruct (lookup qn types) as [qd|] eqn:E; [|discriminate].
    exists (with_introspection qd). split; [apply lookup_update_same|].
    intros f Hf. cbn [with_introspection df_fields]. apply in_or_app. right. exact Hf.
Qed.

(* ---- gqlparser.LoadSchema: the prelude is parsed first and its definitions stay ---- *)
From GQL.model Require Import Utf8 Parser Prog ParseQuery ParseSchema Ops.

Lemma parseSchemas_from_prefix : forall d limit srcs ix acc sd,
  parseSchemas_from d limit ix srcs acc = POk sd ->
  (exists r, sd.(s_defs) = acc.(s_defs) ++ r) /\ (exists r, sd.(s_dirs) = acc.(s_dirs) ++ r).
Proof.
  induction srcs as [|[bi inp] tl IH]; intros ix acc sd H; cbn [parseSchemas_from] in H.
  - inversion H; subst. split; exists []; rewrite app_nil_r; reflexivity.
  - destruct (parseSchema d limit ix bi inp) as [doc|e]; [|discriminate].
    destruct (IH _ _ _ H) as [[r1 H1] [r2 H2]]. cbn [merge_sdoc s_defs s_dirs] in H1, H2.
    split; [exists (s_defs doc ++ r1)|exists (s_dirs doc ++ r2)]; rewrite app_assoc; assumption.
Qed.

Theorem load_closed : forall d pre srcs s, load_schema_with d pre srcs = Some s -> closed s.
Proof.
  intros d pre srcs s H. unfold load_schema_with in H. destruct pre as [pdoc|]; [|discriminate].
  destruct (parseSchemas_from d 0 1 (map (fun x => (false, x)) srcs) (merge_sdoc sdoc0 pdoc)) as [sd|]; [|discriminate].
  eapply loaded_closed. exact H.
Qed.

Theorem load_contains_prelude : forall d pdoc srcs s, load_schema_with d (POk pdoc) srcs = Some s ->
  (forall x, In x pdoc.(s_defs) -> is_some (lookup x.(df_name) s.(sc_types)) = true)
  /\ (forall x, In x pdoc.(s_dirs) -> is_some (lookup x.(dd_name) s.(sc_dirs)) = true)
  /\ (forall qn, s.(sc_query) = Some qn ->
        exists qd, lookup qn s.(sc_types) = Some qd /\ forall f, In f introspection_fields -> In f qd.(df_fields)).
Proof.
  intros d pdoc srcs s H. unfold load_schema_with in H.
  destruct (parseSchemas_from d 0 1 (map (fun x => (false, x)) srcs) (merge_sdoc sdoc0 pdoc)) as [sd|] eqn:E; [|discriminate].
  destruct (parseSchemas_from_prefix _ _ _ _ _ _ E) as [[r1 H1] [r2 H2]]. cbn [merge_sdoc s_defs s_dirs sdoc0 app] in H1, H2.
  destruct (loaded_contains sd s H) as [Hd [Hdd Hq]]. split; [|split; [|exact Hq]].
  - intros x Hx. apply Hd. rewrite H1. apply in_or_app. left. exact Hx.
  - intros x Hx. apply Hdd. rewrite H2. apply in_or_app. left. exact Hx.
Qed.
