(* RuleSpecs3.v — what a silent KnownTypeNames / FragmentsOnCompositeTypes guarantees about the
   variable definitions and fragment definitions of a document (C08, and the premises C14 needs:
   after validation every variable has a type that exists and is an input type). *)
From Coq Require Import List NArith ZArith Bool Lia.
From GQL.model Require Import Base Utf8 Lexer Ast Schema Walk Rules Rules2 Validate.
From GQL.proofs Require Import StrFacts RuleCompose JsonRoundtrip Linked RuleSpecs RuleSpecs2.
Import ListNotations.

(* a stateless rule is silent on an event list exactly when it is silent on every event of it *)
Lemma stateless_silent_iff : forall n (g : cev -> list rerr) L,
  run_events [stateless n g] L = [] <-> forall e, In e L -> g e = [].
Proof.
  intros n g. unfold stateless. induction L as [|e tl IH].
  - cbn. split; [intros _ ? []|reflexivity].
  - cbn [run_events deliver rinst_step]. rewrite app_nil_r. split.
    + intro H. apply app_eq_nil in H as [H1 H2]. apply map_eq_nil in H1. intros x [<-|Hx]; [exact H1|exact (proj1 IH H2 x Hx)].
    + intro H. rewrite (H e (or_introl eq_refl)). cbn [map app]. apply (proj2 IH). intros x Hx. apply H. right. exact Hx.
Qed.

Section Events.
  Variable s : schema.
  Variable doc : qdoc.

  (* the walk announces every variable definition of every operation, and every fragment definition *)
  Lemma walk_has_variable : forall o v, In o doc.(q_ops) -> In v o.(o_vars) -> In (Some o, Some o, EvVariable v) (walk s doc).
  Proof.
    intros o v Ho Hv. unfold walk. apply in_or_app. left. apply in_flat_map. exists o. split; [exact Ho|].
    unfold walk_operation.
    match goal with |- context [let '(ev3, st) := ?X in _] => destruct X as [ev3 st] end.
    apply in_map. apply in_or_app. left. apply in_map. exact Hv.
  Qed.

  Lemma walk_has_fragment : forall f, In f doc.(q_frags) -> exists a c, In (a, c, EvFragment f) (walk s doc).
  Proof.
    intros f Hf. exists None, (stale_op doc f). unfold walk. apply in_or_app. right. apply in_flat_map. exists f. split; [exact Hf|].
    unfold walk_fragment.
    match goal with |- context [let '(ev, _) := ?X in _] => destruct X as [ev st] end.
    apply in_or_app. right. apply in_map. apply in_or_app. right. left. reflexivity.
  Qed.

  (* KnownTypeNames silent: every variable's named type and every fragment's type condition exists *)
  Theorem KnownTypeNames_definitions : forall nosugg,
    run_events [r_KnownTypeNames s nosugg] (walk s doc) = [] ->
    (forall o v, In o doc.(q_ops) -> In v o.(o_vars) -> stype s (type_name v.(vd_type)) <> None)
    /\ (forall f, In f doc.(q_frags) -> stype s f.(f_typecond) <> None).
  Proof.
    intros nosugg H. unfold r_KnownTypeNames in H. rewrite stateless_silent_iff in H. split.
    - intros o v Ho Hv. specialize (H _ (walk_has_variable o v Ho Hv)). cbn [snd] in H.
      destruct (stype s (type_name (vd_type v))); [discriminate|cbn in H; discriminate].
    - intros f Hf. destruct (walk_has_fragment f Hf) as [a [c Hin]]. specialize (H _ Hin). cbn [snd] in H.
      destruct (stype s (f_typecond f)); [discriminate|cbn in H; discriminate].
  Qed.

  (* FragmentsOnCompositeTypes silent: a fragment definition whose type exists is on an object, interface or union *)
  Theorem FragmentsOnCompositeTypes_definitions :
    run_events [r_FragmentsOnCompositeTypes s] (walk s doc) = [] ->
    forall f d, In f doc.(q_frags) -> stype s f.(f_typecond) = Some d -> f.(f_typecond) <> [] -> is_composite d = true.
  Proof.
    intros H f d Hf Hd Hne. unfold r_FragmentsOnCompositeTypes in H. rewrite stateless_silent_iff in H.
    destruct (walk_has_fragment f Hf) as [a [c Hin]]. specialize (H _ Hin). cbn [snd] in H. rewrite Hd in H.
    destruct (f_typecond f) as [|c0 tc] eqn:E; [contradiction|]. cbn [nil_str orb] in H.
    destruct (is_composite d); [reflexivity|discriminate].
  Qed.

  (* after a validation without errors: every variable of every operation has a type that exists and
     is an input type — what VariableValues relies on (C14) — and every fragment is on an existing
     composite type *)
  Theorem valid_document_types : validate s doc = [] ->
    (forall o v, In o doc.(q_ops) -> In v o.(o_vars) ->
       exists d, stype s (type_name v.(vd_type)) = Some d /\ kind_is_input d.(df_kind) = true)
    /\ (forall f, In f doc.(q_frags) -> f.(f_typecond) <> [] ->
       exists d, stype s f.(f_typecond) = Some d /\ is_composite d = true).
  Proof.
    intro Hv.
    assert (Hr : forall r, In r (default_rules false s doc) -> run_events [r] (walk s doc) = [])
      by (intros r Hin; eapply validate_silent; [apply default_rules_names_nodup|exact Hin|exact Hv]).
    assert (Hk : run_events [r_KnownTypeNames s false] (walk s doc) = []) by (apply Hr; cbn; auto 40).
    assert (Hf : run_events [r_FragmentsOnCompositeTypes s] (walk s doc) = []) by (apply Hr; cbn; auto 40).
    assert (Hi : run_events [r_VariablesAreInputTypes s] (walk s doc) = []) by (apply Hr; cbn; auto 40).
    destruct (KnownTypeNames_definitions false Hk) as [K1 K2]. split.
    - intros o v Ho Hvv. destruct (stype s (type_name (vd_type v))) as [d|] eqn:E; [|exfalso; exact (K1 o v Ho Hvv E)].
      exists d. split; [reflexivity|]. exact (proj1 (VariablesAreInputTypes_spec s doc) Hi o v d Ho Hvv E).
    - intros f Hff Hne. destruct (stype s (f_typecond f)) as [d|] eqn:E; [|exfalso; exact (K2 f Hff E)].
      exists d. split; [reflexivity|]. exact (FragmentsOnCompositeTypes_definitions Hf f d Hff E Hne).
  Qed.
End Events.
