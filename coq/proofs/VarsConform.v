(* VarsConform.v — what validateVarType returns conforms to the declared type (C14).
   For JSON-like inputs (every slice a []interface{}) and the specification model (dev_none). *)
From Coq Require Import List NArith ZArith Bool Lia.
From GQL.model Require Import Base Utf8 Lexer Ast Schema Walk Rules2 Vars.
From GQL.proofs Require Import StrFacts LoadedClosed.
Import ListNotations.
Open Scope N_scope.

(* JSON-like: no typed slices anywhere *)
Fixpoint untyped (v : gval) : bool :=
  match v with
  | GSlice ty items => negb ty && forallb untyped items
  | GMap m => forallb (fun kv => untyped (snd kv)) m
  | _ => true
  end.

Definition is_nil (v : gval) : bool := match v with GNil => true | _ => false end.

Lemma forallb_map_fst : forall (P : str -> bool) (m : list (str * gval)),
  forallb P (map fst m) = forallb (fun kv => P (fst kv)) m.
Proof. induction m as [|kv m IH]; cbn; [reflexivity|]. rewrite IH. reflexivity. Qed.

Section Conform.
  Variable s : schema.

  (* conformance, on the same fuel as the coercion *)
  Fixpoint conformsb (fuel : nat) (t : type_) (v : gval) {struct fuel} : bool :=
    match v with
    | GNil => negb (type_nonnull t)
    | _ =>
      match fuel with
      | O => false
      | S f =>
        match t with
        | ListT e _ _ => match v with GSlice _ items => forallb (conformsb f e) items | _ => false end
        | NamedT n _ _ =>
          match stype s n with
          | None => false
          | Some def =>
            match def.(df_kind) with
            | KEnum => is_string v && existsb (fun ev => str_eqb ev.(ev_name) (string_of v)) def.(df_enums)
            | KScalar =>
              if str_eqb n (b "Int") then is_intkind v || is_floatkind v || (is_string v && valid_int_string (string_of v))
              else if str_eqb n (b "Float") then is_intkind v || is_floatkind v || (is_string v && valid_float_string (string_of v))
              else if str_eqb n (b "String") then is_string v
              else if str_eqb n (b "Boolean") then (match v with GBool _ => true | _ => false end)
              else if str_eqb n (b "ID") then is_intkind v || is_string v
              else true
            | KInputObject =>
              match v with
              | GMap m =>
                forallb (fun kv => str_eqb (fst kv) (b "__typename") || is_some (find_field (fst kv) def.(df_fields))) m
                && forallb (fun fd => match lookup fd.(fd_name) m with
                                      | Some fv => conformsb f fd.(fd_type) fv
                                      | None => negb (type_nonnull fd.(fd_type)) || is_some fd.(fd_default)
                                      end) def.(df_fields)
              | _ => false
              end
            | _ => false
            end
          end
        end
      end
    end.

  (* ---- the two inner loops of validateVarType as standalone functions ---- *)
  Definition go_items (rec : type_ -> gval -> vres gval) (typed : bool) (e : type_) : list gval -> vres (list gval) :=
    fix go (its : list gval) : vres (list gval) :=
      match its with
      | [] => VOk []
      | it :: tl =>
        if (match it with GNil => true | _ => false end) && negb typed && type_nonnull e then VErr else
        match rec e it with
        | VOk cv =>
          let keep := match cv with
                      | GNil => it
                      | GSlice _ _ => if typed then it else cv
                      | _ => cv
                      end in
          match go tl with VOk r => VOk (keep :: r) | VErr => VErr | VPanic => VPanic end
        | VErr => VErr
        | VPanic => VPanic
        end
      end.

  Definition go_fields (rec : type_ -> gval -> vres gval) : list fielddef -> list (str * gval) -> vres (list (str * gval)) :=
    fix fields (fds : list fielddef) (m : list (str * gval)) : vres (list (str * gval)) :=
      match fds with
      | [] => VOk m
      | fd :: tl =>
        match lookup fd.(fd_name) m with
        | None =>
          if type_nonnull fd.(fd_type) then
            match fd.(fd_default) with
            | Some dv => if value_conv_error dv then VErr else fields tl m
            | None => VErr
            end
          else fields tl m
        | Some GNil => if type_nonnull fd.(fd_type) then VErr else fields tl m
        | Some fv =>
          match rec fd.(fd_type) fv with
          | VOk cv => fields tl (update fd.(fd_name) cv m)
          | VErr => VErr
          | VPanic => VPanic
          end
        end
      end.

  Lemma vvt_list : forall d f e nn p v,
    validateVarType d s (S f) (ListT e nn p) v =
    match v with
    | GNil => VOk GNil
    | _ =>
      let '(typed, items) := match v with GSlice ty its => (ty, its) | _ => (d F_C2, [v]) end in
      match go_items (validateVarType d s f) typed e items with
      | VOk r => VOk (GSlice typed r)
      | VErr => VErr
      | VPanic => VPanic
      end
    end.
  Proof. intros. destruct v; reflexivity. Qed.

  Lemma vvt_input : forall d f n nn p def m,
    stype s n = Some def -> def.(df_kind) = KInputObject ->
    validateVarType d s (S f) (NamedT n nn p) (GMap m) =
    if negb (forallb (fun kv => str_eqb (fst kv) (b "__typename") || is_some (find_field (fst kv) def.(df_fields))) m)
    then VErr else
    match go_fields (validateVarType d s f) def.(df_fields) m with
    | VOk m' => VOk (GMap m')
    | VErr => VErr
    | VPanic => VPanic
    end.
  Proof. intros d f n nn p def m Hs Hk. cbn [validateVarType]. rewrite Hs, Hk. reflexivity. Qed.

  Ltac crush_h H := repeat match type of H with
    | context [match ?x with _ => _ end] => destruct x eqn:?; try discriminate H
    | context [if ?c then _ else _] => destruct c eqn:?; try discriminate H
    end.

  (* only nil is coerced to nil *)
  Lemma vvt_nil : forall d f t v, validateVarType d s f t v = VOk GNil -> v = GNil.
  Proof.
    intros d f t v H. destruct f as [|f]; [discriminate|]. destruct v; try reflexivity; exfalso;
    (destruct t as [n nn p|e nn p];
     [ cbn [validateVarType] in H; crush_h H
     | rewrite vvt_list in H; cbv zeta in H; crush_h H ]).
  Qed.

  Section Step.
    Variable f : nat.
    Hypothesis IH : forall t v r, untyped v = true -> (is_nil v = true -> type_nonnull t = false) ->
      validateVarType dev_none s f t v = VOk r -> conformsb f t r = true.

    Lemma go_items_conforms : forall e its r, forallb untyped its = true ->
      go_items (validateVarType dev_none s f) false e its = VOk r -> forallb (conformsb f e) r = true.
    Proof.
      intros e. induction its as [|it tl IHl]; intros r Hu H; cbn [go_items] in H.
      - inversion H; subst. reflexivity.
      - cbn [forallb] in Hu. apply andb_true_iff in Hu as [Hu1 Hu2].
        destruct ((match it with GNil => true | _ => false end) && negb false && type_nonnull e) eqn:G; [discriminate|].
        destruct (validateVarType dev_none s f e it) as [cv| |] eqn:Ev; try discriminate.
        fold (go_items (validateVarType dev_none s f) false e) in H.
        destruct (go_items (validateVarType dev_none s f) false e tl) as [r0| |] eqn:Et; try discriminate.
        inversion H; subst r. clear H. cbn [forallb]. apply andb_true_iff. split; [|apply IHl; [exact Hu2|reflexivity]].
        assert (Hc : conformsb f e cv = true).
        { apply (IH e it cv Hu1); [|exact Ev]. intro Hn. destruct it; try discriminate. cbn in G. destruct (type_nonnull e); [discriminate|reflexivity]. }
        destruct cv; try exact Hc.
        (* cv = GNil: then it = GNil *)
        apply vvt_nil in Ev. subst it. exact Hc.
    Qed.

    Lemma map_fst_update : forall A (k : str) (v : A) l, is_some (lookup k l) = true -> map fst (update k v l) = map fst l.
    Proof.
      induction l as [|[k' v'] l IHl]; intro H; cbn in *; [discriminate|].
      destruct (str_eqb k k') eqn:E; cbn.
      - apply str_eqb_eq in E. subst. reflexivity.
      - f_equal. apply IHl. exact H.
    Qed.

    Lemma go_fields_spec : forall fds m m',
      NoDup (map fd_name fds) ->
      (forall fd fv, In fd fds -> lookup fd.(fd_name) m = Some fv -> untyped fv = true) ->
      go_fields (validateVarType dev_none s f) fds m = VOk m' ->
      (forall fd, In fd fds -> match lookup fd.(fd_name) m' with
                               | Some fv => conformsb f fd.(fd_type) fv = true
                               | None => negb (type_nonnull fd.(fd_type)) || is_some fd.(fd_default) = true
                               end)
      /\ (forall k, ~ In k (map fd_name fds) -> lookup k m' = lookup k m)
      /\ map fst m' = map fst m.
    Proof.
      induction fds as [|fd tl IHl]; intros m m' ND Hu H; cbn [go_fields] in H.
      - inversion H; subst. split; [intros fd []|]. split; [reflexivity|reflexivity].
      - fold (go_fields (validateVarType dev_none s f)) in H.
        cbn [map] in ND. apply NoDup_cons_iff in ND as [Hnot ND'].
        assert (Hu' : forall m2, (forall k, k <> fd_name fd -> lookup k m2 = lookup k m) ->
                      forall fd0 fv, In fd0 tl -> lookup (fd_name fd0) m2 = Some fv -> untyped fv = true).
        { intros m2 Hm2 fd0 fv Hin Hl. rewrite Hm2 in Hl.
          - eapply Hu; [right; exact Hin|exact Hl].
          - intro E. apply Hnot. rewrite <- E. apply in_map. exact Hin. }
        (* a common continuation: the rest leaves fd's slot alone *)
        assert (Hrest : forall m2, go_fields (validateVarType dev_none s f) tl m2 = VOk m' ->
                  (forall k, k <> fd_name fd -> lookup k m2 = lookup k m) ->
                  map fst m2 = map fst m ->
                  match lookup (fd_name fd) m2 with
                  | Some fv => conformsb f (fd_type fd) fv = true
                  | None => negb (type_nonnull (fd_type fd)) || is_some (fd_default fd) = true
                  end ->
                  (forall fd0, In fd0 (fd :: tl) -> match lookup (fd_name fd0) m' with
                               | Some fv => conformsb f (fd_type fd0) fv = true
                               | None => negb (type_nonnull (fd_type fd0)) || is_some (fd_default fd0) = true
                               end)
                  /\ (forall k, ~ In k (map fd_name (fd :: tl)) -> lookup k m' = lookup k m)
                  /\ map fst m' = map fst m).
        { intros m2 Hgo Hm2 Hk Hfd. destruct (IHl m2 m' ND' (Hu' m2 Hm2) Hgo) as [Ha [Hb Hc]]. split; [|split].
          - intros fd0 [<-|Hin]; [|apply Ha; exact Hin]. rewrite (Hb _ Hnot). exact Hfd.
          - intros k Hk'. cbn [map] in Hk'. rewrite Hb; [|intro; apply Hk'; right; assumption].
            apply Hm2. intro E. apply Hk'. left. symmetry. exact E.
          - rewrite Hc. exact Hk. }
        destruct (lookup (fd_name fd) m) as [fv|] eqn:El.
        + destruct (is_nil fv) eqn:En.
          * destruct fv; try discriminate. destruct (type_nonnull (fd_type fd)) eqn:Enn; [discriminate|].
            apply (Hrest m H); [reflexivity|reflexivity|]. rewrite El.
            destruct f; cbn [conformsb]; rewrite Enn; reflexivity.
          * assert (Hgo : match validateVarType dev_none s f (fd_type fd) fv with
                          | VOk cv => go_fields (validateVarType dev_none s f) tl (update (fd_name fd) cv m)
                          | VErr => VErr | VPanic => VPanic end = VOk m') by (destruct fv; try discriminate; exact H).
            clear H. destruct (validateVarType dev_none s f (fd_type fd) fv) as [cv| |] eqn:Ev; try discriminate.
            apply (Hrest _ Hgo).
            -- intros k Hk. apply lookup_update_other. apply str_eqb_neq. exact Hk.
            -- apply map_fst_update. rewrite El. reflexivity.
            -- rewrite lookup_update_same. apply (IH _ fv cv); [eapply Hu; [left; reflexivity|exact El]| |exact Ev].
               intro Hn. rewrite Hn in En. discriminate.
        + assert (Hgo : go_fields (validateVarType dev_none s f) tl m = VOk m'
                        /\ negb (type_nonnull (fd_type fd)) || is_some (fd_default fd) = true).
          { destruct (type_nonnull (fd_type fd)); [|split; [exact H|reflexivity]].
            destruct (fd_default fd) as [dv|]; [|discriminate]. destruct (value_conv_error dv); [discriminate|].
            split; [exact H|reflexivity]. }
          destruct Hgo as [Hgo Hd]. apply (Hrest m Hgo); [reflexivity|reflexivity|]. rewrite El. exact Hd.
    Qed.
  End Step.

  (* input objects have distinct field names (the loader enforces it: LoadedInputFieldsUnique below) *)
  Definition input_fields_unique : Prop :=
    forall n def, stype s n = Some def -> def.(df_kind) = KInputObject -> NoDup (map fd_name def.(df_fields)).

  Lemma forallb_keys : forall (P : str -> bool) (m m' : list (str * gval)),
    map fst m' = map fst m -> forallb (fun kv => P (fst kv)) m' = forallb (fun kv => P (fst kv)) m.
  Proof.
    intros P m m' H. rewrite <- (forallb_map_fst P m'), <- (forallb_map_fst P m), H. reflexivity.
  Qed.

  Theorem vvt_conforms : input_fields_unique ->
    forall f t v r, untyped v = true -> (is_nil v = true -> type_nonnull t = false) ->
      validateVarType dev_none s f t v = VOk r -> conformsb f t r = true.
  Proof.
    intro HU. induction f as [|f IH]; intros t v r Hu Hn H; [discriminate|].
    destruct t as [n nn p|e nn p].
    - (* named type *)
      pose proof H as H0. cbn [validateVarType] in H. destruct (stype s n) as [def|] eqn:Es; [|discriminate].
      destruct (is_nil v) eqn:En.
      + destruct v; try discriminate. specialize (Hn eq_refl). cbn in Hn. subst nn. inversion H; subst. reflexivity.
      + destruct (df_kind def) eqn:Ek.
        * (* scalar *)
          assert (Hr : r = v) by (destruct v; try discriminate; crush_h H; inversion H; reflexivity).
          subst r. destruct v; try discriminate; cbn [conformsb]; rewrite Es, Ek; crush_h H; reflexivity.
        * destruct v; discriminate.
        * destruct v; discriminate.
        * destruct v; discriminate.
        * (* enum *)
          assert (Hr : r = v) by (destruct v; try discriminate; crush_h H; inversion H; reflexivity).
          subst r. destruct v; try discriminate; cbn [conformsb]; rewrite Es, Ek; crush_h H; reflexivity.
        * (* input object *)
          destruct v; try discriminate. clear H. rename H0 into H.
          rewrite (vvt_input dev_none f n nn p def m Es Ek) in H.
          destruct (forallb (fun kv => str_eqb (fst kv) (b "__typename") || is_some (find_field (fst kv) (df_fields def))) m) eqn:Ekeys;
            [|discriminate]. cbn [negb] in H.
          destruct (go_fields (validateVarType dev_none s f) (df_fields def) m) as [m'| |] eqn:Eg; try discriminate.
          inversion H; subst r. clear H.
          destruct (go_fields_spec f IH (df_fields def) m m' (HU n def Es Ek)) as [Ha [_ Hc]]; [|exact Eg|].
          { intros fd fv _ Hl. cbn [untyped] in Hu. rewrite forallb_forall in Hu.
            apply (Hu (fd_name fd, fv)). apply lookup_in. exact Hl. }
          cbn [conformsb]. rewrite Es, Ek. apply andb_true_iff. split.
          -- rewrite (forallb_keys (fun k => str_eqb k (b "__typename") || is_some (find_field k (df_fields def))) m m' Hc). exact Ekeys.
          -- apply forallb_forall. intros fd Hfd. specialize (Ha fd Hfd).
             destruct (lookup (fd_name fd) m'); exact Ha.
    - (* list type *)
      rewrite vvt_list in H. destruct (is_nil v) eqn:En.
      + destruct v; try discriminate. specialize (Hn eq_refl). cbn in Hn. subst nn. inversion H; subst. reflexivity.
      + assert (Hitems : exists items, (match v with GSlice ty its => (ty, its) | _ => (dev_none F_C2, [v]) end) = (false, items)
                                       /\ forallb untyped items = true).
        { destruct v; try discriminate; try (eexists; split; [reflexivity|cbn [forallb]; rewrite Hu; reflexivity]).
          cbn [untyped] in Hu. apply andb_true_iff in Hu as [Ht Hi]. destruct typed; [discriminate|].
          eexists. split; [reflexivity|exact Hi]. }
        destruct Hitems as [items [Ei Hui]].
        assert (H' : match go_items (validateVarType dev_none s f) false e items with
                     | VOk r0 => VOk (GSlice false r0) | VErr => VErr | VPanic => VPanic end = VOk r)
          by (rewrite Ei in H; destruct v; try discriminate; exact H).
        clear H. destruct (go_items (validateVarType dev_none s f) false e items) as [r0| |] eqn:Eg; try discriminate.
        inversion H'; subst r. cbn [conformsb]. eapply go_items_conforms; eassumption.
  Qed.
End Conform.

(* ---------------- VariableValues ---------------- *)
From GQL.proofs Require Import JsonRoundtrip.

Lemma forallb_filter_keep : forall A (P q : A -> bool) l, forallb P l = true -> forallb P (filter q l) = true.
Proof.
  induction l as [|x l IH]; intro H; cbn in *; [reflexivity|].
  apply andb_true_iff in H as [H1 H2]. destruct (q x); cbn; [rewrite H1|]; auto.
Qed.

Lemma forallb_update : forall (P : str * gval -> bool) k v l,
  P (k, v) = true -> forallb P l = true -> forallb P (update k v l) = true.
Proof.
  induction l as [|[k' v'] l IH]; intros Hp H; cbn in *.
  - rewrite Hp. reflexivity.
  - apply andb_true_iff in H as [H1 H2]. destruct (str_eqb k k'); cbn.
    + rewrite Hp, H2. reflexivity.
    + rewrite H1. apply IH; assumption.
Qed.

Lemma const_value_untyped : forall v x, const_value v = VOk x -> untyped x = true.
Proof.
  induction v as [k raw ch p IH] using value_ind'. intros x H. destruct k; cbn [const_value] in H.
  - inversion H; reflexivity.
  - destruct (int_out_of_range raw 64); [discriminate|]. inversion H; reflexivity.
  - destruct (float_overflow raw); [discriminate|]. inversion H; reflexivity.
  - inversion H; reflexivity.
  - inversion H; reflexivity.
  - inversion H; reflexivity.
  - inversion H; reflexivity.
  - inversion H; reflexivity.
  - (* list *)
    revert x H. induction IH as [|c tl Hc Htl IHl]; intros x H.
    + inversion H; reflexivity.
    + destruct c as [[n op] cv]. cbn [snd] in Hc.
      destruct (const_value cv) as [y| |] eqn:Ey; try discriminate.
      match type of H with match ?G with _ => _ end = _ => destruct G as [z| |] eqn:Ez; try discriminate end.
      specialize (IHl z eq_refl). destruct z; try (inversion H; subst; exact IHl).
      inversion H; subst x. cbn [untyped] in *. apply andb_true_iff in IHl as [_ IHl].
      cbn [forallb negb andb]. rewrite (Hc y eq_refl), IHl. reflexivity.
  - (* object *)
    revert x H. induction IH as [|c tl Hc Htl IHl]; intros x H.
    + inversion H; reflexivity.
    + destruct c as [[n op] cv]. cbn [snd] in Hc.
      destruct (const_value cv) as [y| |] eqn:Ey; try discriminate.
      match type of H with match ?G with _ => _ end = _ => destruct G as [z| |] eqn:Ez; try discriminate end.
      specialize (IHl z eq_refl). destruct z; try (inversion H; subst; exact IHl).
      inversion H; subst x. cbn [untyped] in *.
      apply forallb_update; [cbn [snd]; apply (Hc y eq_refl)|]. apply forallb_filter_keep. exact IHl.
Qed.

Section VarValues.
  Variable s : schema.
  Variable jn : str -> option str.
  Hypothesis HU : input_fields_unique s.

  (* later declarations leave the slots of other names alone *)
  Lemma variableValues_frame : forall vds vars acc m,
    variableValues dev_none s jn vds vars acc = VOk m ->
    forall k, ~ In k (map vd_var vds) -> lookup k m = lookup k acc.
  Proof.
    induction vds as [|vd tl IH]; intros vars acc m H k Hk; cbn [variableValues] in H.
    - inversion H; reflexivity.
    - cbn [map] in Hk.
      assert (Hk1 : str_eqb k (vd_var vd) = false) by (apply str_eqb_neq; intro E; apply Hk; left; symmetry; exact E).
      assert (Hk2 : ~ In k (map vd_var tl)) by (intro; apply Hk; right; assumption).
      assert (Hupd : forall (x : gval) (acc' : list (str * gval)), lookup k (update (vd_var vd) x acc') = lookup k acc')
        by (intros; apply lookup_update_other; exact Hk1).
      repeat match type of H with
             | context [match ?x with _ => _ end] => destruct x eqn:?; try discriminate H
             | context [if ?c then _ else _] => destruct c eqn:?; try discriminate H
             end;
      try (rewrite (IH _ _ _ H k Hk2); try rewrite Hupd; reflexivity).
  Qed.

  Definition slot_ok (m vars : list (str * gval)) (vd : vardef) : Prop :=
    match lookup vd.(vd_var) m with
    | Some v => conformsb s 64 vd.(vd_type) v = true
    | None => type_nonnull vd.(vd_type) = false /\ lookup vd.(vd_var) vars = None /\ vd.(vd_default) = None
    end.

  Theorem variableValues_conform : forall vds vars acc m,
    NoDup (map vd_var vds) ->
    (forall k v, lookup k vars = Some v -> untyped v = true) ->
    (forall vd, In vd vds -> lookup vd.(vd_var) acc = None) ->
    variableValues dev_none s jn vds vars acc = VOk m ->
    forall vd, In vd vds -> slot_ok m vars vd.
  Proof.
    induction vds as [|vd tl IH]; intros vars acc m ND Hvars Hacc H vd0 Hin; [destruct Hin|].
    cbn [map] in ND. apply NoDup_cons_iff in ND as [Hnot ND'].
    assert (Htl : forall (x : gval), forall vd1, In vd1 tl -> lookup (vd_var vd1) (update (vd_var vd) x acc) = None).
    { intros x vd1 H1. rewrite lookup_update_other; [apply Hacc; right; exact H1|].
      apply str_eqb_neq. intro E. apply Hnot. rewrite <- E. apply in_map. exact H1. }
    assert (Htl0 : forall vd1, In vd1 tl -> lookup (vd_var vd1) acc = None) by (intros; apply Hacc; right; assumption).
    cbn [variableValues] in H.
    destruct (stype s (type_name (vd_type vd))) as [def|] eqn:Es; [|discriminate].
    destruct (negb (kind_is_input (df_kind def))); [discriminate|].
    (* the value the declaration ends up with, if any *)
    assert (Hcase :
      (exists g, variableValues dev_none s jn tl vars (update (vd_var vd) g acc) = VOk m /\ conformsb s 64 (vd_type vd) g = true)
      \/ (variableValues dev_none s jn tl vars acc = VOk m /\ type_nonnull (vd_type vd) = false
          /\ lookup (vd_var vd) vars = None /\ vd_default vd = None)).
    { assert (Hafter : forall v0, untyped v0 = true ->
                match v0 with
                | GNil => if type_nonnull (vd_type vd) then VErr else variableValues dev_none s jn tl vars (update (vd_var vd) GNil acc)
                | _ =>
                  match (match v0, vd_type vd with
                         | GJsonNumber js, NamedT n _ _ =>
                           if str_eqb n (b "Int") then
                             if valid_int_string js
                             then VOk (GInt 2 (match js with (45 :: t)%N => (- digits_val t 0)%Z | (43 :: t)%N => digits_val t 0 | _ => digits_val js 0 end)) else VErr
                           else if str_eqb n (b "Float") then
                             match jn js with Some txt => VOk (GFloat 1 txt) | None => VErr end
                           else VOk v0
                         | _, _ => VOk v0
                         end) with
                  | VOk v1 =>
                    match validateVarType dev_none s 64 (vd_type vd) v1 with
                    | VOk r => variableValues dev_none s jn tl vars (update (vd_var vd) r acc)
                    | VErr => VErr
                    | VPanic => VPanic
                    end
                  | VErr => VErr
                  | VPanic => VPanic
                  end
                end = VOk m ->
                exists g, variableValues dev_none s jn tl vars (update (vd_var vd) g acc) = VOk m /\ conformsb s 64 (vd_type vd) g = true).
      { intros v0 Hu0 Hv. destruct (is_nil v0) eqn:En.
        - destruct v0; try discriminate. destruct (type_nonnull (vd_type vd)) eqn:Enn; [discriminate|].
          exists GNil. split; [exact Hv|]. cbn [conformsb]. rewrite Enn. reflexivity.
        - match type of Hv with context [match ?C with VOk _ => _ | VErr => VErr | VPanic => VPanic end] =>
            assert (Hc : exists v1, C = VOk v1 /\ untyped v1 = true /\ is_nil v1 = false) end.
          { destruct v0; try discriminate; try (eexists; split; [reflexivity|split; [exact Hu0|reflexivity]]).
            destruct (vd_type vd) as [n nn p|e nn p]; [|eexists; split; [reflexivity|split; reflexivity]].
            destruct (str_eqb n (b "Int")).
            - destruct (valid_int_string s0); [eexists; split; [reflexivity|split; reflexivity]|discriminate].
            - destruct (str_eqb n (b "Float")); [|eexists; split; [reflexivity|split; reflexivity]].
              destruct (jn s0); [eexists; split; [reflexivity|split; reflexivity]|discriminate]. }
          destruct Hc as [v1 [Ec [Hu1 Hn1]]].
          assert (Hv' : match validateVarType dev_none s 64 (vd_type vd) v1 with
                        | VOk r => variableValues dev_none s jn tl vars (update (vd_var vd) r acc)
                        | VErr => VErr | VPanic => VPanic end = VOk m)
            by (rewrite Ec in Hv; destruct v0; try discriminate; exact Hv).
          destruct (validateVarType dev_none s 64 (vd_type vd) v1) as [r| |] eqn:Ev; try discriminate.
          exists r. split; [exact Hv'|]. eapply (vvt_conforms s HU); [exact Hu1| |exact Ev].
          intro Hn. rewrite Hn in Hn1. discriminate. }
      destruct (lookup (vd_var vd) vars) as [v|] eqn:El.
      - left. apply (Hafter v); [eapply Hvars; exact El|]. destruct v; exact H.
      - destruct (vd_default vd) as [dv|] eqn:Ed.
        + destruct (const_value dv) as [x| |] eqn:Ec; try discriminate.
          left. apply (Hafter x); [eapply const_value_untyped; exact Ec|]. destruct x; exact H.
        + destruct (type_nonnull (vd_type vd)) eqn:Enn; [discriminate|]. right. repeat split; assumption. }
    destruct Hcase as [[g [Hg Hc]]|[Hg [Hnn [Hl Hd]]]].
    - destruct Hin as [<-|Hin].
      + unfold slot_ok. rewrite (variableValues_frame _ _ _ _ Hg _ Hnot), lookup_update_same. exact Hc.
      + eapply IH; [exact ND'|exact Hvars|apply Htl|exact Hg|exact Hin].
    - destruct Hin as [<-|Hin].
      + unfold slot_ok. rewrite (variableValues_frame _ _ _ _ Hg _ Hnot), (Hacc vd (or_introl eq_refl)). repeat split; assumption.
      + eapply IH; [exact ND'|exact Hvars|exact Htl0|exact Hg|exact Hin].
  Qed.
End VarValues.

(* ---------------- loaded schemas have distinct input field names ---------------- *)
Lemma unique_names_nodup : forall l, unique_names l = true -> NoDup l.
Proof.
  induction l as [|x l IH]; intro H; [constructor|]. cbn [unique_names] in H.
  apply andb_true_iff in H as [H1 H2]. constructor; [|apply IH; exact H2].
  intro Hin. unfold mem_str in H1. apply negb_true_iff in H1.
  assert (existsb (str_eqb x) l = true); [|congruence].
  apply existsb_exists. exists x. split; [exact Hin|apply str_eqb_refl].
Qed.

Lemma vd_unique : forall types dirs possible d, validateDefinition types dirs possible d = true ->
  unique_names (map fd_name d.(df_fields)) = true.
Proof. intros types dirs possible d H. unfold validateDefinition in H. repeat (apply andb_true_iff in H as [H ?]). assumption. Qed.

Theorem loaded_input_fields_unique : forall sd s, validateSchemaDocument sd = Some s -> input_fields_unique s.
Proof.
  intros sd s H. destruct (vsd_inv sd s H) as (types0 & types & order & dirs & q' & m' & s' & sdirs & desc & Ead & Eme & Edi & Hdefs & Hdirs & Hq' & Hm' & Hs' & Hobj & Hs).
  subst s. intros n def Hl Hk. unfold stype in Hl. cbn [sc_types] in Hl.
  assert (Hcase : exists d0, lookup n types = Some d0 /\ (def = d0 \/ def = with_introspection d0)).
  { unfold final_types in Hl. destruct q' as [qn|]; [|exists def; split; [exact Hl|left; reflexivity]].
    destruct (lookup qn types) as [qd|] eqn:Eq; [|exists def; split; [exact Hl|left; reflexivity]].
    destruct (str_eqb n qn) eqn:E.
    - apply str_eqb_eq in E. subst n. rewrite lookup_update_same in Hl. inversion Hl; subst.
      exists qd. split; [exact Eq|right; reflexivity].
    - rewrite lookup_update_other in Hl; [|exact E]. exists def. split; [exact Hl|left; reflexivity]. }
  destruct Hcase as [d0 [Hl0 Hd]].
  pose proof (forallb_lookup _ _ _ _ _ Hdefs Hl0) as Hvd. cbn [snd] in Hvd.
  pose proof (unique_names_nodup _ (vd_unique _ _ _ _ Hvd)) as ND.
  destruct Hd as [->| ->]; [exact ND|].
  cbn [with_introspection df_fields]. rewrite map_app.
  (* user field names do not start with two underscores *)
  pose proof (vd_fields _ _ _ _ Hvd) as Hf. rewrite forallb_forall in Hf.
  assert (Hv : forall x, In x (map fd_name (df_fields d0)) -> starts_dunder x = false).
  { intros x Hx. apply in_map_iff in Hx as [f [<- Hfin]]. specialize (Hf f Hfin).
    repeat (apply andb_true_iff in Hf as [Hf ?]). unfold validName in Hf. apply negb_true_iff in Hf. exact Hf. }
  clear - ND Hv. induction (map fd_name (df_fields d0)) as [|x l IH]; cbn [app].
  - cbn. constructor; [|constructor; [intros []|constructor]].
    intros [E|[]]. vm_compute in E. discriminate.
  - apply NoDup_cons_iff in ND as [Hx ND]. constructor.
    + intro Hin. apply in_app_or in Hin as [Hin|Hin]; [contradiction|].
      assert (Hs : starts_dunder x = false) by (apply Hv; left; reflexivity).
      cbn in Hin. destruct Hin as [<-|[<-|[]]]; vm_compute in Hs; discriminate.
    + apply IH; [exact ND|]. intros y Hy. apply Hv. right. exact Hy.
Qed.
