(* SchemaSizes.v — the fuel parseSchema gives itself (2*|input|+8) always suffices: every size condition of
   ParseSchemaComplete.item_ok follows from the intrinsic conditions (item_wok) and the number of tokens
   of the item, and the number of tokens of a text is at most its length. *)
From Coq Require Import List NArith ZArith Lia Bool.
From GQL.model Require Import Base Utf8 Lexer Ast Parser Prog ParseQuery ParseSchema.
From GQL.proofs Require Import StrFacts ProgFacts ParserTotal TypeRoundtrip ValueRoundtrip TokenStream JsonRoundtrip ParseComplete Sizes ParseSchemaComplete.
Import ListNotations.
Open Scope N_scope.

Section S.
  Variable d : dev.
  Variable N : nat.
  Variable dk : str -> kind.
  Local Notation flat_argdef := (ParseSchemaComplete.flat_argdef dk).
  Local Notation flat_argdefs := (ParseSchemaComplete.flat_argdefs dk).
  Local Notation flat_fielddef := (ParseSchemaComplete.flat_fielddef dk).
  Local Notation flat_inputvalue := (ParseSchemaComplete.flat_inputvalue dk).
  Local Notation flat_enumval := (ParseSchemaComplete.flat_enumval dk).
  Local Notation flat_defbody := (ParseSchemaComplete.flat_defbody dk).
  Local Notation flat_dirdefbody := (ParseSchemaComplete.flat_dirdefbody dk).
  Local Notation flat_item := (ParseSchemaComplete.flat_item dk).

  Definition default_wok (dv : option value) : Prop := match dv with Some v => vt_ok v /\ has_var v = false | None => True end.
  Definition argdef_wok (a : argdef) : Prop := default_wok a.(ad_default) /\ dirs_wok true a.(ad_dirs).
  Definition fielddef_wok (x : fielddef) : Prop := Forall argdef_wok x.(fd_args) /\ dirs_wok true x.(fd_dirs) /\ x.(fd_default) = None.
  Definition inputvalue_wok (x : fielddef) : Prop := x.(fd_args) = [] /\ default_wok x.(fd_default) /\ dirs_wok true x.(fd_dirs).

  Lemma cdirs_ok_of : forall l, dirs_wok true l -> (length (flat_dirs l) < N)%nat -> cdirs_ok N N l.
  Proof.
    intros l Hw Hn. destruct (dirs_sizes true l Hw) as [D1 D2]. unfold cdirs_ok.
    apply (dirs_ok_of N true N l Hw); lia.
  Qed.

  Lemma default_ok_of : forall dv, default_wok dv -> (length (flat_default dv) < N)%nat -> default_ok N N dv.
  Proof.
    intros [v|] Hw Hn; [|exact I]. destruct Hw as [H1 H2]. destruct (value_sizes v H1) as [_ [V1 V2]]. cbn [flat_default length] in Hn.
    cbn [default_ok]. repeat split; try assumption; lia.
  Qed.

  Lemma argdef_ok_of : forall a, argdef_wok a -> (length (flat_argdef a) < N)%nat -> argdef_ok N N a.
  Proof.
    intros [desc n dv t dirs p] [Hdv Hd] Hn. unfold flat_argdef in Hn. cbn [ad_desc ad_name ad_default ad_type ad_dirs] in *.
    rewrite !app_length in Hn. cbn [length] in Hn. rewrite !app_length in Hn. pose proof (type_sizes t) as Ht.
    unfold argdef_ok. cbn [ad_default ad_type ad_dirs]. split; [lia|]. split; [apply default_ok_of; [exact Hdv|lia]|apply cdirs_ok_of; [exact Hd|lia]].
  Qed.

  Lemma flat_map_member : forall (A : Type) (f : A -> list tk) l x, In x l -> (length (f x) <= length (flat_map f l))%nat.
  Proof.
    induction l as [|a tl IH]; intros x Hin; [destruct Hin|]. cbn [flat_map]. rewrite app_length. destruct Hin as [<-|Hin]; [lia|]. specialize (IH x Hin). lia.
  Qed.

  Lemma argdefs_ok_of : forall l, Forall argdef_wok l -> (length (flat_argdefs l) < N)%nat -> Forall (argdef_ok N N) l /\ (length l < N)%nat.
  Proof.
    intros l Hw Hn. destruct l as [|a0 tl0]; [split; [constructor|cbn; lia]|]. remember (a0 :: tl0) as l eqn:El.
    assert (E : flat_argdefs l = P ParenL :: flat_map flat_argdef l ++ [P ParenR]) by (subst l; reflexivity). rewrite E in Hn. clear E El.
    cbn [length] in Hn. rewrite app_length in Hn. cbn [length] in Hn. split.
    - rewrite Forall_forall in *. intros a Hin. apply argdef_ok_of; [exact (Hw a Hin)|]. pose proof (flat_map_member _ flat_argdef l a Hin). lia.
    - pose proof (flat_map_count _ _ flat_argdef l ltac:(intros x _; unfold flat_argdef; rewrite app_length; cbn [length]; lia)). lia.
  Qed.

  Lemma fielddef_ok_of : forall x, fielddef_wok x -> (length (flat_fielddef x) < N)%nat -> fielddef_ok N N x.
  Proof.
    intros [desc n args dv t dirs p] [Ha [Hd Hdv]] Hn. unfold flat_fielddef in Hn. cbn [fd_desc fd_name fd_args fd_default fd_type fd_dirs] in *.
    rewrite !app_length in Hn. cbn [length] in Hn. rewrite !app_length in Hn. cbn [length] in Hn. rewrite !app_length in Hn. pose proof (type_sizes t) as Ht.
    destruct (argdefs_ok_of args Ha ltac:(lia)) as [A1 A2].
    unfold fielddef_ok. cbn [fd_args fd_default fd_type fd_dirs]. split; [exact A1|]. split; [exact A2|]. split; [lia|]. split; [apply cdirs_ok_of; [exact Hd|lia]|exact Hdv].
  Qed.

  Lemma inputvalue_ok_of : forall x, inputvalue_wok x -> (length (flat_inputvalue x) < N)%nat -> inputvalue_ok N N x.
  Proof.
    intros [desc n args dv t dirs p] [Ha [Hdv Hd]] Hn. unfold flat_inputvalue in Hn. cbn [fd_desc fd_name fd_args fd_default fd_type fd_dirs] in *.
    rewrite !app_length in Hn. cbn [length] in Hn. rewrite !app_length in Hn. pose proof (type_sizes t) as Ht.
    unfold inputvalue_ok. cbn [fd_args fd_default fd_type fd_dirs]. split; [exact Ha|]. split; [lia|]. split; [apply default_ok_of; [exact Hdv|lia]|apply cdirs_ok_of; [exact Hd|lia]].
  Qed.

  Lemma block_ok_of : forall (A : Type) (flat : A -> list tk) (wok ok : A -> Prop) l,
    (forall x, wok x -> (length (flat x) < N)%nat -> ok x) -> (forall x, (1 <= length (flat x))%nat) ->
    Forall wok l -> (length (flat_block flat l) < N)%nat -> Forall ok l /\ (length l < N)%nat.
  Proof.
    intros A flat wok ok l Hof H1 Hw Hn. destruct l as [|a0 tl0]; [split; [constructor|cbn; lia]|]. remember (a0 :: tl0) as l eqn:El.
    assert (E : flat_block flat l = P BraceL :: flat_map flat l ++ [P BraceR]) by (subst l; reflexivity). rewrite E in Hn. clear E El.
    cbn [length] in Hn. rewrite app_length in Hn. cbn [length] in Hn. split.
    - rewrite Forall_forall in *. intros a Hin. apply Hof; [exact (Hw a Hin)|]. pose proof (flat_map_member _ flat l a Hin). lia.
    - pose proof (flat_map_count _ _ flat l (fun x _ => H1 x)). lia.
  Qed.

  (* ---- definitions, schema definitions, directive definitions ---- *)
  Definition def_wok (ext : bool) (x : definition) : Prop :=
    dirs_wok true x.(df_dirs) /\ x.(df_builtin) = false
    /\ match x.(df_kind) with
       | KScalar => x.(df_ifaces) = [] /\ x.(df_fields) = [] /\ x.(df_types) = [] /\ x.(df_enums) = [] /\ (ext = true -> x.(df_dirs) <> [])
       | KObject => Forall fielddef_wok x.(df_fields) /\ x.(df_types) = [] /\ x.(df_enums) = []
                    /\ (ext = true -> x.(df_ifaces) <> [] \/ x.(df_dirs) <> [] \/ x.(df_fields) <> [])
       | KInterface => Forall fielddef_wok x.(df_fields) /\ x.(df_types) = [] /\ x.(df_enums) = []
                    /\ (ext = true -> (d F_S4 = true -> x.(df_ifaces) = []) /\ (x.(df_ifaces) <> [] \/ x.(df_dirs) <> [] \/ x.(df_fields) <> []))
       | KUnion => x.(df_ifaces) = [] /\ x.(df_fields) = [] /\ x.(df_enums) = [] /\ (ext = true -> x.(df_dirs) <> [] \/ x.(df_types) <> [])
       | KEnum => x.(df_ifaces) = [] /\ x.(df_fields) = [] /\ x.(df_types) = [] /\ Forall (fun e => dirs_wok true e.(ev_dirs)) x.(df_enums)
                    /\ (ext = true -> x.(df_dirs) <> [] \/ x.(df_enums) <> [])
       | KInputObject => x.(df_ifaces) = [] /\ x.(df_types) = [] /\ x.(df_enums) = [] /\ Forall inputvalue_wok x.(df_fields)
                    /\ (ext = true -> x.(df_dirs) <> [] \/ x.(df_fields) <> [])
       end.

  Lemma names_len : forall (sep : kind) (l : list str), (length l <= length (flat_map (fun n => (sep, []) :: [(Name, n)]) l))%nat.
  Proof. intros sep l. apply flat_map_count. intros x _. cbn [length]. lia. Qed.

  Lemma implements_len : forall l, (length l <= length (flat_implements l))%nat.
  Proof. intros [|i0 tl]; [cbn; lia|]. cbn [flat_implements length]. apply le_n_S, le_S. exact (names_len Amp tl). Qed.
  Lemma members_len : forall l, (length l <= length (flat_members l))%nat.
  Proof. intros [|i0 tl]; [cbn; lia|]. cbn [flat_members length]. apply le_n_S, le_S. exact (names_len Pipe tl). Qed.

  Lemma fielddef_nonempty : forall x, (1 <= length (flat_fielddef x))%nat.
  Proof. intro x. unfold flat_fielddef. rewrite app_length. cbn [length]. lia. Qed.
  Lemma inputvalue_nonempty : forall x, (1 <= length (flat_inputvalue x))%nat.
  Proof. intro x. unfold flat_inputvalue. rewrite app_length. cbn [length]. lia. Qed.
  Lemma enumval_nonempty : forall x, (1 <= length (flat_enumval x))%nat.
  Proof. intro x. unfold flat_enumval. rewrite app_length. cbn [length]. lia. Qed.

  Lemma enumval_ok_of : forall e : enumval, dirs_wok true (ev_dirs e) -> (length (flat_enumval e) < N)%nat -> cdirs_ok N N (ev_dirs e).
  Proof. intros e Hw Hn. unfold flat_enumval in Hn. rewrite app_length in Hn. cbn [length] in Hn. apply cdirs_ok_of; [exact Hw|lia]. Qed.

  Lemma def_ok_of : forall ext x, def_wok ext x -> (length (flat_defbody x) < N)%nat -> def_ok d N N ext x.
  Proof.
    intros ext [k dsc n dirs ifs flds tys vals p bi] [Hd [Hbi Hk]] Hn. unfold flat_defbody in Hn.
    cbn [df_kind df_desc df_name df_dirs df_ifaces df_fields df_types df_enums df_pos df_builtin] in *.
    unfold def_ok. cbn [df_kind df_desc df_name df_dirs df_ifaces df_fields df_types df_enums df_pos df_builtin].
    destruct k.
    - split; [apply cdirs_ok_of; [exact Hd|lia]|]. split; [exact Hbi|exact Hk].
    - rewrite !app_length in Hn. pose proof (implements_len ifs). destruct Hk as [Hf [E1 [E2 Hext]]].
      destruct (block_ok_of _ flat_fielddef fielddef_wok (fielddef_ok N N) flds fielddef_ok_of fielddef_nonempty Hf ltac:(lia)) as [B1 B2].
      split; [apply cdirs_ok_of; [exact Hd|lia]|]. split; [exact Hbi|]. repeat split; try assumption; lia.
    - rewrite !app_length in Hn. pose proof (implements_len ifs). destruct Hk as [Hf [E1 [E2 Hext]]].
      destruct (block_ok_of _ flat_fielddef fielddef_wok (fielddef_ok N N) flds fielddef_ok_of fielddef_nonempty Hf ltac:(lia)) as [B1 B2].
      split; [apply cdirs_ok_of; [exact Hd|lia]|]. split; [exact Hbi|]. repeat split; try assumption; try lia; destruct (Hext H0); assumption.
    - rewrite !app_length in Hn. pose proof (members_len tys). destruct Hk as [E1 [E2 [E3 Hext]]].
      split; [apply cdirs_ok_of; [exact Hd|lia]|]. split; [exact Hbi|]. repeat split; try assumption; lia.
    - rewrite !app_length in Hn. destruct Hk as [E1 [E2 [E3 [Hv Hext]]]].
      destruct (block_ok_of _ flat_enumval (fun e => dirs_wok true (ev_dirs e)) (fun e => cdirs_ok N N (ev_dirs e)) vals enumval_ok_of enumval_nonempty Hv ltac:(lia)) as [B1 B2].
      split; [apply cdirs_ok_of; [exact Hd|lia]|]. split; [exact Hbi|]. repeat split; try assumption; lia.
    - rewrite !app_length in Hn. destruct Hk as [E1 [E2 [E3 [Hf Hext]]]].
      destruct (block_ok_of _ flat_inputvalue inputvalue_wok (inputvalue_ok N N) flds inputvalue_ok_of inputvalue_nonempty Hf ltac:(lia)) as [B1 B2].
      split; [apply cdirs_ok_of; [exact Hd|lia]|]. split; [exact Hbi|]. repeat split; try assumption; lia.
  Qed.

  Definition schemadef_wok (ext : bool) (x : schemadef) : Prop :=
    dirs_wok true x.(sd_dirs) /\ Forall (fun o => o.(ot_op) <> OpNone) x.(sd_ops)
    /\ (if ext then x.(sd_desc) = [] /\ (x.(sd_dirs) <> [] \/ x.(sd_ops) <> []) else x.(sd_ops) <> [] \/ d F_S1 = true).

  Lemma schemadef_ok_of : forall ext x, schemadef_wok ext x -> (length (flat_schemabody x) < N)%nat -> schemadef_ok d N N ext x.
  Proof.
    intros ext [dsc dirs ops p] [Hd [Ho He]] Hn. unfold flat_schemabody in Hn. cbn [sd_desc sd_dirs sd_ops] in *. cbn [length] in Hn. rewrite app_length in Hn.
    destruct (block_ok_of _ flat_optype (fun o => ot_op o <> OpNone) (fun o => ot_op o <> OpNone) ops (fun x H _ => H) ltac:(intro x; cbn; lia) Ho ltac:(lia)) as [B1 B2].
    unfold schemadef_ok. cbn [sd_desc sd_dirs sd_ops]. split; [apply cdirs_ok_of; [exact Hd|lia]|]. split; [exact Ho|]. split; [exact B2|exact He].
  Qed.

  Definition dirdef_wok (x : dirdef) : Prop := Forall argdef_wok x.(dd_args) /\ x.(dd_locs) <> [] /\ Forall loc_ok x.(dd_locs).

  Lemma dirdef_ok_of : forall x, dirdef_wok x -> (length (flat_dirdefbody x) < N)%nat -> dirdef_ok N N x.
  Proof.
    intros [dsc n args locs rep p] [Ha [Hne Hl]] Hn. unfold flat_dirdefbody in Hn. cbn [dd_desc dd_name dd_args dd_locs dd_repeatable] in *.
    cbn [length] in Hn. rewrite !app_length in Hn. cbn [length] in Hn.
    destruct (argdefs_ok_of args Ha ltac:(lia)) as [A1 A2].
    unfold dirdef_ok. cbn [dd_args dd_locs]. split; [exact A1|]. split; [exact A2|]. split; [exact Hne|]. split; [exact Hl|].
    destruct locs as [|l0 tl]; [congruence|]. cbn [length] in *.
    match type of Hn with context [length (flat_map ?g tl)] => assert (Hc : (length tl <= length (flat_map g tl))%nat) by (apply flat_map_count; intros x _; cbv beta; cbn [length]; apply le_n_S, Nat.le_0_l) end.
    unfold str, tk in *. lia.
  Qed.

  Definition item_wok (it : sitem) : Prop :=
    match it with
    | IDef x => def_wok false x /\ not_implements x.(df_desc)
    | IExt x => def_wok true x /\ x.(df_desc) = []
    | ISchema x => schemadef_wok false x /\ not_implements x.(sd_desc)
    | ISchemaExt x => schemadef_wok true x
    | IDir x => dirdef_wok x /\ not_implements x.(dd_desc)
    | INone => False
    end.

  Lemma item_ok_of : forall it, item_wok it -> (length (flat_item it) < N)%nat -> item_ok d N N it.
  Proof.
    intros [x|x|x|x|x|] Hw Hn; cbn [item_wok item_ok flat_item] in *; try contradiction.
    - destruct Hw as [H1 H2]. split; [|exact H2]. apply def_ok_of; [exact H1|]. rewrite app_length in Hn. cbn [length] in Hn. lia.
    - destruct Hw as [H1 H2]. split; [|exact H2]. apply def_ok_of; [exact H1|]. cbn [length] in Hn. lia.
    - destruct Hw as [H1 H2]. split; [|exact H2]. apply schemadef_ok_of; [exact H1|]. rewrite app_length in Hn. lia.
    - apply schemadef_ok_of; [exact Hw|]. cbn [length] in Hn. lia.
    - destruct Hw as [H1 H2]. split; [|exact H2]. apply dirdef_ok_of; [exact H1|]. rewrite app_length in Hn. lia.
  Qed.

  Lemma item_nonempty : forall it, item_wok it -> (1 <= length (flat_item it))%nat.
  Proof.
    intros [x|x|x|x|x|] Hw; cbn [item_wok flat_item] in *; try contradiction; try (cbn [length]; lia).
    - rewrite app_length. cbn [length]. lia.
    - rewrite app_length. unfold flat_schemabody. cbn [length]. lia.
    - rewrite app_length. unfold flat_dirdefbody. cbn [length]. lia.
  Qed.
End S.

(* the entry point as it is; dk says how each description is written (quoted or block string) *)
Theorem parseSchema_complete_entry : forall d (dk : str -> kind) items input ix bi,
  (forall s, dk s = String_ \/ dk s = BlockString) ->
  Forall (item_wok d) items -> (items <> [] \/ d F_S7 = true) -> toks d input (flat_map (flat_item dk) items) ->
  exists doc', parseSchema d 0 ix bi input = POk doc' /\ erase_sdoc doc' = erase_sdoc (with_builtin bi (sdoc_of items)).
Proof.
  intros d dk items input ix bi Hdk Hw Hne Ht. pose proof (toks_len d input _ Ht) as Hl. set (N := query_fuel input).
  assert (HN : (length (flat_map (flat_item dk) items) < N)%nat) by (unfold N, query_fuel; lia).
  assert (Hok : Forall (item_ok d N N) items).
  { rewrite Forall_forall in *. intros it Hin. apply (item_ok_of d N dk); [exact (Hw it Hin)|]. pose proof (flat_map_member _ (flat_item dk) items it Hin). lia. }
  assert (Hn : (length items < N)%nat).
  { pose proof (flat_map_count _ _ (flat_item dk) items ltac:(intros x Hx; rewrite Forall_forall in Hw; exact (item_nonempty d dk x (Hw x Hx)))). lia. }
  destruct (parseSchema_complete dk Hdk d items input N ix bi Hok Hn Hne Ht) as [doc' [s [E Ed]]].
  exists doc'. split; [unfold parseSchema; fold N; rewrite E; reflexivity|exact Ed].
Qed.
