(* RuleCompose.v — rules are independent observers of one event stream: the errors of a rule list
   are those of its members (C18), and the WithoutSuggestions variants differ from their
   standard rules only in the suggestion suffix. *)
From Coq Require Import List NArith ZArith Bool Permutation.
From GQL.model Require Import Base Utf8 Lexer Ast Schema Walk Rules Rules2 Validate.
From GQL.proofs Require Import StrFacts.
Import ListNotations.

Lemma rinst_step_name : forall r e, rinst_name (fst (rinst_step r e)) = rinst_name r.
Proof. intros [n St st step] e. cbn. destruct (step st e). reflexivity. Qed.

Lemma rinst_step_tag : forall r e x, In x (snd (rinst_step r e)) -> ve_rule x = rinst_name r.
Proof.
  intros [n St st step] e x. cbn. destruct (step st e) as [st' errs]. cbn.
  rewrite in_map_iff. intros [y [<- _]]. reflexivity.
Qed.

Lemma deliver_cons : forall r rs e,
  deliver (r :: rs) e = (fst (rinst_step r e) :: fst (deliver rs e), snd (rinst_step r e) ++ snd (deliver rs e)).
Proof. intros. cbn. destruct (rinst_step r e), (deliver rs e). reflexivity. Qed.

Lemma run_events_cons : forall rs e tl,
  run_events rs (e :: tl) = snd (deliver rs e) ++ run_events (fst (deliver rs e)) tl.
Proof. intros. cbn. destruct (deliver rs e). reflexivity. Qed.

Lemma run_events_none : forall evs, run_events [] evs = [].
Proof. induction evs as [|e tl IH]; cbn; [reflexivity|exact IH]. Qed.

(* ---- the errors of a list of rules are the errors of its members, as a multiset ---- *)
Lemma run_events_split : forall evs r rs,
  Permutation (run_events (r :: rs) evs) (run_events [r] evs ++ run_events rs evs).
Proof.
  induction evs as [|e tl IH]; intros r rs.
  - reflexivity.
  - rewrite !run_events_cons, !deliver_cons. cbn [deliver fst snd]. rewrite app_nil_r.
    rewrite IH. rewrite <- !app_assoc. apply Permutation_app_head.
    rewrite !app_assoc. apply Permutation_app_tail. apply Permutation_app_comm.
Qed.

Theorem run_events_union : forall rs evs,
  Permutation (run_events rs evs) (flat_map (fun r => run_events [r] evs) rs).
Proof.
  induction rs as [|r rs IH]; intro evs.
  - rewrite run_events_none. reflexivity.
  - cbn [flat_map]. rewrite run_events_split. apply Permutation_app_head. apply IH.
Qed.

(* ---- and, in order: the errors tagged with a name are the run of the rules of that name ---- *)
Definition errs_of (n : str) (l : list verr) : list verr := filter (fun x => str_eqb (ve_rule x) n) l.
Definition named (n : str) (rs : list rinst) : list rinst := filter (fun r => str_eqb (rinst_name r) n) rs.

Lemma errs_of_all : forall n l, (forall x, In x l -> ve_rule x = n) -> errs_of n l = l.
Proof.
  induction l as [|x l IH]; intro H; cbn; [reflexivity|].
  rewrite (H x (or_introl eq_refl)), str_eqb_refl. f_equal. apply IH. intros y Hy. apply H. right. exact Hy.
Qed.

Lemma errs_of_none : forall n m l, (forall x, In x l -> ve_rule x = m) -> str_eqb m n = false -> errs_of n l = [].
Proof.
  induction l as [|x l IH]; intros H Hn; cbn; [reflexivity|].
  rewrite (H x (or_introl eq_refl)), Hn. apply IH; [|exact Hn]. intros y Hy. apply H. right. exact Hy.
Qed.

Lemma errs_of_app : forall n l1 l2, errs_of n (l1 ++ l2) = errs_of n l1 ++ errs_of n l2.
Proof. intros. unfold errs_of. apply filter_app. Qed.

Lemma named_cons : forall n r rs,
  named n (r :: rs) = if str_eqb (rinst_name r) n then r :: named n rs else named n rs.
Proof. reflexivity. Qed.

Lemma deliver_named : forall n rs e,
  deliver (named n rs) e = (named n (fst (deliver rs e)), errs_of n (snd (deliver rs e))).
Proof.
  induction rs as [|r rs IH]; intro e; [reflexivity|].
  rewrite deliver_cons. cbn [fst snd]. rewrite errs_of_app, !named_cons, rinst_step_name.
  destruct (str_eqb (rinst_name r) n) eqn:E.
  - rewrite deliver_cons, IH. cbn [fst snd]. apply str_eqb_eq in E. subst n.
    rewrite (errs_of_all (rinst_name r) (snd (rinst_step r e))); [reflexivity|].
    intros x Hx. eapply rinst_step_tag. exact Hx.
  - rewrite IH. cbn [fst snd].
    rewrite (errs_of_none n (rinst_name r) (snd (rinst_step r e))); [reflexivity| |exact E].
    intros x Hx. eapply rinst_step_tag. exact Hx.
Qed.

Theorem run_events_project : forall n evs rs,
  errs_of n (run_events rs evs) = run_events (named n rs) evs.
Proof.
  induction evs as [|e tl IH]; intro rs; [reflexivity|].
  rewrite !run_events_cons, errs_of_app.
  rewrite deliver_named. cbn [fst snd]. rewrite IH. reflexivity.
Qed.

Lemma named_unique : forall r rs, NoDup (map rinst_name rs) -> In r rs -> named (rinst_name r) rs = [r].
Proof.
  induction rs as [|q rs IH]; intros ND Hin; [destruct Hin|].
  cbn [map] in ND. inversion ND as [|? ? Hnot ND']; subst.
  rewrite named_cons. destruct Hin as [->|Hin].
  - rewrite str_eqb_refl. f_equal.
    clear IH ND ND'. induction rs as [|q rs IH]; [reflexivity|].
    rewrite named_cons.
    destruct (str_eqb (rinst_name q) (rinst_name r)) eqn:E.
    + apply str_eqb_eq in E. exfalso. apply Hnot. cbn [map]. left. exact E.
    + apply IH. intro H. apply Hnot. cbn [map]. right. exact H.
  - destruct (str_eqb (rinst_name q) (rinst_name r)) eqn:E.
    + apply str_eqb_eq in E. exfalso. apply Hnot. rewrite E. apply in_map. exact Hin.
    + apply IH; assumption.
Qed.

(* a rule reports the same errors, in the same order, alone or among other rules *)
Theorem rule_alone_or_together : forall rs r evs,
  NoDup (map rinst_name rs) -> In r rs ->
  errs_of (rinst_name r) (run_events rs evs) = run_events [r] evs.
Proof. intros rs r evs ND Hin. rewrite run_events_project, named_unique; auto. Qed.

(* every error of a run carries the name of one of the rules *)
Lemma run_events_tags : forall evs rs x, In x (run_events rs evs) -> In (ve_rule x) (map rinst_name rs).
Proof.
  induction evs as [|e tl IH]; intros rs x Hx; [destruct Hx|].
  rewrite run_events_cons in Hx. apply in_app_or in Hx as [Hx|Hx].
  - clear IH. revert x Hx. induction rs as [|r rs IHr]; intros x Hx; [destruct Hx|].
    rewrite deliver_cons in Hx. cbn [snd] in Hx. apply in_app_or in Hx as [Hx|Hx].
    + left. symmetry. eapply rinst_step_tag. exact Hx.
    + right. apply IHr. exact Hx.
  - apply IH in Hx. clear IH.
    assert (Hn : forall rs, map rinst_name (fst (deliver rs e)) = map rinst_name rs).
    { induction rs0 as [|r rs0 IHr]; [reflexivity|]. rewrite deliver_cons. cbn [fst map]. rewrite rinst_step_name, IHr. reflexivity. }
    rewrite Hn in Hx. exact Hx.
Qed.

(* ---- WithoutSuggestions variants ---- *)
Definition strip (n : str) (x : verr) : verr := mkVErr n x.(ve_locs) [].
Definition rstrip (x : rerr) : rerr := mkRErr x.(re_locs) [].

Lemma stateless_strip : forall n1 n2 h1 h2, (forall e, h1 e = map rstrip (h2 e)) ->
  forall evs, run_events [stateless n1 h1] evs = map (strip n1) (run_events [stateless n2 h2] evs).
Proof.
  intros n1 n2 h1 h2 H. induction evs as [|e tl IH]; [reflexivity|].
  unfold stateless in *. cbn [run_events deliver rinst_step]. rewrite !app_nil_r.
  rewrite map_app. f_equal; [|exact IH].
  rewrite H, !map_map. reflexivity.
Qed.

Lemma rstrip_at : forall p sg, rstrip (at_ p sg) = at_ p [].
Proof. reflexivity. Qed.

Lemma flat_map_strip : forall A (f g : A -> list rerr) l, (forall a, f a = map rstrip (g a)) ->
  flat_map f l = map rstrip (flat_map g l).
Proof.
  intros A f g l H. induction l as [|a l IH]; [reflexivity|].
  cbn [flat_map]. rewrite map_app, H, IH. reflexivity.
Qed.

Theorem FieldsOnCorrectType_nosugg : forall s evs,
  run_events [r_FieldsOnCorrectType s true] evs
  = map (strip (b "FieldsOnCorrectTypeWithoutSuggestions")) (run_events [r_FieldsOnCorrectType s false] evs).
Proof.
  intros s evs. unfold r_FieldsOnCorrectType. apply stateless_strip.
  intros [[a c] ev]. cbn [snd].
  destruct ev; try reflexivity.
  repeat match goal with |- context [match ?x with _ => _ end] => destruct x; try reflexivity end.
Qed.

Theorem KnownArgumentNames_nosugg : forall s evs,
  run_events [r_KnownArgumentNames s true] evs
  = map (strip (b "KnownArgumentNamesWithoutSuggestions")) (run_events [r_KnownArgumentNames s false] evs).
Proof.
  intros s evs. unfold r_KnownArgumentNames. apply stateless_strip.
  intros [[a c] ev]. cbn [snd].
  destruct ev; try reflexivity.
  - destruct (sdir s _); [|reflexivity].
    apply flat_map_strip. intro x. destruct (is_some _); reflexivity.
  - destruct f; try reflexivity. destruct objdef; try reflexivity. destruct fdef; try reflexivity.
    apply flat_map_strip. intro x. destruct (is_some _); reflexivity.
Qed.

Theorem KnownTypeNames_nosugg : forall s evs,
  run_events [r_KnownTypeNames s true] evs
  = map (strip (b "KnownTypeNamesWithoutSuggestions")) (run_events [r_KnownTypeNames s false] evs).
Proof.
  intros s evs. unfold r_KnownTypeNames. apply stateless_strip.
  intros [[a c] ev]. cbn [snd].
  destruct ev; try reflexivity;
  repeat match goal with |- context [match ?x with _ => _ end] => destruct x; try reflexivity end.
Qed.

Ltac crush_matches :=
  repeat match goal with
         | |- context [match ?x with _ => _ end] => destruct x; try reflexivity
         | |- context [if ?c then _ else _] => destruct c; try reflexivity
         end.

Lemma values_of_correct_type_strip : forall ann v exp def,
  values_of_correct_type true ann v exp def = map rstrip (values_of_correct_type false ann v exp def).
Proof.
  intros ann v exp def. unfold values_of_correct_type. destruct v as [k raw ch p].
  set (errs1 := if _ && type_nonnull exp then [err_at p] else []).
  assert (H1 : map rstrip errs1 = errs1) by (subst errs1; destruct (_ && _); reflexivity).
  destruct (dkind_eqb (df_kind def) KScalar && negb (builtin_scalar_name (df_name def))); [symmetry; exact H1|].
  set (errs2 := if use_conv_error _ _ then [err_at p] else []).
  assert (H2 : map rstrip errs2 = errs2) by (subst errs2; destruct (use_conv_error _ _); reflexivity).
  rewrite !map_app, H1, H2. f_equal. f_equal.
  destruct k; try reflexivity; try solve [crush_matches].
  destruct (negb (dkind_eqb (df_kind def) KInputObject)); [reflexivity|].
  rewrite !map_app. f_equal; [|f_equal].
  - apply flat_map_strip. intro f. crush_matches.
  - apply flat_map_strip. intro dir. crush_matches.
  - apply flat_map_strip. intros [[cn cpos] cv]. crush_matches.
Qed.

Theorem ValuesOfCorrectType_nosugg : forall evs,
  run_events [r_ValuesOfCorrectType true] evs
  = map (strip (b "ValuesOfCorrectTypeWithoutSuggestions")) (run_events [r_ValuesOfCorrectType false] evs).
Proof.
  intro evs. unfold r_ValuesOfCorrectType. apply stateless_strip.
  intros [[a c] ev]. destruct ev; try reflexivity.
  destruct exp; try reflexivity. destruct def; try reflexivity.
  apply values_of_correct_type_strip.
Qed.

(* the rule names are pairwise distinct, whatever the schema and document *)
Lemma all_rules_names_nodup : forall pre s doc, NoDup (map rinst_name (all_rules pre s doc)).
Proof.
  intros pre s doc.
  assert (H : forall l : list str, forallb (fun p => negb (str_eqb (fst p) (snd p)))
            ((fix pairs (l : list str) := match l with [] => [] | x :: tl => map (pair x) tl ++ pairs tl end) l) = true ->
          NoDup l).
  { induction l as [|x l IH]; intro Hf; [constructor|].
    rewrite forallb_app in Hf. apply andb_true_iff in Hf as [Hx Hl]. constructor; [|apply IH; exact Hl].
    intro Hin. rewrite forallb_forall in Hx. specialize (Hx (x, x)).
    rewrite str_eqb_refl in Hx. cbn in Hx. assert (false = true); [|discriminate].
    apply Hx. apply in_map. exact Hin. }
  apply H. lazy. reflexivity.
Qed.

Lemma default_rules_names_nodup : forall pre s doc, NoDup (map rinst_name (default_rules pre s doc)).
Proof.
  intros pre s doc. pose proof (all_rules_names_nodup pre s doc) as H. unfold all_rules in H.
  rewrite map_app in H. revert H. generalize (map rinst_name (default_rules pre s doc)) as l1.
  induction l1 as [|x l1 IH]; intro H; [constructor|].
  cbn [app] in H. inversion H as [|? ? Hn Hd]; subst. constructor.
  - intro Hin. apply Hn. apply in_or_app. left. exact Hin.
  - apply IH. exact Hd.
Qed.
