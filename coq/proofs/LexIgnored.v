(* LexIgnored.v — ignored characters (space, tab, comma, LF, CR, BOM) in front of a token never
   change it: kind, value and what is left of the input are the same (C03). *)
From Coq Require Import List NArith ZArith Bool Lia.
From GQL.model Require Import Base Utf8 Lexer.
From GQL.proofs Require Import LexPos.
Import ListNotations.
Open Scope Z_scope.

(* a run of ignored characters, as units *)
Inductive ignored : str -> Prop :=
| I_nil : ignored []
| I_sp : forall w, ignored w -> ignored (32%N :: w)
| I_tab : forall w, ignored w -> ignored (9%N :: w)
| I_comma : forall w, ignored w -> ignored (44%N :: w)
| I_lf : forall w, ignored w -> ignored (10%N :: w)
| I_cr : forall w, ignored w -> ignored (13%N :: w)
| I_bom : forall w, ignored w -> ignored (239%N :: 187%N :: 191%N :: w).

Definition ws_rest (d : dev) (l : str) (e ln ls : Z) : str := fst (fst (fst (ws d l e ln ls))).

(* what ws leaves does not depend on the counters *)
Lemma ws_rest_counters : forall d n l e ln ls e' ln' ls', (length l <= n)%nat ->
  ws_rest d l e ln ls = ws_rest d l e' ln' ls'.
Proof.
  intros d. induction n as [|n IH]; intros l e ln ls e' ln' ls' Hn.
  - destruct l; [reflexivity|cbn in Hn; lia].
  - destruct l as [|c tl]; [reflexivity|]. cbn [length] in Hn. unfold ws_rest in *. cbn [ws].
    destruct ((c =? 9)%N || (c =? 32)%N || (c =? 44)%N); [apply IH; lia|].
    destruct (c =? 10)%N; [apply IH; lia|].
    destruct (c =? 13)%N.
    + destruct (head_is_or_not 10 tl) as [[tl' ->]|Hne].
      * cbn [length] in Hn. apply IH. lia.
      * pose proof (ws_cr_other d tl e ln ls Hne) as E1. pose proof (ws_cr_other d tl e' ln' ls' Hne) as E2.
        cbn [ws N.eqb orb Pos.eqb] in E1, E2. rewrite E1, E2. apply IH. lia.
    + destruct (c =? 239)%N eqn:E4; [|reflexivity].
      apply N.eqb_eq in E4. subst c.
      assert (Hb : (exists tl3, tl = 187%N :: 191%N :: tl3) \/ (forall tl3, tl <> 187%N :: 191%N :: tl3)).
      { destruct (head_is_or_not 187 tl) as [[t1 ->]|N1].
        - destruct (head_is_or_not 191 t1) as [[t2 ->]|N2]; [left; eexists; reflexivity|].
          right. intros tl3 E. inversion E. eapply N2. eassumption.
        - right. intros tl3 E. eapply N1. exact E. }
      destruct Hb as [[tl3 ->]|Hb].
      * cbn [length] in Hn. apply IH. lia.
      * pose proof (ws_bom_other d tl e ln ls Hb) as E1. pose proof (ws_bom_other d tl e' ln' ls' Hb) as E2.
        cbn [ws N.eqb orb Pos.eqb] in E1, E2. rewrite E1, E2. reflexivity.
Qed.

(* ignored characters in front are skipped: the same suffix is left *)
Theorem ws_skips_ignored : forall d w l e ln ls e' ln' ls', ignored w ->
  ws_rest d (w ++ l) e ln ls = ws_rest d l e' ln' ls'.
Proof.
  intros d w l e ln ls e' ln' ls' H. revert e ln ls.
  induction H as [|w Hw IH|w Hw IH|w Hw IH|w Hw IH|w Hw IH|w Hw IH]; intros e ln ls.
  - apply (ws_rest_counters d (length l)). apply le_n.
  - unfold ws_rest in *. cbn [app ws N.eqb orb Pos.eqb]. apply IH.
  - unfold ws_rest in *. cbn [app ws N.eqb orb Pos.eqb]. apply IH.
  - unfold ws_rest in *. cbn [app ws N.eqb orb Pos.eqb]. apply IH.
  - unfold ws_rest in *. cbn [app ws N.eqb orb Pos.eqb]. apply IH.
  - (* CR: alone, or the first half of CRLF when the next ignored character is LF *)
    cbn [app]. destruct (head_is_or_not 10 (w ++ l)) as [[tl' E]|Hne].
    + unfold ws_rest in *. rewrite E. cbn [ws N.eqb orb Pos.eqb].
      (* w ++ l = LF :: tl': skipping the LF from w ++ l gives the same suffix *)
      specialize (IH (e + 1) (ln + 1) (e + 1)). rewrite E in IH. cbn [ws N.eqb orb Pos.eqb] in IH.
      rewrite <- IH. apply (ws_rest_counters d (length tl')). apply le_n.
    + unfold ws_rest in *. rewrite (ws_cr_other d _ e ln ls Hne). apply IH.
  - unfold ws_rest in *. cbn [app ws N.eqb orb Pos.eqb]. apply IH.
Qed.

(* ---- a token's kind, value, error class and the remaining input do not depend on the counters ---- *)
Definition shape (r : res) : kind * str * option N * str :=
  let '(t, er, s') := r in (tkind t, tval t, match er with Some x => Some (ecls x) | None => None end, rest s').

(* destruct only scrutinees that do not mention the counters; the rest reduces by itself *)
Ltac free_of x a := lazymatch x with context [a] => fail | _ => idtac end.
Ltac split_on s1 n1 l1 s2 n2 l2 :=
  repeat (match goal with
          | |- context [match ?x with _ => _ end] =>
            free_of x s1; free_of x n1; free_of x l1; free_of x s2; free_of x n2; free_of x l2; destruct x
          | |- context [if ?x then _ else _] =>
            free_of x s1; free_of x n1; free_of x l1; free_of x s2; free_of x n2; free_of x l2; destruct x
          end; cbv beta iota zeta).

Lemma readNumber_shape : forall d l s1 n1 l1 s2 n2 l2,
  shape (readNumber d l s1 n1 l1) = shape (readNumber d l s2 n2 l2).
Proof.
  intros. unfold readNumber, mk_err, mk_tok, shape.
  split_on s1 n1 l1 s2 n2 l2; reflexivity.
Qed.

Lemma readString_loop_shape : forall d fuel l raw buf s1 e1 n1 l1 s2 e2 n2 l2,
  option_map shape (readString_loop d fuel l raw buf s1 e1 n1 l1)
  = option_map shape (readString_loop d fuel l raw buf s2 e2 n2 l2).
Proof.
  intros d. induction fuel as [|f IH]; intros; [reflexivity|].
  cbn [readString_loop]. unfold mk_err.
  repeat (match goal with
          | |- context [match ?x with _ => _ end] =>
            free_of x s1; free_of x e1; free_of x n1; free_of x l1; free_of x s2; free_of x e2; free_of x n2; free_of x l2;
            lazymatch x with context [readString_loop] => fail | _ => idtac end; destruct x
          | |- context [if ?x then _ else _] =>
            free_of x s1; free_of x e1; free_of x n1; free_of x l1; free_of x s2; free_of x e2; free_of x n2; free_of x l2; destruct x
          end; cbv beta iota zeta); try reflexivity; try apply IH.
Qed.

Lemma readBlock_loop_shape : forall d fuel l buf s1 e1 n1 l1 a1 b1 s2 e2 n2 l2 a2 b2,
  option_map shape (readBlock_loop d fuel l buf s1 e1 n1 l1 a1 b1)
  = option_map shape (readBlock_loop d fuel l buf s2 e2 n2 l2 a2 b2).
Proof.
  intros d. induction fuel as [|f IH]; intros; [reflexivity|].
  cbn [readBlock_loop]. unfold mk_err.
  repeat (match goal with
          | |- context [match ?x with _ => _ end] =>
            free_of x s1; free_of x e1; free_of x n1; free_of x l1; free_of x s2; free_of x e2; free_of x n2; free_of x l2;
            free_of x a1; free_of x b1; free_of x a2; free_of x b2;
            lazymatch x with context [readBlock_loop] => fail | _ => idtac end; destruct x
          | |- context [if ?x then _ else _] =>
            free_of x s1; free_of x e1; free_of x n1; free_of x l1; free_of x s2; free_of x e2; free_of x n2; free_of x l2;
            free_of x a1; free_of x b1; free_of x a2; free_of x b2; destruct x
          end; cbv beta iota zeta); try reflexivity; try apply IH.
Qed.

(* one ReadToken call: ignored characters in front change nothing but the positions *)
Theorem readToken_ignores : forall d s1 s2 w, ignored w -> rest s1 = w ++ rest s2 ->
  option_map shape (readToken d s1) = option_map shape (readToken d s2).
Proof.
  intros d s1 s2 w Hw Hr. unfold readToken.
  pose proof (ws_skips_ignored d w (rest s2) (endR s1) (line s1) (lsr s1) (endR s2) (line s2) (lsr s2) Hw) as Hs.
  rewrite <- Hr in Hs. unfold ws_rest in Hs.
  destruct (ws d (rest s1) (endR s1) (line s1) (lsr s1)) as [[[l e1] n1] l1].
  destruct (ws d (rest s2) (endR s2) (line s2) (lsr s2)) as [[[l' e2] n2] l2].
  cbn [fst] in Hs. subst l'.
  unfold mk_tok, mk_err.
  destruct l as [|c tl]; [reflexivity|].
  destruct (punct c); [reflexivity|].
  destruct (c =? 46)%N.
  { repeat (match goal with
            | |- context [match ?x with _ => _ end] =>
              free_of x e1; free_of x n1; free_of x l1; free_of x e2; free_of x n2; free_of x l2; destruct x
            end; cbv beta iota zeta); reflexivity. }
  destruct (c =? 35)%N.
  { destruct (take_comment (length tl) tl) as [[body n] rst]. reflexivity. }
  destruct (is_name_start c).
  { destruct (take_name tl). reflexivity. }
  destruct ((c =? 45)%N || is_digit c).
  { cbn [option_map]. f_equal. apply readNumber_shape. }
  destruct (c =? 34)%N.
  { assert (Hs' : option_map shape (readString_loop d (S (length tl)) tl [] None e1 (e1 + 1) n1 l1)
                  = option_map shape (readString_loop d (S (length tl)) tl [] None e2 (e2 + 1) n2 l2))
      by apply readString_loop_shape.
    destruct tl as [|c1 tl1]; [exact Hs'|]. destruct c1 as [|p]; [exact Hs'|].
    repeat (destruct p as [p|p|]; try exact Hs').
    destruct tl1 as [|c2 tl2]; [exact Hs'|]. destruct c2 as [|p]; [exact Hs'|].
    repeat (destruct p as [p|p|]; try exact Hs').
    apply readBlock_loop_shape. }
  repeat match goal with |- context [if ?x then _ else _] => destruct x end; reflexivity.
Qed.

(* ---- the whole token stream ---- *)
Definition tshape (t : token) : kind * str := (tkind t, tval t).
Definition stream_shape (r : list token * option lexerr) : list (kind * str) * option N :=
  (map tshape (fst r), option_map ecls (snd r)).

Theorem lex_all_ignores : forall d fuel s1 s2 w, ignored w -> rest s1 = w ++ rest s2 ->
  option_map stream_shape (lex_all d fuel s1) = option_map stream_shape (lex_all d fuel s2).
Proof.
  intros d. induction fuel as [|f IH]; intros s1 s2 w Hw Hr; [reflexivity|].
  cbn [lex_all]. pose proof (readToken_ignores d s1 s2 w Hw Hr) as Ht.
  destruct (readToken d s1) as [[[t1 er1] s1']|]; destruct (readToken d s2) as [[[t2 er2] s2']|]; try discriminate; [|reflexivity].
  cbn [option_map shape] in Ht. inversion Ht as [[Hk Hv He Hrest]].
  destruct er1 as [x1|]; destruct er2 as [x2|]; try discriminate.
  - cbn. inversion He. unfold stream_shape. cbn. congruence.
  - rewrite Hk. destruct (tkind t2) eqn:Ek; try reflexivity;
    (specialize (IH s1' s2' [] I_nil Hrest);
     destruct (lex_all d f s1') as [[ts1 e1]|]; destruct (lex_all d f s2') as [[ts2 e2]|]; try discriminate; try reflexivity;
     cbn [option_map] in *; unfold stream_shape in *; cbn [fst snd map] in *; inversion IH; unfold tshape at 1 3; rewrite Hk, Hv; congruence).
Qed.

Lemma lex_all_more_fuel : forall d f s r, lex_all d f s = Some r -> forall k, lex_all d (f + k) s = Some r.
Proof.
  intros d. induction f as [|f IH]; intros s r H k; [discriminate|].
  cbn [lex_all Nat.add] in *. destruct (readToken d s) as [[[t er] s']|]; [|discriminate].
  destruct er; [exact H|]. destruct (tkind t); try exact H;
  (destruct (lex_all d f s') as [[ts e0]|] eqn:El; [|discriminate]; rewrite (IH _ _ El k); exact H).
Qed.

(* Ignored characters in front of a source: the same tokens (kinds and values), the same verdict. *)
Theorem lex_ignores_leading : forall d w input r, ignored w -> lex d input = Some r ->
  exists r', lex d (w ++ input) = Some r' /\ stream_shape r' = stream_shape r.
Proof.
  intros d w input r Hw H. unfold lex in *.
  pose proof (lex_all_more_fuel d _ _ _ H (length w)) as H'.
  assert (Hf : (S (length input) + length w = S (length (w ++ input)))%nat) by (rewrite app_length; lia).
  rewrite Hf in H'.
  pose proof (lex_all_ignores d (S (length (w ++ input))) (lx_init (w ++ input)) (lx_init input) w Hw eq_refl) as E.
  rewrite H' in E. destruct (lex_all d (S (length (w ++ input))) (lx_init (w ++ input))) as [r'|]; [|discriminate].
  exists r'. split; [reflexivity|]. cbn [option_map] in E. injection E as E1 E2. unfold stream_shape. rewrite E1, E2. reflexivity.
Qed.
