(* ArgMapSpec.v — the argument map follows literal > variable > variable default > argument
   default, and holds exactly the arguments that have a value (C15). *)
From Coq Require Import List NArith ZArith Bool.
From GQL.model Require Import Base Utf8 Lexer Ast Schema Walk Rules2 Vars.
From GQL.proofs Require Import StrFacts LoadedClosed.
Import ListNotations.
Open Scope N_scope.

Section Spec.
  Variable vardefs : list vardef.
  Variable vars : list (str * gval).

  Definition is_var (v : value) : bool := match v with mkValue VVar _ _ _ => true | _ => false end.

  (* what the specification prescribes for one argument definition: None = the argument is absent *)
  Definition prescribed (args : list argument) (ad : argdef) : option value + option gval :=
    (* inl (Some v): convert the value v; inr (Some x): the supplied variable value x *)
    let from_default := match ad.(ad_default) with Some dv => inl (Some dv) | None => inl None end in
    match find_arg ad.(ad_name) args with
    | Some a =>
      if is_var a.(a_value) then
        match lookup (v_raw a.(a_value)) vars with
        | Some x => inr (Some x)
        | None =>
          match find_vardef (v_raw a.(a_value)) vardefs with
          | Some vd => match vd.(vd_default) with Some dv => inl (Some dv) | None => from_default end
          | None => from_default
          end
        end
      else inl (Some a.(a_value))
    | None => from_default
    end.

  Definition slot (m : list (str * gval)) (args : list argument) (ad : argdef) : Prop :=
    match prescribed args ad with
    | inr (Some x) => lookup ad.(ad_name) m = Some x
    | inr None => lookup ad.(ad_name) m = None
    | inl (Some v) =>
      (exists x, value_value vardefs vars 64 v = VOk x /\ lookup ad.(ad_name) m = Some x)
      (* a literal that cannot be converted (a number beyond 64 bits for a custom scalar) is passed as its text *)
      \/ (value_value vardefs vars 64 v = VErr /\ lookup ad.(ad_name) m = Some (GString (v_raw v)))
    | inl None => lookup ad.(ad_name) m = None
    end.

  (* the loop of arg2map as a standalone function *)
  Definition a2m_go (args : list argument) : list argdef -> list (str * gval) -> vres (list (str * gval)) :=
    fix go (defs : list argdef) (acc : list (str * gval)) : vres (list (str * gval)) :=
      match defs with
      | [] => VOk acc
      | ad :: tl =>
        let from_arg : vres (option gval) :=
            match find_arg ad.(ad_name) args with
            | Some a =>
              match a.(a_value) with
              | mkValue VVar raw _ _ =>
                match lookup raw vars with
                | Some x => VOk (Some x)
                | None =>
                  if dev_none F_A2 then VOk None else
                  match find_vardef raw vardefs with
                  | Some vd => match vd.(vd_default) with
                               | Some dv => match value_value vardefs vars 64 dv with VOk x => VOk (Some x) | VErr => VPanic | VPanic => VPanic end
                               | None => VOk None
                               end
                  | None => VOk None
                  end
                end
              | other =>
                match value_value vardefs vars 64 other with
                | VOk x => VOk (Some x)
                | VErr => if dev_none F_A1 then VPanic else VOk (Some (GString (v_raw other)))
                | VPanic => VPanic
                end
              end
            | None => VOk None
            end in
        match from_arg with
        | VPanic => VPanic
        | VErr => VPanic
        | VOk (Some x) => go tl (update ad.(ad_name) x acc)
        | VOk None =>
          match ad.(ad_default) with
          | Some dv => match value_value vardefs vars 64 dv with
                       | VOk x => go tl (update ad.(ad_name) x acc)
                       | _ => VPanic
                       end
          | None => go tl acc
          end
        end
      end.

  Lemma arg2map_go : forall defs args, arg2map dev_none vardefs vars defs args = a2m_go args defs [].
  Proof. reflexivity. Qed.

  Lemma a2m_frame : forall args defs acc m, a2m_go args defs acc = VOk m ->
    forall k, ~ In k (map ad_name defs) -> lookup k m = lookup k acc.
  Proof.
    intros args. induction defs as [|ad tl IH]; intros acc m H k Hk; cbn [a2m_go] in H.
    - inversion H; reflexivity.
    - fold (a2m_go args) in H. cbn [map] in Hk.
      assert (Hk1 : str_eqb k (ad_name ad) = false) by (apply str_eqb_neq; intro E; apply Hk; left; symmetry; exact E).
      assert (Hk2 : ~ In k (map ad_name tl)) by (intro; apply Hk; right; assumption).
      assert (Hupd : forall (x : gval) (acc' : list (str * gval)), lookup k (update (ad_name ad) x acc') = lookup k acc')
        by (intros; apply lookup_update_other; exact Hk1).
      repeat match type of H with
             | context [match ?x with _ => _ end] => destruct x eqn:?; try discriminate H
             | context [if ?c then _ else _] => destruct c eqn:?; try discriminate H
             end;
      try (rewrite (IH _ _ H k Hk2); try rewrite Hupd; reflexivity).
  Qed.

  Theorem a2m_spec : forall args defs acc m,
    NoDup (map ad_name defs) ->
    (forall ad, In ad defs -> lookup ad.(ad_name) acc = None) ->
    a2m_go args defs acc = VOk m ->
    forall ad, In ad defs -> slot m args ad.
  Proof.
    intros args. induction defs as [|ad tl IH]; intros acc m ND Hacc H ad0 Hin; [destruct Hin|].
    cbn [map] in ND. apply NoDup_cons_iff in ND as [Hnot ND'].
    assert (Htl : forall (x : gval) ad1, In ad1 tl -> lookup (ad_name ad1) (update (ad_name ad) x acc) = None).
    { intros x ad1 H1. rewrite lookup_update_other; [apply Hacc; right; exact H1|].
      apply str_eqb_neq. intro E. apply Hnot. rewrite <- E. apply in_map. exact H1. }
    assert (Htl0 : forall ad1, In ad1 tl -> lookup (ad_name ad1) acc = None) by (intros; apply Hacc; right; assumption).
    cbn [a2m_go] in H. fold (a2m_go args) in H.
    (* the outcome for this definition: a stored value or nothing *)
    assert (Hcase : (exists x, a2m_go args tl (update (ad_name ad) x acc) = VOk m /\
                               (forall m', lookup (ad_name ad) m' = Some x -> slot m' args ad))
                    \/ (a2m_go args tl acc = VOk m /\ (forall m', lookup (ad_name ad) m' = None -> slot m' args ad))).
    { unfold slot, prescribed.
      destruct (find_arg (ad_name ad) args) as [a|] eqn:Ef.
      - destruct (a_value a) as [k raw ch p] eqn:Ea.
        destruct (is_var (mkValue k raw ch p)) eqn:Ev.
        + destruct k; try discriminate. cbn [v_raw].
          destruct (lookup raw vars) as [x|] eqn:El.
          * left. exists x. split; [exact H|auto].
          * cbn [dev_none] in H.
            destruct (find_vardef raw vardefs) as [vd|] eqn:Evd.
            -- destruct (vd_default vd) as [dv|] eqn:Edv.
               ++ destruct (value_value vardefs vars 64 dv) as [x| |] eqn:Ex; try discriminate.
                  left. exists x. split; [exact H|]. intros m' Hm. left. exists x. split; [reflexivity|exact Hm].
               ++ destruct (ad_default ad) as [dv|] eqn:Ed.
                  ** destruct (value_value vardefs vars 64 dv) as [x| |] eqn:Ex; try discriminate.
                     left. exists x. split; [exact H|]. intros m' Hm. left. exists x. split; [reflexivity|exact Hm].
                  ** right. split; [exact H|auto].
            -- destruct (ad_default ad) as [dv|] eqn:Ed.
               ++ destruct (value_value vardefs vars 64 dv) as [x| |] eqn:Ex; try discriminate.
                  left. exists x. split; [exact H|]. intros m' Hm. left. exists x. split; [reflexivity|exact Hm].
               ++ right. split; [exact H|auto].
        + (* a literal *)
          assert (H' : match (match value_value vardefs vars 64 (mkValue k raw ch p) with
                              | VOk x => VOk (Some x)
                              | VErr => if dev_none F_A1 then VPanic else VOk (Some (GString (v_raw (mkValue k raw ch p))))
                              | VPanic => VPanic
                              end) with
                       | VPanic => VPanic
                       | VErr => VPanic
                       | VOk (Some x) => a2m_go args tl (update (ad_name ad) x acc)
                       | VOk None =>
                         match ad_default ad with
                         | Some dv => match value_value vardefs vars 64 dv with
                                      | VOk x => a2m_go args tl (update (ad_name ad) x acc)
                                      | _ => VPanic
                                      end
                         | None => a2m_go args tl acc
                         end
                       end = VOk m) by (destruct k; try discriminate; exact H).
          clear H. destruct (value_value vardefs vars 64 (mkValue k raw ch p)) as [x| |] eqn:Ex; try discriminate.
          * left. exists x. split; [exact H'|]. intros m' Hm. left. exists x. split; [reflexivity|exact Hm].
          * cbn [dev_none] in H'. left. eexists. split; [exact H'|]. intros m' Hm. right. split; [reflexivity|exact Hm].
      - destruct (ad_default ad) as [dv|] eqn:Ed.
        + destruct (value_value vardefs vars 64 dv) as [x| |] eqn:Ex; try discriminate.
          left. exists x. split; [exact H|]. intros m' Hm. left. exists x. split; [reflexivity|exact Hm].
        + right. split; [exact H|auto]. }
    destruct Hcase as [[x [Hg Hs]]|[Hg Hs]].
    - destruct Hin as [<-|Hin].
      + apply Hs. rewrite (a2m_frame _ _ _ _ Hg _ Hnot). apply lookup_update_same.
      + eapply IH; [exact ND'|apply Htl|exact Hg|exact Hin].
    - destruct Hin as [<-|Hin].
      + apply Hs. rewrite (a2m_frame _ _ _ _ Hg _ Hnot). apply Hacc. left. reflexivity.
      + eapply IH; [exact ND'|exact Htl0|exact Hg|exact Hin].
  Qed.

  (* exactly the arguments that have a value: nothing but declared argument names *)
  Theorem arg2map_spec : forall defs args m,
    NoDup (map ad_name defs) ->
    arg2map dev_none vardefs vars defs args = VOk m ->
    (forall ad, In ad defs -> slot m args ad)
    /\ (forall k, ~ In k (map ad_name defs) -> lookup k m = None).
  Proof.
    intros defs args m ND H. rewrite arg2map_go in H. split.
    - intros ad Hin. eapply a2m_spec; [exact ND| |exact H|exact Hin]. reflexivity.
    - intros k Hk. rewrite (a2m_frame _ _ _ _ H k Hk). reflexivity.
  Qed.
End Spec.
