(* FormatFixpoint.v — printing does not look at positions, at the String/BlockString distinction or at an
   absent alias, so the document parsed back from a printed text prints as the same text: formatting is
   a fixpoint (C12). *)
From Coq Require Import List NArith ZArith Lia Bool.
From GQL.model Require Import Base Utf8 Lexer Ast Schema Parser Prog ParseQuery Format.
From GQL.proofs Require Import StrFacts TypeRoundtrip ValueRoundtrip TokenStream JsonRoundtrip ParseComplete Sizes FormatTokens FormatRoundtrip.
Import ListNotations.
Open Scope N_scope.

Lemma value_string_erase : forall v, value_string (erase_value v) = value_string v.
Proof.
  induction v as [k raw ch p IH] using value_ind'. cbn [erase_value value_string]. rewrite Forall_forall in IH.
  destruct k; try reflexivity;
    (f_equal; f_equal; f_equal; rewrite map_map; apply map_ext_in; intros [[n o0] cv] Hin;
     pose proof (IH _ Hin) as Hc; cbn [snd] in Hc; rewrite ?Hc; reflexivity).
Qed.

Lemma value_string_unblock : forall v, value_string (unblock v) = value_string v.
Proof.
  induction v as [k raw ch p IH] using value_ind'. cbn [unblock value_string]. rewrite Forall_forall in IH.
  destruct k; cbn [erase_kind]; try reflexivity;
    (f_equal; f_equal; f_equal; rewrite map_map; apply map_ext_in; intros [[n o0] cv] Hin;
     pose proof (IH _ Hin) as Hc; cbn [snd] in Hc; rewrite ?Hc; reflexivity).
Qed.

Lemma type_string_erase : forall t, type_string (erase_type t) = type_string t.
Proof. induction t as [n nn p|e IH nn p]; cbn [erase_type type_string]; [reflexivity|rewrite IH; reflexivity]. Qed.

Section Same.
  Variable o : fopts.

  (* a map over arguments that keeps names and printed values *)
  Definition arg_same (g : argument -> argument) : Prop :=
    forall a, a_name (g a) = a_name a /\ value_string (a_value (g a)) = value_string (a_value a).

  Lemma args_items_same : forall g, arg_same g -> forall l f,
    FormatArgumentList_items o (map g l) f = FormatArgumentList_items o l f.
  Proof.
    intros g Hg. induction l as [|a tl IH]; intro f; [reflexivity|]. cbn [map FormatArgumentList_items].
    destruct (Hg a) as [E1 E2]. rewrite E1, E2.
    assert (El : is_last (map g tl) = is_last tl) by (destruct tl; reflexivity). rewrite El. apply IH.
  Qed.

  Lemma args_same : forall g, arg_same g -> forall l f, FormatArgumentList o (map g l) f = FormatArgumentList o l f.
  Proof.
    intros g Hg l f. destruct l as [|a tl]; [reflexivity|]. unfold FormatArgumentList. cbn [map].
    change (g a :: map g tl) with (map g (a :: tl)). rewrite (args_items_same g Hg). reflexivity.
  Qed.

  Definition dir_same (h : directive -> directive) : Prop :=
    forall x f, FormatDirective o (h x) f = FormatDirective o x f.

  Lemma dirs_same : forall h, dir_same h -> forall l f, FormatDirectiveList o (map h l) f = FormatDirectiveList o l f.
  Proof.
    intros h Hh. unfold FormatDirectiveList. induction l as [|x tl IH]; intro f; [reflexivity|]. cbn [map fold_left]. rewrite Hh. apply IH.
  Qed.

  Lemma erase_arg_same : arg_same erase_arg.
  Proof. intro a. unfold erase_arg. cbn [a_name a_value]. split; [reflexivity|apply value_string_erase]. Qed.
  Lemma norm_arg_same : arg_same norm_arg.
  Proof. intro a. unfold norm_arg. cbn [a_name a_value]. split; [reflexivity|apply value_string_unblock]. Qed.

  Lemma erase_dir_same : dir_same erase_dir.
  Proof. intros x f. unfold FormatDirective, erase_dir. cbn [d_name d_args]. apply (args_same erase_arg erase_arg_same). Qed.
  Lemma norm_dir_same : dir_same norm_dir.
  Proof. intros x f. unfold FormatDirective, norm_dir. cbn [d_name d_args]. apply (args_same norm_arg norm_arg_same). Qed.

  Definition vardef_same (h : vardef -> vardef) : Prop := forall v f, FormatVariableDefinition o (h v) f = FormatVariableDefinition o v f.

  Lemma erase_vardef_same : vardef_same erase_vardef.
  Proof.
    intros [n t dv dirs p] f. unfold FormatVariableDefinition, erase_vardef. cbn [vd_var vd_type vd_default vd_dirs].
    rewrite (dirs_same erase_dir erase_dir_same). unfold FormatType. rewrite type_string_erase.
    destruct dv as [dv|]; cbn [option_map]; [unfold FormatValue; rewrite value_string_erase|]; reflexivity.
  Qed.
  Lemma norm_vardef_same : vardef_same norm_vardef.
  Proof.
    intros [n t dv dirs p] f. unfold FormatVariableDefinition, norm_vardef. cbn [vd_var vd_type vd_default vd_dirs].
    rewrite (dirs_same norm_dir norm_dir_same).
    destruct dv as [dv|]; cbn [option_map]; [unfold FormatValue; rewrite value_string_unblock|]; reflexivity.
  Qed.

  Lemma vardefs_items_same : forall h, vardef_same h -> forall l f,
    FormatVariableDefinitionList_items o (map h l) f = FormatVariableDefinitionList_items o l f.
  Proof.
    intros h Hh. induction l as [|v tl IH]; intro f; [reflexivity|]. cbn [map FormatVariableDefinitionList_items]. rewrite Hh.
    assert (El : is_last (map h tl) = is_last tl) by (destruct tl; reflexivity). rewrite El. apply IH.
  Qed.
  Lemma vardefs_same : forall h, vardef_same h -> forall l f, FormatVariableDefinitionList o (map h l) f = FormatVariableDefinitionList o l f.
  Proof.
    intros h Hh l f. destruct l as [|a tl]; [reflexivity|]. unfold FormatVariableDefinitionList. cbn [map].
    change (h a :: map h tl) with (map h (a :: tl)). rewrite (vardefs_items_same h Hh). reflexivity.
  Qed.

  (* selections *)
  Lemma sel_set_same : forall (h : selection -> selection) l, Forall (fun c => forall f, FormatSelection o (h c) f = FormatSelection o c f) l ->
    forall f, sel_set o (map h l) f = sel_set o l f.
  Proof.
    intros h l H f. destruct l as [|c tl]; [reflexivity|]. unfold sel_set. cbn [map].
    change (h c :: map h tl) with (map h (c :: tl)). f_equal. f_equal.
    generalize (IncrementIndent (WriteNewline (WriteString o [123] f))). revert H. generalize (c :: tl). clear.
    induction l as [|x tl IH]; intros H g; [reflexivity|]. inversion H as [|x0 tl0 Hx Htl]; subst. cbn [map fold_left]. rewrite Hx. apply IH. exact Htl.
  Qed.

  Lemma erase_sel_same : forall c f, FormatSelection o (erase_sel c) f = FormatSelection o c f.
  Proof.
    induction c as [al n args dirs sels p IH|n dirs p|tc dirs sels p IH] using sel_ind'; intro f.
    - cbn [erase_sel]. rewrite !FormatSelection_field. rewrite (sel_set_same erase_sel sels IH).
      rewrite (dirs_same erase_dir erase_dir_same). cbv zeta.
      destruct args as [|a tl]; [reflexivity|]. cbn [map]. change (erase_arg a :: map erase_arg tl) with (map erase_arg (a :: tl)).
      rewrite (args_same erase_arg erase_arg_same). reflexivity.
    - cbn [erase_sel FormatSelection]. rewrite (dirs_same erase_dir erase_dir_same). reflexivity.
    - cbn [erase_sel]. rewrite !FormatSelection_inline. rewrite (sel_set_same erase_sel sels IH). rewrite (dirs_same erase_dir erase_dir_same). reflexivity.
  Qed.

  Lemma norm_sel_same : forall c f, FormatSelection o (norm_sel c) f = FormatSelection o c f.
  Proof.
    induction c as [al n args dirs sels p IH|n dirs p|tc dirs sels p IH] using sel_ind'; intro f.
    - cbn [norm_sel]. rewrite !FormatSelection_field. rewrite (sel_set_same norm_sel sels IH).
      rewrite (dirs_same norm_dir norm_dir_same). cbv zeta.
      assert (Eal : (if negb (match (match al with [] => n | _ => al end) with [] => true | _ => false end) && negb (str_eqb (match al with [] => n | _ => al end) n)
                     then NeedPadding (WriteString o [58] (NoPadding (WriteWord o (match al with [] => n | _ => al end) f))) else f)
                    = (if negb (match al with [] => true | _ => false end) && negb (str_eqb al n)
                     then NeedPadding (WriteString o [58] (NoPadding (WriteWord o al f))) else f)).
      { destruct al as [|a0 al']; [|reflexivity]. cbn [negb andb]. rewrite str_eqb_refl. cbn [negb]. rewrite andb_false_r. reflexivity. }
      rewrite Eal.
      destruct args as [|a tl]; [reflexivity|]. cbn [map]. change (norm_arg a :: map norm_arg tl) with (map norm_arg (a :: tl)).
      rewrite (args_same norm_arg norm_arg_same). reflexivity.
    - cbn [norm_sel FormatSelection]. rewrite (dirs_same norm_dir norm_dir_same). reflexivity.
    - cbn [norm_sel]. rewrite !FormatSelection_inline. rewrite (sel_set_same norm_sel sels IH). rewrite (dirs_same norm_dir norm_dir_same). reflexivity.
  Qed.

  Lemma selset_same : forall (h : selection -> selection), (forall c f, FormatSelection o (h c) f = FormatSelection o c f) ->
    forall l f, FormatSelectionSet o (map h l) f = FormatSelectionSet o l f.
  Proof.
    intros h Hh l f. rewrite !FormatSelectionSet_eq. apply sel_set_same. apply Forall_forall. intros c _. apply Hh.
  Qed.

  Lemma erase_op_same : forall x f, FormatOperationDefinition o (erase_op x) f = FormatOperationDefinition o x f.
  Proof.
    intros [op n vars dirs sels p] f. unfold FormatOperationDefinition, erase_op. cbn [o_op o_name o_vars o_dirs o_sels].
    rewrite (vardefs_same erase_vardef erase_vardef_same), (dirs_same erase_dir erase_dir_same).
    destruct sels as [|c tl]; [reflexivity|]. cbn [map]. change (erase_sel c :: map erase_sel tl) with (map erase_sel (c :: tl)).
    rewrite (selset_same erase_sel erase_sel_same). reflexivity.
  Qed.
  Lemma norm_op_same : forall x f, FormatOperationDefinition o (norm_op x) f = FormatOperationDefinition o x f.
  Proof.
    intros [op n vars dirs sels p] f. unfold FormatOperationDefinition, norm_op. cbn [o_op o_name o_vars o_dirs o_sels].
    rewrite (vardefs_same norm_vardef norm_vardef_same), (dirs_same norm_dir norm_dir_same).
    destruct sels as [|c tl]; [reflexivity|]. cbn [map]. change (norm_sel c :: map norm_sel tl) with (map norm_sel (c :: tl)).
    rewrite (selset_same norm_sel norm_sel_same). reflexivity.
  Qed.
  Lemma erase_frag_same : forall x f, FormatFragmentDefinition o (erase_frag x) f = FormatFragmentDefinition o x f.
  Proof.
    intros [n vars tc dirs sels p] f. unfold FormatFragmentDefinition, erase_frag. cbn [f_name f_vars f_typecond f_dirs f_sels].
    rewrite (vardefs_same erase_vardef erase_vardef_same), (dirs_same erase_dir erase_dir_same).
    destruct sels as [|c tl]; [reflexivity|]. cbn [map]. change (erase_sel c :: map erase_sel tl) with (map erase_sel (c :: tl)).
    rewrite (selset_same erase_sel erase_sel_same). reflexivity.
  Qed.
  Lemma norm_frag_same : forall x f, FormatFragmentDefinition o (norm_frag x) f = FormatFragmentDefinition o x f.
  Proof.
    intros [n vars tc dirs sels p] f. unfold FormatFragmentDefinition, norm_frag. cbn [f_name f_vars f_typecond f_dirs f_sels].
    rewrite (vardefs_same norm_vardef norm_vardef_same), (dirs_same norm_dir norm_dir_same).
    destruct sels as [|c tl]; [reflexivity|]. cbn [map]. change (norm_sel c :: map norm_sel tl) with (map norm_sel (c :: tl)).
    rewrite (selset_same norm_sel norm_sel_same). reflexivity.
  Qed.

  Lemma fold_same : forall (A : Type) (F : A -> fmt -> fmt) (h : A -> A), (forall x f, F (h x) f = F x f) ->
    forall l f, fold_left (fun acc x => F x acc) (map h l) f = fold_left (fun acc x => F x acc) l f.
  Proof. intros A F h Hh. induction l as [|x tl IH]; intro f; [reflexivity|]. cbn [map fold_left]. rewrite Hh. apply IH. Qed.

  Theorem format_erase : forall q, FormatQueryDocument o (erase_qdoc q) = FormatQueryDocument o q.
  Proof.
    intros [ops frags p]. unfold FormatQueryDocument, erase_qdoc. cbn [q_ops q_frags].
    rewrite (fold_same _ (FormatOperationDefinition o) erase_op erase_op_same), (fold_same _ (FormatFragmentDefinition o) erase_frag erase_frag_same). reflexivity.
  Qed.
  Theorem format_norm : forall q, FormatQueryDocument o (norm_doc q) = FormatQueryDocument o q.
  Proof.
    intros [ops frags p]. unfold FormatQueryDocument, norm_doc. cbn [q_ops q_frags].
    rewrite (fold_same _ (FormatOperationDefinition o) norm_op norm_op_same), (fold_same _ (FormatFragmentDefinition o) norm_frag norm_frag_same). reflexivity.
  Qed.
End Same.

(* formatting, parsing back and formatting again gives the same text *)
Theorem format_fixpoint : forall d o q,
  Forall ign_char (fo_indent o) -> d F_L1 = false -> doc_lok q -> doc_wok d (norm_doc q) ->
  exists q', parseQuery d 0 (FormatQueryDocument o q) = POk q' /\ erase_qdoc q' = erase_qdoc (norm_doc q)
             /\ FormatQueryDocument o q' = FormatQueryDocument o q.
Proof.
  intros d o q Hind Hd Hl Hw. destruct (format_parse_entry d o q Hind Hd Hl Hw) as [q' [E1 E2]].
  exists q'. split; [exact E1|]. split; [exact E2|].
  rewrite <- (format_erase o q'), E2, format_erase, format_norm. reflexivity.
Qed.

