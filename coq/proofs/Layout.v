(* Layout.v — layout independence as a corollary of completeness: two texts that the lexer reads as the
   same token sequence of a grammatical document are parsed as the same document (positions aside). *)
From Coq Require Import List NArith ZArith Lia Bool.
From GQL.model Require Import Base Utf8 Lexer Ast Parser Prog ParseQuery ParseSchema.
From GQL.proofs Require Import TokenStream JsonRoundtrip ParseComplete Sizes ParseSchemaComplete SchemaSizes.
Import ListNotations.

Theorem query_layout_independent : forall d q in1 in2,
  doc_wok d q -> toks d in1 (flat_doc q) -> toks d in2 (flat_doc q) ->
  exists q1 q2, parseQuery d 0 in1 = POk q1 /\ parseQuery d 0 in2 = POk q2 /\ erase_qdoc q1 = erase_qdoc q2.
Proof.
  intros d q in1 in2 Hw H1 H2.
  destruct (parseQuery_complete_entry d q in1 Hw H1) as [q1 [E1 Q1]].
  destruct (parseQuery_complete_entry d q in2 Hw H2) as [q2 [E2 Q2]].
  exists q1, q2. split; [exact E1|]. split; [exact E2|congruence].
Qed.

Theorem schema_layout_independent : forall d (dk1 dk2 : str -> kind) items in1 in2 ix1 ix2 bi,
  (forall s, dk1 s = String_ \/ dk1 s = BlockString) -> (forall s, dk2 s = String_ \/ dk2 s = BlockString) ->
  Forall (item_wok d) items -> (items <> [] \/ d F_S7 = true) ->
  toks d in1 (flat_map (flat_item dk1) items) -> toks d in2 (flat_map (flat_item dk2) items) ->
  exists x1 x2, parseSchema d 0 ix1 bi in1 = POk x1 /\ parseSchema d 0 ix2 bi in2 = POk x2 /\ erase_sdoc x1 = erase_sdoc x2.
Proof.
  intros d dk1 dk2 items in1 in2 ix1 ix2 bi K1 K2 Hw Hne H1 H2.
  destruct (parseSchema_complete_entry d dk1 items in1 ix1 bi K1 Hw Hne H1) as [x1 [E1 Q1]].
  destruct (parseSchema_complete_entry d dk2 items in2 ix2 bi K2 Hw Hne H2) as [x2 [E2 Q2]].
  exists x1, x2. split; [exact E1|]. split; [exact E2|congruence].
Qed.

(* The grammar is unambiguous: one text is not the token sequence of two different documents. *)
Theorem query_unambiguous : forall d q1 q2 input,
  doc_wok d q1 -> doc_wok d q2 -> toks d input (flat_doc q1) -> toks d input (flat_doc q2) -> erase_qdoc q1 = erase_qdoc q2.
Proof.
  intros d q1 q2 input W1 W2 H1 H2.
  destruct (parseQuery_complete_entry d q1 input W1 H1) as [a [E1 Q1]].
  destruct (parseQuery_complete_entry d q2 input W2 H2) as [c [E2 Q2]]. congruence.
Qed.

Theorem schema_unambiguous : forall d (dk1 dk2 : str -> kind) items1 items2 input bi,
  (forall s, dk1 s = String_ \/ dk1 s = BlockString) -> (forall s, dk2 s = String_ \/ dk2 s = BlockString) ->
  Forall (item_wok d) items1 -> Forall (item_wok d) items2 -> (items1 <> [] \/ d F_S7 = true) -> (items2 <> [] \/ d F_S7 = true) ->
  toks d input (flat_map (flat_item dk1) items1) -> toks d input (flat_map (flat_item dk2) items2) ->
  erase_sdoc (with_builtin bi (sdoc_of items1)) = erase_sdoc (with_builtin bi (sdoc_of items2)).
Proof.
  intros d dk1 dk2 i1 i2 input bi K1 K2 W1 W2 N1 N2 H1 H2.
  destruct (parseSchema_complete_entry d dk1 i1 input 0%N bi K1 W1 N1 H1) as [a [E1 Q1]].
  destruct (parseSchema_complete_entry d dk2 i2 input 0%N bi K2 W2 N2 H2) as [c [E2 Q2]]. congruence.
Qed.
