(* PathRoundtrip.v — any error path encodes to JSON and decodes back to the same path (C20). *)
From GQL.model Require Import Base Lexer Ast Json Path.
Open Scope Z_scope.

Definition elem_ok (e : pelem) : bool := match e with PName _ => true | PIndex z => int64_ok z end.

Theorem path_roundtrip : forall p, forallb elem_ok p = true -> unmarshal_path (marshal_path p) = Some p.
Proof.
  unfold unmarshal_path, marshal_path. induction p as [|e p IH]; intro H; [reflexivity|].
  simpl in H. apply andb_true_iff in H. destruct H as [He Hp]. specialize (IH Hp).
  destruct e as [s|z]; cbn [map unmarshal_elems]; simpl in He.
  - rewrite IH. reflexivity.
  - rewrite He, IH. reflexivity.
Qed.

(* decoding accepts nothing but names and numbers *)
Theorem path_decode_shape : forall l p, unmarshal_elems l = Some p ->
  Forall (fun j => match j with JStr _ | JNum _ => True | _ => False end) l.
Proof.
  induction l as [|j l IH]; intros p H; [constructor|].
  destruct j; try discriminate; cbn [unmarshal_elems] in H.
  - destruct (int64_ok z); [|discriminate].
    destruct (unmarshal_elems l) eqn:E; [|discriminate]. constructor; [exact I|eapply IH; eauto].
  - destruct (unmarshal_elems l) eqn:E; [|discriminate]. constructor; [exact I|eapply IH; eauto].
Qed.
