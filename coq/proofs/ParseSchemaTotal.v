(* ParseSchemaTotal.v — C01 for the schema parser: ParseSchema / ParseSchemas never run out of fuel
   (the model's PStall outcome), for every input, token limit and deviation setting.
   Same Hoare logic and measure as ParserTotal.v (bytes left to lex + one for a peeked non-EOF token). *)
From Coq Require Import List NArith ZArith Lia Bool.
From GQL.model Require Import Base Utf8 Lexer Ast Parser Prog ParseQuery ParseSchema.
From GQL.proofs Require Import StrFacts LexPos ParserTotal.
Import ListNotations.
Open Scope nat_scope.

Lemma t_peek_any_b : forall m, triple (bnd m) Peek (BQ m).
Proof. intro m. eapply t_conseq; [apply t_peek_any|intros s H; exact H|]. intros x s [H _]. exact H. Qed.

Lemma t_fail_after : forall A B m (p : prog B) (k : B -> prog A) (Q : A -> pst -> Prop),
  triple (bnd m) p (fun _ _ => False) -> triple (bnd m) (Bind p k) Q.
Proof. intros A B m p k Q H. eapply t_bind; [exact H|]. intro x. apply t_absurd. intros s F. exact F. Qed.

Lemma t_unexpected_then : forall A m (a : A) (Q : A -> pst -> Prop), triple (bnd m) (unexpectedError ;;; Ret a) Q.
Proof. intros. apply t_fail_after. apply t_unexpected. Qed.

Lemma t_error_then : forall A m tok (a : A) (Q : A -> pst -> Prop), triple (bnd m) (ErrorAt tok ;;; Ret a) Q.
Proof. intros. apply t_fail_after. apply t_error. Qed.

(* for p.skip(sep) && p.err == nil { item() } *)
Lemma t_sep_loop : forall A sep (item : prog A) m, sep <> EOF ->
  (forall m', (m' <= m)%nat -> triple (bnd m') item (BQ m')) ->
  triple (bnd m) (sep_loop sep item) (BQ m).
Proof.
  intros A sep item m Hk Hitem. unfold sep_loop.
  eapply t_conseq; [apply (t_loop _ _ (bnd m) m)| |]; [|intros s H; split; exact H|intros x s [H _]; exact H].
  intro m'. eapply t_conseq with (P := bnd (Nat.min m' m)) (Q := fun o s1 => match o with Some _ => (meas s1 < Nat.min m' m)%nat | None => bnd (Nat.min m' m) s1 end).
  - remember (Nat.min m' m) as mm eqn:Emm. assert (Hmm : (mm <= m)%nat) by lia. clear Emm.
    eapply t_bind; [apply (t_skip sep mm Hk)|]. intro has.
    eapply t_bind; [apply t_haserr|]. intro e. cbv beta.
    destruct has; cbn [andb].
    + destruct (negb e).
      * destruct mm as [|m1]; [apply t_absurd; intros s [_ H']; lia|].
        eapply t_bind; [eapply t_conseq; [apply (Hitem m1); lia|intros s [_ H']; unfold bnd; lia|intros x s H'; exact H']|].
        intro x. eapply t_conseq; [apply t_ret|intros s H'; exact H'|]. intros o s [E H']. subst o. unfold BQ, bnd in H'. lia.
      * eapply t_conseq; [apply t_ret|intros s H'; exact H'|]. intros o s [E [_ H']]. subst o. unfold bnd. lia.
    + eapply t_conseq; [apply t_ret|intros s H'; exact H'|]. intros o s [E [_ H']]. subst o. exact H'.
  - intros s [H1 H2]. unfold bnd in *. lia.
  - intros o s H. split; [destruct o; unfold bnd in *; lia|]. destruct o; unfold bnd in *; lia.
Qed.

Lemma t_parseDescription : forall m, triple (bnd m) parseDescription (BQ m).
Proof.
  intro m. unfold parseDescription. eapply t_bind; [apply t_peek_any|]. intro tok. cbv beta.
  eapply t_conseq with (P := bnd m); [|intros s [H _]; exact H|intros x s H; exact H].
  destruct (kind_eqb (tkind tok) BlockString || kind_eqb (tkind tok) String_); [|apply t_ret_b].
  apply t_bind_b; [apply t_next_any|]. intro t. apply t_ret_b.
Qed.

Lemma t_parseOperationType_b : forall d m, triple (bnd m) (parseOperationType d) (BQ m).
Proof.
  intros d m. unfold parseOperationType. apply t_bind_b; [apply t_next_any|]. intro tok. cbv beta zeta.
  repeat match goal with |- triple _ (if ?c then _ else _) _ => destruct c; [apply t_ret_b|] end.
  apply t_error_then.
Qed.

Lemma t_parseOperationTypeDefinition : forall d m, triple (bnd m) (parseOperationTypeDefinition d) (SQ m).
Proof.
  intros d m. unfold parseOperationTypeDefinition.
  apply t_bind_b; [apply t_peekPos_b|]. intro p.
  apply t_bind_b; [apply t_parseOperationType_b|]. intro op.
  apply t_bind_s; [apply t_expect_s; discriminate|]. intros c m1 ->.
  apply t_bind_b; [apply t_s2b; apply t_parseName_s|]. intro n. apply t_b2s. apply t_ret_b.
Qed.

Lemma t_parseSchemaDefinition : forall d f desc m, (m <= f)%nat -> triple (bnd m) (parseSchemaDefinition d f desc) (SQ m).
Proof.
  intros d f desc m Hm. unfold parseSchemaDefinition.
  apply t_bind_s; [apply t_expectKeyword|]. intros k m1 ->.
  apply t_bind_b; [apply t_peekPos_b|]. intro p.
  apply t_bind_b; [apply t_parseDirectives; lia|]. intro dirs.
  apply t_bind_b; [apply t_peek_any_b|]. intro tok.
  destruct (negb (d F_S1) && negb (kind_eqb (tkind tok) BraceL)); [apply t_error_then|].
  apply t_bind_b; [apply t_some; [discriminate|]; intros m' Hm'; apply t_parseOperationTypeDefinition|]. intro ops.
  apply t_b2s. apply t_ret_b.
Qed.

Lemma t_parseImplementsInterfaces : forall d m, triple (bnd m) (parseImplementsInterfaces d) (BQ m).
Proof.
  intros d m. unfold parseImplementsInterfaces.
  apply t_bind_b; [apply t_peek_any_b|]. intro tok.
  destruct (tok_is_implements d tok); [|apply t_ret_b].
  apply t_bind_b; [apply t_next_any|]. intro t.
  apply t_bind_b; [apply t_skip_b; discriminate|]. intro a.
  apply t_bind_b; [apply t_s2b; apply t_parseName_s|]. intro n.
  apply t_bind_b; [apply t_sep_loop; [discriminate|]; intros m' Hm'; apply t_s2b; apply t_parseName_s|]. intro rest.
  apply t_ret_b.
Qed.

Lemma t_parseUnionMemberTypes : forall m, triple (bnd m) parseUnionMemberTypes (BQ m).
Proof.
  intro m. unfold parseUnionMemberTypes.
  apply t_bind_b; [apply t_skip_b; discriminate|]. intro has. destruct has; [|apply t_ret_b].
  apply t_bind_b; [apply t_skip_b; discriminate|]. intro a.
  apply t_bind_b; [apply t_s2b; apply t_parseName_s|]. intro n.
  apply t_bind_b; [apply t_sep_loop; [discriminate|]; intros m' Hm'; apply t_s2b; apply t_parseName_s|]. intro rest.
  apply t_ret_b.
Qed.

Lemma t_parseArgumentDef : forall f m, (m <= f)%nat -> triple (bnd m) (parseArgumentDef f) (SQ m).
Proof.
  intros f m Hm. unfold parseArgumentDef.
  apply t_bind_b; [apply t_peekPos_b|]. intro p.
  apply t_bind_b; [apply t_parseDescription|]. intros [desc hd].
  apply t_bind_b; [apply t_peek_any_b|]. intro pk0.
  apply t_bind_s; [apply t_parseName_s|]. intros n m1 ->.
  apply t_bind_b; [apply t_s2b; apply t_expect_s; discriminate|]. intro c.
  apply t_bind_b; [apply t_s2b; apply t_parseTypeReference; lia|]. intro t.
  apply t_bind_b; [apply t_skip_b; discriminate|]. intro hasdef.
  apply t_bind_b; [destruct hasdef; [apply t_bind_b; [apply t_s2b; apply t_parseValueLiteral; lia|]; intro x; apply t_ret_b|apply t_ret_b]|]. intro dv.
  apply t_bind_b; [apply t_parseDirectives; lia|]. intro dirs. apply t_b2s. apply t_ret_b.
Qed.

Lemma t_parseArgumentDefs : forall f m, (m <= f)%nat -> triple (bnd m) (parseArgumentDefs f) (BQ m).
Proof.
  intros f m Hm. unfold parseArgumentDefs. apply t_some; [discriminate|]. intros m' Hm'. apply t_parseArgumentDef. lia.
Qed.

Lemma t_parseFieldDefinition : forall f m, (m <= f)%nat -> triple (bnd m) (parseFieldDefinition f) (SQ m).
Proof.
  intros f m Hm. unfold parseFieldDefinition.
  apply t_bind_b; [apply t_peekPos_b|]. intro p.
  apply t_bind_b; [apply t_parseDescription|]. intros [desc hd].
  apply t_bind_b; [apply t_peek_any_b|]. intro pk0.
  apply t_bind_s; [apply t_parseName_s|]. intros n m1 ->.
  apply t_bind_b; [apply t_parseArgumentDefs; lia|]. intro args.
  apply t_bind_b; [apply t_s2b; apply t_expect_s; discriminate|]. intro c.
  apply t_bind_b; [apply t_s2b; apply t_parseTypeReference; lia|]. intro t.
  apply t_bind_b; [apply t_parseDirectives; lia|]. intro dirs. apply t_b2s. apply t_ret_b.
Qed.

Lemma t_parseInputValueDef : forall f m, (m <= f)%nat -> triple (bnd m) (parseInputValueDef f) (SQ m).
Proof.
  intros f m Hm. unfold parseInputValueDef.
  apply t_bind_b; [apply t_peekPos_b|]. intro p.
  apply t_bind_b; [apply t_parseDescription|]. intros [desc hd].
  apply t_bind_b; [apply t_peek_any_b|]. intro pk0.
  apply t_bind_s; [apply t_parseName_s|]. intros n m1 ->.
  apply t_bind_b; [apply t_s2b; apply t_expect_s; discriminate|]. intro c.
  apply t_bind_b; [apply t_s2b; apply t_parseTypeReference; lia|]. intro t.
  apply t_bind_b; [apply t_skip_b; discriminate|]. intro hasdef.
  apply t_bind_b; [destruct hasdef; [apply t_bind_b; [apply t_s2b; apply t_parseValueLiteral; lia|]; intro x; apply t_ret_b|apply t_ret_b]|]. intro dv.
  apply t_bind_b; [apply t_parseDirectives; lia|]. intro dirs. apply t_b2s. apply t_ret_b.
Qed.

Lemma t_parseEnumValueDefinition : forall f m, (m <= f)%nat -> triple (bnd m) (parseEnumValueDefinition f) (SQ m).
Proof.
  intros f m Hm. unfold parseEnumValueDefinition.
  apply t_bind_b; [apply t_peekPos_b|]. intro p.
  apply t_bind_b; [apply t_parseDescription|]. intros [desc hd].
  apply t_bind_b; [apply t_peek_any_b|]. intro pk0.
  apply t_bind_s; [apply t_parseName_s|]. intros n m1 ->.
  apply t_bind_b; [apply t_parseDirectives; lia|]. intro dirs. apply t_b2s. apply t_ret_b.
Qed.

Lemma t_parseFieldsDefinition : forall f m, (m <= f)%nat -> triple (bnd m) (parseFieldsDefinition f) (BQ m).
Proof. intros f m Hm. unfold parseFieldsDefinition. apply t_some; [discriminate|]. intros m' Hm'. apply t_parseFieldDefinition. lia. Qed.
Lemma t_parseInputFieldsDefinition : forall f m, (m <= f)%nat -> triple (bnd m) (parseInputFieldsDefinition f) (BQ m).
Proof. intros f m Hm. unfold parseInputFieldsDefinition. apply t_some; [discriminate|]. intros m' Hm'. apply t_parseInputValueDef. lia. Qed.
Lemma t_parseEnumValuesDefinition : forall f m, (m <= f)%nat -> triple (bnd m) (parseEnumValuesDefinition f) (BQ m).
Proof. intros f m Hm. unfold parseEnumValuesDefinition. apply t_some; [discriminate|]. intros m' Hm'. apply t_parseEnumValueDefinition. lia. Qed.

Lemma t_parseTypeDef : forall d f k kw ext desc m, (m <= f)%nat -> triple (bnd m) (parseTypeDef d f k kw ext desc) (SQ m).
Proof.
  intros d f k kw ext desc m Hm. unfold parseTypeDef.
  apply t_bind_s; [apply t_expectKeyword|]. intros x m1 ->.
  apply t_bind_b; [apply t_peekPos_b|]. intro p.
  apply t_bind_b; [apply t_s2b; apply t_parseName_s|]. intro n. cbv zeta.
  assert (Hfin : forall empty (x0 : definition), triple (bnd m1) (if ext && empty then unexpectedError ;;; Ret x0 else Ret x0) (SQ (S m1))).
  { intros empty x0. destruct (ext && empty); [apply t_unexpected_then|apply t_b2s; apply t_ret_b]. }
  destruct k.
  - apply t_bind_b; [apply t_parseDirectives; lia|]. intro dirs. apply Hfin.
  - apply t_bind_b; [apply t_parseImplementsInterfaces|]. intro ifs.
    apply t_bind_b; [apply t_parseDirectives; lia|]. intro dirs.
    apply t_bind_b; [apply t_parseFieldsDefinition; lia|]. intro flds. apply Hfin.
  - apply t_bind_b; [destruct (ext && d F_S4); [apply t_ret_b|apply t_parseImplementsInterfaces]|]. intro ifs.
    apply t_bind_b; [apply t_parseDirectives; lia|]. intro dirs.
    apply t_bind_b; [apply t_parseFieldsDefinition; lia|]. intro flds. apply Hfin.
  - apply t_bind_b; [apply t_parseDirectives; lia|]. intro dirs.
    apply t_bind_b; [apply t_parseUnionMemberTypes|]. intro tys. apply Hfin.
  - apply t_bind_b; [apply t_parseDirectives; lia|]. intro dirs.
    apply t_bind_b; [apply t_parseEnumValuesDefinition; lia|]. intro vals. apply Hfin.
  - apply t_bind_b; [apply t_parseDirectives; lia|]. intro dirs.
    apply t_bind_b; [apply t_parseInputFieldsDefinition; lia|]. intro flds. apply Hfin.
Qed.

Lemma t_parseSchemaExtension : forall d f m, (m <= f)%nat -> triple (bnd m) (parseSchemaExtension d f) (SQ m).
Proof.
  intros d f m Hm. unfold parseSchemaExtension.
  apply t_bind_s; [apply t_expectKeyword|]. intros k m1 ->.
  apply t_bind_b; [apply t_peekPos_b|]. intro p.
  apply t_bind_b; [apply t_parseDirectives; lia|]. intro dirs.
  apply t_bind_b; [apply t_some; [discriminate|]; intros m' Hm'; apply t_parseOperationTypeDefinition|]. intro ops. cbv zeta.
  destruct (nil_ dirs && nil_ ops); [apply t_unexpected_then|apply t_b2s; apply t_ret_b].
Qed.

Lemma t_parseDirectiveLocation : forall m, triple (bnd m) parseDirectiveLocation (SQ m).
Proof.
  intro m. unfold parseDirectiveLocation.
  apply t_bind_s; [apply t_expect_s; discriminate|]. intros tok m1 ->.
  destruct (existsb (str_eqb (tval tok)) directive_locations); [apply t_b2s; apply t_ret_b|apply t_error_then].
Qed.

Lemma t_parseDirectiveDefinition : forall f desc m, (m <= f)%nat -> triple (bnd m) (parseDirectiveDefinition f desc) (SQ m).
Proof.
  intros f desc m Hm. unfold parseDirectiveDefinition.
  apply t_bind_s; [apply t_expectKeyword|]. intros x m1 ->.
  apply t_bind_b; [apply t_s2b; apply t_expect_s; discriminate|]. intro a.
  apply t_bind_b; [apply t_peekPos_b|]. intro p.
  apply t_bind_b; [apply t_s2b; apply t_parseName_s|]. intro n.
  apply t_bind_b; [apply t_parseArgumentDefs; lia|]. intro args.
  apply t_bind_b; [apply t_peek_any_b|]. intro pk0.
  apply t_bind_b; [destruct (is_kw pk0 (b "repeatable")); [apply t_bind_b; [apply t_skip_b; discriminate|]; intro r; apply t_ret_b|apply t_ret_b]|]. intro rep.
  apply t_bind_b; [apply t_s2b; apply t_expectKeyword|]. intro on.
  apply t_bind_b; [apply t_skip_b; discriminate|]. intro pp.
  apply t_bind_b; [apply t_s2b; apply t_parseDirectiveLocation|]. intro l0.
  apply t_bind_b; [apply t_sep_loop; [discriminate|]; intros m' Hm'; apply t_s2b; apply t_parseDirectiveLocation|]. intro locs.
  apply t_b2s. apply t_ret_b.
Qed.

Lemma t_then_some : forall A B (p : prog A) (g : A -> B) mm,
  triple (bnd mm) p (SQ mm) -> triple (bnd mm) (x <- p ;; Ret (Some (g x))) (LQ mm).
Proof.
  intros A B p g mm H. eapply t_bind; [exact H|]. intro x.
  eapply t_conseq; [apply t_ret|intros s Hs; exact Hs|]. intros o s [E Hs]. subst o. exact Hs.
Qed.

Lemma t_then_some_up : forall A B (p : prog A) (g : A -> B) m1,
  triple (bnd m1) p (BQ m1) -> triple (bnd m1) (x <- p ;; Ret (Some (g x))) (LQ (S m1)).
Proof.
  intros A B p g m1 H. eapply t_bind; [exact H|]. intro x.
  eapply t_conseq; [apply t_ret|intros s Hs; exact Hs|]. intros o s [E Hs]. subst o. unfold LQ, BQ, bnd in *. lia.
Qed.

Lemma t_schema_body : forall d f m m', (m <= f)%nat ->
  triple (fun s => bnd m' s /\ bnd m s) (parseSchemaDocument_body d f)
         (fun o s1 => bnd m s1 /\ match o with Some _ => (meas s1 < m')%nat | None => bnd m' s1 /\ at_eof s1 end).
Proof.
  intros d f m m' Hm. unfold parseSchemaDocument_body.
  eapply t_conseq with (P := bnd (Nat.min m' m)) (Q := LQ (Nat.min m' m));
    [|intros s [H1 H2]; unfold bnd in *; lia|intros o s H; unfold LQ in H; destruct o as [x|]; [split; unfold bnd in *; lia|destruct H as [H E]; split; [unfold bnd in *; lia|split; [unfold bnd in *; lia|exact E]]]].
  remember (Nat.min m' m) as mm eqn:Emm. assert (Hmm : (mm <= f)%nat) by lia. clear Emm.
  eapply t_bind; [apply t_peek_any|]. intro tok. cbv beta.
  destruct (kind_eqb (tkind tok) EOF) eqn:Eeof.
  - eapply t_conseq; [apply t_ret|intros s H; exact H|]. intros o s [E [H [e Hpk]]]. subst o. split; [exact H|].
    exists tok, e. split; [exact Hpk|apply kind_eqb_eq; exact Eeof].
  - eapply t_bind; [apply t_haserr|]. intro e. destruct e.
    + apply t_absurd. intros s [H _]. discriminate.
    + eapply t_conseq with (P := bnd mm); [|intros s [_ [H _]]; exact H|intros x s H; exact H].
      apply t_bind_b; [apply t_peek_any_b|]. intro pk0.
      apply t_bind_b; [destruct (kind_eqb (tkind pk0) BlockString || kind_eqb (tkind pk0) String_); [apply t_parseDescription|apply t_ret_b]|].
      intros [desc hasdesc].
      apply t_bind_b; [apply t_peek_any_b|]. intro tk.
      destruct (negb (kind_eqb (tkind tk) Name)); [apply t_unexpected_then|].
      destruct (type_keyword (tval tk)) as [k|].
      * apply t_then_some. apply t_parseTypeDef. exact Hmm.
      * destruct (str_eqb (tval tk) (b "schema")); [apply t_then_some; apply t_parseSchemaDefinition; exact Hmm|].
        destruct (str_eqb (tval tk) (b "directive")); [apply t_then_some; apply t_parseDirectiveDefinition; exact Hmm|].
        destruct (str_eqb (tval tk) (b "extend")); [|apply t_unexpected_then].
        cbv zeta.
        apply t_bind_b; [destruct (if d F_S6 then negb (nil_ desc) else hasdesc); [eapply t_bind; [apply t_prev|]; intro pv; apply t_error|apply t_ret_b]|].
        intro u.
        apply t_bind_s; [apply t_expectKeyword|]. intros kx m1 ->.
        apply t_bind_b; [apply t_peek_any_b|]. intro ek.
        destruct (str_eqb (tval ek) (b "schema")).
        -- apply t_then_some_up. apply t_s2b. apply t_parseSchemaExtension. lia.
        -- destruct (type_keyword (tval ek)) as [k|]; [|apply t_unexpected_then].
           apply t_then_some_up. apply t_s2b. apply t_parseTypeDef. lia.
Qed.

Lemma t_parseSchemaDocument : forall d f m, (m <= f)%nat ->
  triple (bnd m) (parseSchemaDocument d f) (fun _ s => bnd m s /\ at_eof s).
Proof.
  intros d f m Hm. unfold parseSchemaDocument.
  apply t_bind_b; [apply t_peekPos_b|]. intro p.
  eapply t_bind; [eapply t_conseq; [apply (t_loop_exit _ (parseSchemaDocument_body d f) (bnd m) at_eof m)| |]|].
  - intro m'. apply t_schema_body. exact Hm.
  - intros s H. split; exact H.
  - intros x s H. exact H.
  - intro items. cbv beta zeta.
    eapply t_bind; [apply t_haserr|]. intro e.
    match goal with |- triple _ (if ?c then _ else _) _ => destruct c end.
    + eapply t_bind; [eapply t_conseq; [apply (t_unexpected m (fun _ _ => False))|intros s [_ [H _]]; exact H|intros x s H; exact H]|].
      intros []. apply t_absurd. intros s H. exact H.
    + eapply t_conseq; [apply t_ret|intros s H; exact H|]. intros x s [_ [_ [H [_ E]]]]. split; assumption.
Qed.

Lemma run_parseSchemaDocument : forall d limit srcix input,
  let r := run d (parseSchemaDocument d (query_fuel input)) (query_fuel input) (pst_init input limit srcix) in
  good (snd r) /\ wf (snd r) /\ (has_err (snd r) = false -> at_eof (snd r)).
Proof.
  intros d limit srcix input.
  pose proof (t_parseSchemaDocument d (query_fuel input) (length input) ltac:(unfold query_fuel; lia)
                d (query_fuel input) (pst_init input limit srcix) eq_refl (wf_init input limit srcix)) as H.
  assert (Hm : meas (pst_init input limit srcix) = length input) by (unfold meas, pst_init; cbn; lia).
  specialize (H ltac:(unfold bnd; lia) ltac:(rewrite Hm; unfold query_fuel; lia)).
  destruct H as [G [_ [W R]]]. cbv zeta. split; [exact G|]. split; [exact W|]. intro Hn. exact (proj2 (R Hn)).
Qed.

(* ---- the theorems: parsing a schema document never stalls ---- *)
Theorem parseSchema_never_stalls : forall d limit srcix builtin input,
  parseSchema d limit srcix builtin input <> PErr PStall.
Proof.
  intros d limit srcix builtin input. unfold parseSchema, parseSchemaWith.
  destruct (run_parseSchemaDocument d limit srcix input) as [G _].
  destruct (run d (parseSchemaDocument d (query_fuel input)) (query_fuel input) (pst_init input limit srcix)) as [doc s].
  cbn [snd] in G. unfold good in G. destruct (perr_ s) as [e|]; cbn [fst]; [|discriminate].
  intro E. inversion E. subst. apply G. reflexivity.
Qed.

(* A schema document is only returned once the parser has looked at the end-of-input token. *)
Theorem parseSchema_reads_everything : forall d limit srcix builtin input doc s,
  parseSchemaWith d (query_fuel input) limit srcix builtin input = (POk doc, s) -> at_eof s /\ rest (plx s) = [].
Proof.
  intros d limit srcix builtin input doc s H. unfold parseSchemaWith in H.
  destruct (run_parseSchemaDocument d limit srcix input) as [_ [W R]].
  destruct (run d (parseSchemaDocument d (query_fuel input)) (query_fuel input) (pst_init input limit srcix)) as [doc0 s0].
  cbn [snd] in R, W. destruct (perr_ s0) as [e|] eqn:Ee; [discriminate|]. inversion H; subst.
  assert (E : at_eof s) by (apply R; apply has_err_none; exact Ee).
  split; [exact E|]. destruct E as [t [e [Hp Hk]]]. destruct W as [_ [_ W3]]. exact (W3 t e Hp Hk).
Qed.

(* definitions and extensions of a built-in source are marked built-in, those of any other source are not *)
Theorem parseSchema_builtin_mark : forall d limit srcix builtin input doc,
  parseSchema d limit srcix builtin input = POk doc ->
  Forall (fun x => df_builtin x = builtin) (s_defs doc) /\ Forall (fun x => df_builtin x = builtin) (s_exts doc).
Proof.
  intros d limit srcix builtin input doc H. unfold parseSchema, parseSchemaWith in H.
  destruct (run d (parseSchemaDocument d (query_fuel input)) (query_fuel input) (pst_init input limit srcix)) as [doc0 s0].
  destruct (perr_ s0); [discriminate|]. cbn [fst] in H. inversion H; subst. cbn [s_defs s_exts].
  split; apply Forall_forall; intros x Hx; apply in_map_iff in Hx; destruct Hx as [y [<- _]]; reflexivity.
Qed.

Theorem parseSchemas_never_stalls : forall d limit srcs, parseSchemas d limit srcs <> PErr PStall.
Proof.
  intros d limit srcs. unfold parseSchemas. generalize 0%N as ix, sdoc0 as acc.
  induction srcs as [|[bi inp] tl IH]; intros ix acc; cbn [parseSchemas_from]; [discriminate|].
  pose proof (parseSchema_never_stalls d limit ix bi inp) as H.
  destruct (parseSchema d limit ix bi inp) as [doc|e]; [apply IH|].
  intro E. apply H. exact E.
Qed.
